"""
C16 — data queries return exactly the values the path designates.

Theorems: lean/BufrModel/Props/C16.lean (Python slice semantics; the `@` selector restricts the result to the
selected subsets; query over a node tree = evaluation of the path over its nested JSON rendering for child /
attribute paths; bare id of an ordinary element = the flat values carrying that label, in flat order; compressed
data = the uncompressed query on the shared tree with the values of each subset).

Oracle (the statement itself, on the implementation alone), per decoded message and query:
  json-eval   DataQuerent(NodePathParser()).query(msg, expr): subset_indices() / all_values() (or the error family)
              against a small evaluator (below, `eval_message`) of the same path over the implementation's OWN
              NestedJsonRenderer().render(template_data): one envelope per replication, one list per repetition,
              matches in document order;
  bare-id     the flat result of a bare id that never labels an attribute node against the flat decoded lists
              filtered by label, per subset, in order;
  selector    `@sel` + path against selecting the subsets of the result of the path alone;
  compressed  the same values encoded compressed and uncompressed: same results;
  compiled    Decoder(compiled_template_cache_max=8) (second decode = compiled template) against the plain decoder.
Tie: the model's `query` (driver op `query`) against the implementation on every query (values, nesting, subset
indices, error family); the model's `paths` against an enumeration over the implementation's node tree; the
model's `Spec.evalPath` on the model's nested JSON against the model's `query`; `pyslice` against CPython.
Inputs: the shared generated pipeline (levels 0-2, compressed or not, 1-4 subsets), the shapes of C09 (attributes
on factors, chained attributes, 221, zero-count replications, replicated marker operators), files of tests/data
and a sample of tests/benchmark_data  x  all child/attribute paths that exist in the wired tree up to depth 6
(driver op `paths`)  x  slices at one or two steps  x  subset selectors, plus bare ids and `>` variants.
Second round (harness/c16gen.py):
  slice space   every message: the sites of its node tree (prefix, separator, id, number n of nodes of that id in one
                sibling list, kind of list) are enumerated on the implementation's tree and slices are drawn from the
                grid RELATIVE TO n (start, stop in {none, -(n+1) .. n+1}, step in {none, 1, 2, -1, -2}, indices
                -(n+1) .. n+1), for `/`, `.` and `>` steps; n = 0 sites from ids that occur elsewhere in the message;
                grid shapes: templates built so that sibling lists with exactly 1..6 nodes of one id exist at the
                template top level, in one block of a fixed / delayed replication, nested, among the members of
                Table D sequences, as repeated composite nodes, in the attribute list of an element / a factor (0..6
                quality-information / substituted / first-order / difference / replaced values of one id), repeated
                values pairwise distinct: the WHOLE grid at one site per (step kind, n), n = 0..6, and as `@`
                selector for 1..6 subsets (which list kinds / storage form carry the whole grid rotates with the seed
                in the quick tier; the thorough tier takes all); a sample of the grid at every other site;
  bitmaps       random templates with one to four bitmap constructs of every operator kind (222 / 223 / 224 / 225 /
                232, 236 / 237000 / 237255 / 235000) whose data-present bits are drawn per subset: equal number of
                zero bits in another arrangement (equal flat descriptors, different owners), other numbers of zero
                bits under a delayed or a smaller fixed count, equal bits; 2-6 subsets; every query also under `@[i]`
                for every i and under reversed / tail / every-second selectors;
  pool          random nested templates over three element ids with replication counts drawn per subset.
All oracles and the model correspondence run on all of them; json-eval, bare-id and selector additionally on a copy of
the template data whose values are replaced by the tag 'subset:flat position' (replication factors keep their value):
the comparison then tells WHICH node was selected even when neighbouring values are equal or missing.
Third round (harness/c16hist.py): histories on ONE reused DataQuerent / BufrMessageQuerent / NodePathParser over groups of
3-4 of the messages above (valid queries, queries failing at evaluation time, expressions rejected in every state of the
parser machine with 0-4 buffered slice elements, the same expression on consecutive messages): every answer against a
fresh object and against the model (`query`; the parser object of the history theorems: driver op `parser-history`).
Templates the wiring pass does not understand (open findings of C09/C07: an associated field in force over
203 / 206 / marker / 008023, resumed class-33 runs) are excluded by the structural signatures of C09.
"""
import json
import multiprocessing
import os
import random
import re
import time
import zlib

from harness import core, tables_io
from harness import c16gen as G
from harness import c16hist as H
from harness import coder_io as C
from harness import coderprops as P
from harness import views_io as V
from harness.props import c09 as K9

PROP = 'C16'
GRID_DONE = {}     # (step kind, n) -> sliced queries of a whole-grid site evaluated in this run

META = dict(
    claimed=True,
    text='Kernel-checked theorems about the Lean model of DataQuerent (query / query_compressed_data / '
         'filter_for_sub_nodes with its child, attribute and descendant variants / filter_for_entities / '
         'create_values_from_nodes / QueryResult), for EVERY node tree, flat list, path and subset count: pySlice is '
         'range(*slice.indices(n)) of CPython (membership for positive and negative steps, order, no repeats, bounds, closed '
         'forms for [:], [k], [-k], [a:b]); an `@` selector restricts the result of the unselected query to exactly the '
         'subsets it designates; filter_for_entities under a child/attribute step returns the matches with the slice applied '
         'in document order for every slice of the path language (negative steps included); on a shared tree with equal '
         'labels the compressed query equals the uncompressed one subset by subset. "query = evaluation over the nested '
         'JSON" is proved in full for one subset, for a whole uncompressed message and (after fix F16c, the model is the fixed '
         'code) for a whole compressed message, the empty selection included (C16_query_eq_eval_compressed; the one selector '
         'outside its hypothesis, @[k] beyond the last subset, fails on both sides: C16_query_compressed_subset_out_of_range); '
         '"bare id = flat filter" in full for ordinary elements on wired trees. The querent is modelled as the long-lived '
         'OBJECT it is (parser attributes, reset(), what a raising handler leaves behind): C15_parse_history_independent / '
         'C16_query_history_independent prove by induction over an unbounded history of earlier queries (accepted, rejected '
         'at any point, failing at evaluation time, any mix of messages) and for every state of the object that each answer '
         'is a function of (message, expression) alone; a parser whose reset() forgets the slice buffer is shown NOT to be '
         '(C15_reset_must_clear_slice_buffer). The correspondence run compares '
         'Spec.evalPath on the model\'s nested JSON with the model query and the model with the implementation on every '
         'query, runs histories of 70 (quick) / 110 operations on ONE DataQuerent / BufrMessageQuerent / NodePathParser over groups '
         'of 3-4 messages (the two storage forms of one template with different values and counts, other templates): valid '
         'queries, queries failing at evaluation time, expressions rejected in every state of the parser machine with 0-4 slice '
         'elements buffered, each answer against a fresh object and against the model, results handed out earlier re-read at the '
         'end; and the oracle compares the implementation with an evaluator over its own nested JSON, its flat lists '
         'filtered by label, post-hoc subset selection, the compressed/uncompressed and compiled/plain decodings, on '
         'generated messages, the C09 shapes and the sample files x all existing paths up to depth 6 x slices x selectors. '
         'Slices are drawn from the grid relative to the number n of matches at the step (start, stop in none, -(n+1)..n+1; step in '
         'none, 1, 2, -1, -2; indices): the whole grid for n = 0..6 at child, attribute and descendant steps and at the @ selector '
         '(1..6 subsets) on templates built to have sibling lists with exactly n matches, a sample at the sites of every other '
         'message; messages include 2-6 subsets of equal structure whose bitmaps (222/223/224/225/232, 236/237, 235) differ, and '
         'the json-eval / bare-id / selector oracles also run on a copy whose values are replaced by their flat positions.',
    technique='Lean 4 theorems (structural induction over the node tree / the path, list reasoning about enumerate-filter-'
              'slice-sort) + checked model/implementation correspondence + property oracle on the implementation '
              '(query vs evaluator over the implementation\'s own nested JSON)',
    note='The model is the code after fixes F16a (replications filtered repetition by repetition), F16b (factor before '
         'members in descendant filtering) and F16c (query_compressed_data returns the empty result when no subset is selected; '
         'prepared as notes/C16_fix_empty_selection_compressed.diff, on a tree without it the disagreement is reported as the '
         'known finding F16c). Negative int slices cannot come out of the parser (C15) and are modelled for '
         'components only. The early return of filter_for_entities is modelled by its result. Value comparison model vs '
         'implementation uses the 2-ulp rule of C01; oracle comparisons on the implementation alone are exact.',
)

SLICES = ['[0]', '[1]', '[-1]', '[-2]', '[::2]', '[1:]', '[:-1]', '[::-1]', '[7]', '[99:]', '[2]', '[-3:]', '[1::2]', '[-1::-2]', '[:1]', '[1::-1]', '[-2::-1]', '[::-2]', '[2:0:-1]']
SELECTORS = ['@[0]', '@[-1]', '@[::2]', '@[1:]', '@[9]', '@[1]', '@[::-1]', '@[7:]', '@[-2]', '@[:1]']
MAX_DEPTH = 6
QUICK_MAX_SUBSET_VALUES = 5000
THOROUGH_MAX_SUBSET_VALUES = 30000

# ---------------------------------------------------------------------------------------------
# the evaluator over the nested JSON rendering (the oracle)


class NoValue(Exception):
    pass


def _choose(cands, comp):
    ms = [d for d in cands if d['id'] == comp.id]
    if isinstance(comp.slice, int):
        return ms[comp.slice:comp.slice + 1]
    sel = set(range(len(ms))[comp.slice])
    return [d for i, d in enumerate(ms) if i in sel]


def _concat(dicts, rest):
    out = []
    for d in dicts:
        out += _eval_at(d, rest)
    return out


def _eval_at(d, comps):
    if not comps:
        if 'value' in d:
            return [d['value']]
        raise NoValue()
    c = comps[0]
    if c.separator == '/':
        if 'members' not in d:
            raise NoValue()
        ms = d['members']
        if all(isinstance(x, list) for x in ms):  # a replication: one list per repetition
            env = []
            for rep in ms:
                r = _concat(_choose(rep, c), comps[1:])
                if r:
                    env.append(r)
            return [env] if env else []
        return _concat(_choose(ms, c), comps[1:])
    if c.separator == '.':
        if 'attributes' in d:
            cands = d['attributes']
        elif 'factor' in d:
            cands = [d['factor']]
        else:
            raise NoValue()
        return _concat(_choose(cands, c), comps[1:])
    raise core.MachineryError('evaluator: separator %r' % c.separator)


def eval_subset(js, comps):
    if comps[0].separator != '/':
        raise core.MachineryError('evaluator: leading separator')
    return _concat(_choose(js, comps[0]), comps[1:])


def select_subsets(subset_slice, n):
    """the subset indices an `@` selector designates (Python semantics over range(n)); 'err:other' outside"""
    if isinstance(subset_slice, int):
        return [subset_slice] if subset_slice < n else 'err:other'
    try:
        return list(range(n))[subset_slice]
    except ValueError:
        return 'err:other'


def eval_message(nested, node_path):
    """-> (subset indices, values per subset) or an error tag"""
    sel = select_subsets(node_path.subset_slice, len(nested))
    if isinstance(sel, str):
        return sel
    try:
        return sel, [eval_subset(nested[i], node_path.components) for i in sel]
    except NoValue:
        return 'err:lib:query'
    except ValueError:
        return 'err:other'


# ---------------------------------------------------------------------------------------------
# implementation side
def parse_path(expr):
    """the parsed expression (a fresh parser every time: what the harness reads must not depend on what was parsed before)"""
    from pybufrkit.dataquery import NodePathParser
    return NodePathParser().parse(expr)


def impl_query(msg, expr):
    """-> (subset indices, nested values per subset) or an error tag"""
    from pybufrkit.dataquery import DataQuerent, NodePathParser
    try:
        r = DataQuerent(NodePathParser()).query(msg, expr)
        return r.subset_indices(), r.all_values()
    except RecursionError:
        return 'err:other'
    except Exception as e:  # noqa
        return core.err_tag(e)


def flatten(x):
    out = []
    for e in x:
        if isinstance(e, list):
            out += flatten(e)
        else:
            out.append(e)
    return out


class _Lazy(dict):
    def __init__(self, f):
        dict.__init__(self)
        self.f = f

    def __missing__(self, k):
        v = self[k] = self.f(k)
        return v

    def get(self, k, default=None):
        return self[k]


class _Box(object):
    def __init__(self, value):
        self.value = value


class _TaggedMessage(object):
    """what DataQuerent.query reads of a message, over a copy of the template data in which every value is replaced
    by the tag 'subset:flat index' (replication factors keep their value: the renderer cuts the repetitions by it)"""

    def __init__(self, msg):
        import copy
        from pybufrkit import templatedata as T
        td = msg.template_data.value
        comp = bool(msg.is_compressed.value)

        def factors(nodes, acc):
            for n in nodes:
                if isinstance(n, T.DelayedReplicationNode) and n.factor is not None:
                    acc.add(n.factor.index)
                if hasattr(n, 'members'):
                    factors(n.members, acc)
            return acc

        keep = {}
        vals = []
        for s_, vs in enumerate(td.decoded_values_all_subsets):
            k = 0 if comp else s_
            if k not in keep:
                keep[k] = factors(td.decoded_nodes_all_subsets[k], set())
            vals.append([v if i in keep[k] else '%d:%d' % (s_, i) for i, v in enumerate(vs)])
        td2 = copy.copy(td)
        td2.decoded_values_all_subsets = vals
        self.n_subsets = _Box(msg.n_subsets.value)
        self.is_compressed = _Box(comp)
        self.template_data = _Box(td2)


def tree_paths(nodes, depth=MAX_DEPTH):
    """all child/attribute paths of the implementation's node tree (labels as `str(node.descriptor)`)"""
    out = set()

    def go(n, pre, sep, d):
        if d == 0:
            return
        p = pre + sep + str(n.descriptor)
        out.add(p)
        for a in getattr(n, 'attributes', []):
            go(a, p, '.', d - 1)
        if getattr(n, 'factor', None) is not None:
            go(n.factor, p, '.', d - 1)
        for m in getattr(n, 'members', []):
            go(m, p, '/', d - 1)

    for n in nodes:
        go(n, '', '/', depth)
    return out


def attribute_labels(nodes):
    """labels of every node that hangs on another node as an attribute (at any depth)"""
    out = set()

    def attrs(n, depth=0):
        if depth > V.MAX_ATTR_DEPTH:
            return
        for a in getattr(n, 'attributes', []):
            out.add(str(a.descriptor))
            attrs(a, depth + 1)

    def go(ns):
        for n in ns:
            attrs(n)
            if getattr(n, 'factor', None) is not None:
                attrs(n.factor)
            if hasattr(n, 'members'):
                go(n.members)

    go(nodes)
    return out


def valueless_labels(nodes):
    """labels of the nodes without a value (composites, operators, elements suppressed by 221YYY)"""
    from pybufrkit import templatedata as T
    out = set()

    def go(ns):
        for n in ns:
            if isinstance(n, T.NoValueDataNode):
                out.add(str(n.descriptor))
            if hasattr(n, 'members'):
                go(n.members)

    go(nodes)
    return out


# ---------------------------------------------------------------------------------------------
# query generation
COMP_RE = re.compile(r'([/.>])([0-9A-Z]+)')


def split_path(p):
    return COMP_RE.findall(p)


def join_path(comps, slices=None):
    slices = slices or {}
    return ''.join('%s%s%s' % (sep, i, slices.get(k, '')) for k, (sep, i) in enumerate(comps))


def gen_queries(rng, paths, labels, n_subsets, budget):
    """-> list of (kind, selector, body); kind 'ca' = child/attribute path (oracle json-eval), 'bare' = bare id,
    'desc' = a path with `>` steps (model correspondence only).  Every body also appears with the empty selector."""
    out = []
    seen = set()

    def add(kind, sel, body):
        if (sel, body) not in seen:
            seen.add((sel, body))
            out.append((kind, sel, body))

    paths = sorted(paths)
    rng.shuffle(paths)
    # deeper paths first in half of the picks
    deep = sorted(paths, key=lambda p: -len(split_path(p)))
    picks = []
    for k in range(len(paths)):
        picks.append(deep[k] if k % 2 == 0 else paths[k])
    n_ca = max(1, int(budget * 0.7))
    for p in picks:
        if len(out) >= n_ca:
            break
        comps = split_path(p)
        variants = [{}]
        k1 = rng.randrange(len(comps))
        variants.append({k1: rng.choice(SLICES)})
        if len(comps) > 1:
            k2 = rng.randrange(len(comps))
            variants.append({k1: rng.choice(SLICES), k2: rng.choice(SLICES)})
        if rng.random() < 0.3:
            variants.append({k: rng.choice(SLICES) for k in range(len(comps)) if rng.random() < 0.6})
        for sl in variants:
            body = join_path(comps, sl)
            add('ca', '', body)
            for sel in rng.sample(SELECTORS, 1 if rng.random() < 0.6 else 2):
                add('ca', sel, body)
        # `>` variants of the same path (model correspondence): one separator replaced, a prefix dropped
        if rng.random() < 0.5 and len(comps) > 1:
            k = rng.randrange(len(comps))
            c2 = list(comps)
            c2[k] = ('>', c2[k][1])
            if rng.random() < 0.5:
                c2 = c2[k:]
            elif k + 1 < len(c2) and rng.random() < 0.5:
                c2 = c2[:k] + [('>', c2[k + 1][1])] + c2[k + 2:]
            sl = {rng.randrange(len(c2)): rng.choice(SLICES)} if rng.random() < 0.5 else {}
            body = join_path(c2, sl)
            add('desc', '', body)
            if rng.random() < 0.3:
                add('desc', rng.choice(SELECTORS), body)
    labels = sorted(labels)
    rng.shuffle(labels)
    for lab in labels[:max(2, budget // 6)]:
        add('bare', '', '>' + lab if rng.random() < 0.3 else lab)
        if rng.random() < 0.4:
            add('bare', rng.choice(SELECTORS), '>' + lab)
            add('bare', '', '>' + lab)
        if rng.random() < 0.4:
            add('desc', '', lab + rng.choice(SLICES))
    return out[:budget + 8]


def sweep_selectors(rng, queries, n_sub):
    """every query without selector also under `@[i]` for every subset i and under a few slice selectors (reversed,
    tail, every second): the result must be the restriction of the unselected one, whatever was selected before"""
    out = list(queries)
    seen = set((s_, b_) for (_, s_, b_) in queries)
    sels = ['@[%d]' % i for i in range(min(n_sub, 6))] + ['@[::-1]', '@[1:]', '@[::2]', '@[-2:]', '@[1::-1]']
    for kind, sel, body in queries:
        if sel or ('[' in body and rng.random() < 0.6):
            continue
        for s_ in sels:
            if (s_, body) not in seen:
                seen.add((s_, body))
                out.append((kind, s_, body))
    return out


# ---------------------------------------------------------------------------------------------
# comparison helpers
def same_nested(impl, model):
    """implementation values (nested lists) vs model JSON (nested lists, leaves as the driver writes them)"""
    if isinstance(impl, list):
        return isinstance(model, list) and len(impl) == len(model) and all(same_nested(a, b) for a, b in zip(impl, model))
    if isinstance(model, list):
        return False
    return C.same_value(impl, model)


def model_result(r):
    """driver result -> (indices, values) or error tag"""
    if isinstance(r, dict):
        return 'err:' + r['err']
    return [x[0] for x in r], [x[1] for x in r]


def same_result(impl, model):
    if isinstance(impl, str) or isinstance(model, str):
        return impl == model
    return impl[0] == model[0] and same_nested(impl[1], model[1])


def strict_result_equal(a, b):
    """exact equality of two results; two failures are equal whatever their families (which exception comes first
    when a query fails for two reasons depends on the order of evaluation, which the property does not fix)"""
    if isinstance(a, str) and isinstance(b, str):
        return True
    if isinstance(a, str) or isinstance(b, str):
        return False
    return a[0] == b[0] and V.strict_equal(a[1], b[1])


def show(r):
    if isinstance(r, str):
        return r
    return json.dumps([r[0], V.jsonable(r[1])], default=repr)[:300]


# ---------------------------------------------------------------------------------------------
_treq = None


def group_treq():
    global _treq
    if _treq is None:
        _treq = tables_io.group_request()
    return _treq


def evaluate(task):
    """worker: everything for one message.  task: dict(b=bytes, ids, seed, budget, corpus=bool, alt=bytes|None,
    max_values=int, queries=None|[(kind, sel, body)])
    -> dict(skip=..)| dict(findings=[..], queries=[..], counts={..})"""
    try:
        t0 = time.time()
        r = H.evaluate(task) if task.get('hist') else _evaluate(task)
        r['_time'] = time.time() - t0
        return r
    except core.MachineryError as e:
        return {'harness_error': 'machinery: %s' % e}
    except Exception:  # noqa
        import traceback
        return {'harness_error': traceback.format_exc()[-2000:]}


def _evaluate(task):
    from pybufrkit.decoder import Decoder
    from pybufrkit.renderer import NestedJsonRenderer
    b = task['b']
    counts = {}

    def cnt(k, n=1):
        counts[k] = counts.get(k, 0) + n

    try:
        msg = Decoder().process(b, wire_template_data=False)
    except Exception as e:  # noqa
        return {'skip': 'decode:' + core.err_tag(e)}
    td = msg.template_data.value
    n_sub = msg.n_subsets.value
    comp = bool(msg.is_compressed.value)
    lens = [len(v) for v in td.decoded_values_all_subsets]
    if lens and max(lens) > task['max_values']:
        return {'skip': 'large'}
    try:
        msg.wire()
    except Exception as e:  # noqa
        return {'skip': 'wire-fails:' + core.err_tag(e)}
    try:
        nested = NestedJsonRenderer().render(td)
    except RecursionError:
        return {'skip': 'attribute-cycle'}
    ids = task['ids']
    if task.get('corpus'):
        key = msg.table_group_key
        tb, tdd = tables_io.read_group(key.wmo_tables_sn, key.local_tables_sn, key.tables_root_dir)
        treq = tables_io.tables_request(tb, tdd)
    else:
        treq = group_treq()
    base = {'ids': ids, 'compressed': comp, 'n': n_sub, 'bits': C.data_bits(b)}
    findings = []

    def finding(kind, stage, why, expr):
        # F16c (fix prepared: notes/C16_fix_empty_selection_compressed.diff; the model is the fixed code): compressed
        # data, a selector that designates no subset, a path that raises: the unfixed code filters the nodes before the
        # (empty) loop over the subsets, so the query raises where the uncompressed one (and the model) is empty
        flag = False
        if expr and comp and stage in ('json-eval', 'compressed', 'model', 'selector'):
            try:
                flag = select_subsets(parse_path(expr).subset_slice, n_sub) == [] and isinstance(impl.get(expr), str)
            except Exception:  # noqa
                flag = False
        findings.append({'kind': kind, 'stage': stage, 'why': why, 'query': expr, 'empty_selection_on_compressed': flag})

    impl = {}
    cells = {}
    # -- the paths that exist: model enumeration vs the implementation's tree
    rng = random.Random(task['seed'])
    if task.get('queries') is None:
        sub_pick = list(range(n_sub)) if n_sub <= 6 else sorted(rng.sample(range(n_sub), 6))
        mp = core.Driver().batch([treq, dict(base, op='paths', depth=MAX_DEPTH, subsets=sub_pick)], timeout=600)[1]
        if mp.get('wire') != 'ok':
            findings.append({'kind': 'correspondence', 'stage': 'wire', 'why': 'implementation wires, model: %s' % mp.get('wire'), 'query': None})
            return {'findings': findings, 'queries': [], 'counts': counts, 'n_subsets': n_sub, 'compressed': comp}
        mpaths = set(mp['paths'])
        ipaths = set()
        for i in ([0] if comp else sub_pick):
            ipaths |= tree_paths(td.decoded_nodes_all_subsets[i])
        if mpaths != ipaths:
            d = sorted(mpaths ^ ipaths)[:4]
            finding('correspondence', 'paths', 'existing paths differ (model %d, implementation %d): %s' % (len(mpaths), len(ipaths), d), None)
        labels = set(str(d) for i in sub_pick for d in td.decoded_descriptors_all_subsets[i])
        queries = gen_queries(rng, mpaths, labels, n_sub, task['budget'])
        if task.get('sweep'):
            queries = sweep_selectors(rng, queries, n_sub)
        if task.get('grid'):
            # the slice space relative to the number of matches at every kind of step (harness/c16gen.py); fewer
            # queries on long subsets (the model walks the whole tree for every `>` query)
            if lens and max(lens) > 2000:
                task = dict(task, grid=dict(task['grid'], max_sites=2, sample=4, zero_sites=0))
            sites, valued = G.merge_sites([G.enum_sites(td.decoded_nodes_all_subsets[i], MAX_DEPTH)
                                           for i in ([0] if comp else sub_pick)])
            gq, cells = G.site_queries(rng, sites, valued, labels, n_sub, task['grid'])
            seen = set((s_, b_) for (_, s_, b_) in queries)
            queries += [q for q in gq if (q[1], q[2]) not in seen]
        for p in mpaths:
            cnt('depth-%d' % len(split_path(p)))
        if task.get('part'):
            # one of K tasks on the same message: the queries are dealt out by their body (a query under a selector
            # stays with the unselected one)
            k_, K_ = task['part']
            queries = [q for q in queries if zlib.crc32(q[2].encode()) % K_ == k_]
    else:
        queries = [tuple(q) for q in task['queries']]
    exprs = [sel + body for (_, sel, body) in queries]
    if not comp and any(td.decoded_descriptors_all_subsets[i] == td.decoded_descriptors_all_subsets[j] and
                        td.bitmap_links_all_subsets[i] != td.bitmap_links_all_subsets[j]
                        for i in range(min(n_sub, 8)) for j in range(i)):
        cnt('messages:equal-descriptors-different-bitmap-links')

    # -- implementation results, on the message and on its copy with the values replaced by their positions
    for e in exprs:
        impl[e] = impl_query(msg, e)
    tmsg = _TaggedMessage(msg)
    try:
        nested_t = NestedJsonRenderer().render(tmsg.template_data.value)
    except Exception as e:  # noqa
        raise core.MachineryError('rendering of the tagged copy fails: %r' % (e,))
    impl_t = _Lazy(lambda e: impl_query(tmsg, e))    # evaluated where an oracle looks at it
    views = [('', impl, nested, td.decoded_values_all_subsets),
             ('on the copy with the values replaced by their flat positions: ', impl_t, nested_t,
              tmsg.template_data.value.decoded_values_all_subsets)]
    # -- the model
    mr = core.Driver().batch([treq, dict(base, op='query', paths=exprs)], timeout=3600)[1]   # long subsets on a loaded machine: 1200 s measured
    if mr.get('wire') != 'ok':
        finding('correspondence', 'wire', 'implementation wires, model: %s' % mr.get('wire'), None)
        return {'findings': findings, 'queries': [], 'counts': counts, 'n_subsets': n_sub, 'compressed': comp}
    if not mr.get('label_ok', True):
        finding('correspondence', 'labels', 'model label function disagrees with the driver labels', None)
    shape_ok = mr.get('shape_ok') and mr.get('nested_ok')
    if not shape_ok:
        cnt('model-shape-hypothesis-false')
    # structural facts for the oracles
    attr_labels = set()
    order_ok = True
    for i in range(n_sub):
        attr_labels |= attribute_labels(td.decoded_nodes_all_subsets[i])
        if comp:
            break
    noval_labels = set()
    for i in range(n_sub):
        noval_labels |= valueless_labels(td.decoded_nodes_all_subsets[i])
        if comp:
            break
    for i in range(n_sub):
        order, _ = V.tree_indices(td.decoded_nodes_all_subsets[i])
        if order != list(range(lens[i])):
            order_ok = False
        if comp:
            break
    # alternative decodings
    alt_msgs = {}
    if task.get('alt') is not None:
        try:
            m2 = Decoder().process(task['alt'])
            if bool(m2.is_compressed.value) != comp and m2.template_data.value.decoded_values_all_subsets == td.decoded_values_all_subsets:
                alt_msgs['compressed'] = m2
            else:
                cnt('alt-encoding-differs')
        except Exception:  # noqa
            cnt('alt-encoding-fails')
    if task.get('compiled'):
        try:
            dec = Decoder(compiled_template_cache_max=8)
            dec.process(b)
            m3 = dec.process(b)
            t3 = m3.template_data.value
            if (t3.decoded_values_all_subsets == td.decoded_values_all_subsets and
                    [[str(d) for d in ds] for ds in t3.decoded_descriptors_all_subsets] ==
                    [[str(d) for d in ds] for ds in td.decoded_descriptors_all_subsets] and
                    t3.bitmap_links_all_subsets == td.bitmap_links_all_subsets):
                alt_msgs['compiled'] = m3
            else:
                cnt('compiled-flat-differs(C08)')
        except Exception:  # noqa
            cnt('compiled-decode-fails(C08)')

    qinfo = []
    for (kind, sel, body), e, m in zip(queries, exprs, mr['res']):
        r = impl[e]
        info = {'q': e, 'kind': kind, 'err': r if isinstance(r, str) else None,
                'nonempty': (not isinstance(r, str)) and any(v for v in r[1]), 'cell': cells.get(e)}
        qinfo.append(info)
        if m.get('parse') != 'ok':
            if r != 'err:' + m['parse']['err']:
                finding('correspondence', 'parse', 'model does not parse the expression (%s), implementation: %s' % (m.get('parse'), show(r)), e)
            continue
        # correspondence: model query vs implementation
        mq = model_result(m['q'])
        if not same_result(r, mq):
            finding('correspondence', 'model', 'implementation %s, model %s' % (show(r), show(mq)), e)
        # the model's specification against the model (what C16_query_eq_eval states)
        if m.get('spec') is not None and shape_ok:
            if m['spec'] != m['q'] and not (isinstance(m['spec'], dict) and isinstance(m['q'], dict)):
                finding('correspondence', 'model-vs-spec', 'model query %s, Spec.evalPath %s' % (json.dumps(m['q'])[:200], json.dumps(m['spec'])[:200]), e)
        np_ = parse_path(e)
        selx = select_subsets(np_.subset_slice, n_sub)
        lab = body.lstrip('>')
        if kind == 'bare' and lab in noval_labels:
            cnt('bare-id-on-valueless-node')
        ordinary = kind == 'bare' and lab not in attr_labels and lab not in noval_labels and order_ok
        if ordinary:
            info['ordinary'] = True
        failed = set()
        for vname, res, nst, vals in views:
            if not (kind == 'ca' or ordinary or (sel and body in impl and not isinstance(impl[body], str))):
                break
            rv = res[e]
            # oracle 1: evaluation over the implementation's own nested JSON
            if kind == 'ca' and 'json-eval' not in failed:
                want = eval_message(nst, np_)
                if not strict_result_equal(rv, want):
                    failed.add('json-eval')
                    finding('oracle', 'json-eval', '%squery %s, evaluation over the nested JSON %s' % (vname, show(rv), show(want)), e)
            # oracle 2: bare id of an ordinary element = flat filter
            if ordinary and 'bare-id' not in failed:
                if isinstance(selx, str):
                    want = selx
                else:
                    want = (selx, [[v for d, v in zip(td.decoded_descriptors_all_subsets[i], vals[i]) if str(d) == lab] for i in selx])
                got = rv if isinstance(rv, str) else (rv[0], [flatten(v) for v in rv[1]])
                if not strict_result_equal(got, want):
                    failed.add('bare-id')
                    finding('oracle', 'bare-id', '%sflattened query %s, flat data filtered by label %s' % (vname, show(got), show(want)), e)
            # oracle 3: the selector restricts the result of the unselected query
            if sel and 'selector' not in failed:
                r0 = res.get(body) if body in impl else None
                if r0 is not None and not isinstance(r0, str):
                    if isinstance(selx, str):
                        want = selx
                    else:
                        by = dict(zip(r0[0], r0[1]))
                        want = (selx, [by[i] for i in selx])
                    if not strict_result_equal(rv, want):
                        failed.add('selector')
                        finding('oracle', 'selector', '%swith selector %s, selecting afterwards %s' % (vname, show(rv), show(want)), e)
        # oracle 4/5: other storage / other decoder, same results
        for name, m2 in alt_msgs.items():
            r2 = impl_query(m2, e)
            if not strict_result_equal(r, r2):
                finding('oracle', name, 'plain %s, %s %s' % (show(r), name, show(r2)), e)
    for name in alt_msgs:
        cnt('alt:' + name)
    return {'findings': findings, 'queries': qinfo, 'counts': counts, 'n_subsets': n_sub, 'compressed': comp,
            'has_attr': bool(attr_labels), 'order_ok': order_ok}


# ---------------------------------------------------------------------------------------------
def excluded(ids):
    """templates the wiring pass does not understand (open findings of C09 / C07)"""
    return bool(K9.assoc_loud(ids)) or K9.qa_resumed(ids)


def signature(f, ids):
    return {'kind': f['kind'], 'stage': f['stage'], 'features': sorted(P.classify(ids)) if ids else [],
            'empty_selection_on_compressed': bool(f.get('empty_selection_on_compressed'))}


def shrink_query(task, f):
    """drop the selector / slices / leading steps of the failing query while the same stage still fails"""
    q = f['query']
    if not q:
        return f
    np_ = parse_path(q)
    sel = q[:q.index(']') + 1] if q.startswith('@') else ''
    body = q[len(sel):]
    kind = 'ca' if all(c.separator in '/.' for c in np_.components) else ('bare' if re.fullmatch(r'>?[0-9A-Z]+', body) else 'desc')

    def fails(sel2, body2):
        qs = [(kind, sel2, body2)] + ([(kind, '', body2)] if sel2 else [])
        r = evaluate(dict(task, queries=qs, alt=task.get('alt'), compiled=task.get('compiled')))
        for g in r.get('findings', []):
            if g['stage'] == f['stage'] and g['kind'] == f['kind']:
                return g
        return None

    best = f
    tries = 0
    cands = []
    if sel and f['stage'] != 'selector':
        cands.append(('', body))
    parts = re.findall(r'([/.>][0-9A-Z]+)(\[[^\]]*\])?', body)
    for k, (_, s) in enumerate(parts):
        if s:
            cands.append((sel, ''.join(p + (t if j != k else '') for j, (p, t) in enumerate(parts))))
    for s2, b2 in cands:
        if tries >= 6:
            break
        tries += 1
        g = fails(s2, b2)
        if g:
            best = g
            sel, body = s2, b2
    return best


def report(ctx, task, f, ids, name=None):
    sig = signature(f, ids)
    if not f.get('empty_selection_on_compressed'):
        try:
            f = shrink_query(task, f)
        except Exception:  # noqa
            pass
    rep = {'ids': ids, 'message_hex': task['b'].hex() if len(task['b']) < 20000 else None, 'file': name,
           'query': f['query'], 'why': f['why'], 'corpus': bool(task.get('corpus')),
           'alt_hex': task['alt'].hex() if task.get('alt') is not None and len(task['alt']) < 20000 else None,
           'compiled': bool(task.get('compiled'))}
    ctx.violation('%s %s: query %r: %s (ids %s%s)' % (f['kind'], f['stage'], f['query'], f['why'], (ids or [])[:30],
                                                   ', file %s' % name if name else ''), rep, signature=sig)


def absorb(ctx, task, res, ids, tag, name=None):
    if 'harness_error' in res:
        raise core.MachineryError('evaluation failed (%s): %s' % (name or ids, res['harness_error']))
    if 'skip' in res:
        ctx.count('skipped:' + res['skip'])
        return
    if (task.get('part') or (0, 1))[0] == 0:
        ctx.count('messages')
        ctx.count('messages:' + tag)
        ctx.count('compressed' if res['compressed'] else 'uncompressed')
        for k, v in res['counts'].items():
            ctx.count(k, v)
        if res.get('has_attr'):
            ctx.count('messages-with-attributes')
    for q in res['queries']:
        nontrivial = q['nonempty']
        ctx.case({'ids': ids if name is None else name, 'n': res['n_subsets'], 'q': q['q']}, nontrivial=nontrivial,
                 sample=len(ctx.samples) < 6 and nontrivial and ('[' in q['q']))
        ctx.traces += 1
        ctx.count('queries')
        ctx.count('kind:' + q['kind'])
        if q['err']:
            ctx.count('result:' + q['err'])
        elif q['nonempty']:
            ctx.count('result:values')
        else:
            ctx.count('result:empty')
        if q['q'].startswith('@'):
            ctx.count('with-selector')
        body_ = q['q'].split(']', 1)[-1] if q['q'].startswith('@') else q['q']
        if '[' in body_:
            ctx.count('with-slice')
        if q.get('ordinary'):
            ctx.count('bare-id-ordinary')
        if q.get('cell'):
            kind_, lt, n_, cs = q['cell'].split('|')[:4]
            full = q['cell'].endswith('|full')
            ctx.count('slice-site:%s n=%s%s' % (kind_, n_, ' (whole grid)' if full else ''))
            ctx.count('slice-site-list:%s %s' % (kind_, lt))
            if full:
                # the grid relative to n contains the grid relative to every smaller number of matches met at the site
                for c in cs.split(','):
                    GRID_DONE.setdefault((kind_, int(c)), set()).add(q['q'])
    done = set()
    for f in res['findings']:
        k = (f['kind'], f['stage'], bool(f.get('empty_selection_on_compressed')))
        if k in done:
            continue
        done.add(k)
        report(ctx, task, f, ids, name)


def build(drv, treq, ids, forced, n, comp, rng):
    b, vals = K9.build_message(drv, treq, ids, forced, n, comp, rng)
    return b, vals


EXTRA_SHAPES = [
    # replicated marker operators: the labels differ between the repetitions (F16a)
    ([12001, 11001, 10004, 224000, 236000, 101003, 31031, 8023, 101003, 224255], {31031: [0, 0, 0]}, 'marker-rep'),
    ([12001, 11001, 10004, 223000, 101003, 31031, 101002, 223255], {31031: [0, 1, 0]}, 'marker-rep'),
    ([12001, 11001, 10004, 2001, 232000, 101004, 31031, 101003, 232255], {31031: [0, 0, 1, 0]}, 'marker-rep'),
    ([12001, 11001, 225000, 236000, 101002, 31031, 8024, 102002, 225255, 1001], {31031: [0, 0]}, 'marker-rep'),
    # nested delayed replications: the bare id of the factor (F16b)
    ([105000, 31001, 1001, 102000, 31001, 12001, 11001, 31001], {31001: [2, 1, 2, 7]}, 'nested-delayed'),
    ([104000, 31001, 101000, 31001, 12001, 2001], {31001: [2, 1, 3]}, 'nested-delayed'),
    ([1001, 106000, 31002, 2001, 103000, 31001, 12001, 101000, 31001, 11001], {31002: [2], 31001: [1, 2, 0, 1]}, 'nested-delayed'),
    # sequences inside replications, repeated ids at one level
    ([102003, 301011, 12001, 12001, 1001, 12001], {}, 'repeated-ids'),
    ([301011, 301011, 103002, 4001, 4001, 4002], {}, 'repeated-ids'),
    ([1001, 1001, 1001, 1002, 1001], {}, 'repeated-ids'),
    ([104002, 12001, 12001, 12001, 12001, 301011, 301011, 301011], {}, 'repeated-ids'),
    ([204002, 31021, 204003, 31021, 204001, 31021, 12001, 12001, 204000, 204000, 204000], {}, 'repeated-ids'),
]


def run(ctx):
    drv = ctx.driver
    quick = ctx.tier == 'quick'
    ctx.rule = 'the query returns at least one value (not an error, not an empty result)'
    treq = group_treq()
    max_values = QUICK_MAX_SUBSET_VALUES if quick else THOROUGH_MAX_SUBSET_VALUES
    seed0 = '%s:%s' % (PROP, ctx.seed)
    tasks = []  # (task, ids, tag, name)
    # -- shapes
    rng = ctx.rng('shapes')
    for ids, forced, tag in list(K9.SHAPES) + EXTRA_SHAPES:
        if excluded(ids):
            ctx.count('excluded:wiring-open-finding')
            continue
        for comp in (False, True):
            n = rng.randint(2, 3)
            b, vals = build(drv, treq, ids, forced, n, comp, rng)
            if b is None:
                ctx.count('shape-not-built:' + tag)
                continue
            alt = None
            if comp:
                st, b2, _ = C.impl_encode(C.make_message_json(ids, P.py_inputs(vals), False))
                alt = b2 if st == 'ok' else None
            tasks.append((dict(b=b, ids=ids, seed='%s:shape:%d' % (seed0, len(tasks)), budget=30 if quick else 120, alt=alt,
                               compiled=True, max_values=max_values), ids, 'shape:' + tag, None))
    # -- the slice space on sibling lists with 0..6 matches; subsets with equal structure and different bitmaps;
    #    templates over a small pool of ids (harness/c16gen.py)
    rng = ctx.rng('families')
    tb, tdd = tables_io.read_group()
    class33 = sorted(i for i, v in tb.items() if i // 1000 == 33 and tables_io.unit_kind(v[1]) == 'c' and int(v[4]) >= 2)
    rseqs = sorted(G.repeat_sequences(tb, tdd).values())
    fam = []    # (Msg, task options)
    # whole grids (quick tier): `/` on the top level, the blocks of one replication kind and sequence members; `.` on
    # the attribute lists made by one bitmap operator; `>` on the top level and those attribute lists; in one of the
    # two storage forms; the other sites and forms get a sample of the grid.  The choices rotate with the seed; the
    # thorough tier takes every list type in both forms.
    block = ('fixed-block', 'delayed-block')[ctx.seed % 2]
    marker = (222, 223, 224, 225, 232)[ctx.seed % 5]
    whole = {'grid:top': (['top'], True), 'grid:' + block: ([block, 'factor'], False), 'grid:sequence': (['sequence'], False),
             'grid:attributes-%d' % marker: (['attributes'], True)}
    for k, sh in enumerate(G.grid_shapes(rng, tb, tdd)):
        for comp in (False, True):
            n = 2 if quick else rng.randint(2, 3)
            ids, per = G.build_grid_shape(rng, tb, sh, n)
            lts, desc = whole.get(sh[2], ([], False)) if quick else (['top', 'fixed-block', 'delayed-block', 'sequence', 'attributes', 'factor'], True)
            if quick and comp != bool((ctx.seed + k) % 2):
                lts = []
            fam.append((G.Msg(ids, per, n, comp, sh[2]),
                        dict(budget=10, compiled=True, weight=10 ** 6 if lts else 10 ** 5, parts=4 if lts else 1,
                             grid=dict(full_lts=lts, full_desc=desc, per_cell=1, selectors=0.02, zero_sites=2, max_sites=24, sample=12))))
    for n in range(1, 7):
        for comp in ((False, True) if not quick else (bool((n + ctx.seed) % 2),)):
            ids, per, tag = G.bitmap_case(rng, tb, class33, n, rseqs)
            fam.append((G.Msg(ids, per, n, comp, 'subset-grid'),
                        dict(budget=10, compiled=True, weight=3 * 10 ** 5,
                             grid=dict(max_sites=4, sample=6, subset_grid=True, subset_bodies=2 if quick else 3))))
    for k in range(60 if quick else 700):
        n = 2 + k % 5
        ids, per, tag = G.bitmap_case(rng, tb, class33, n, rseqs)
        fam.append((G.Msg(ids, per, n, rng.random() < 0.2, tag),
                    dict(budget=24, compiled=rng.random() < 0.5, sweep=True,
                         grid=dict(full=False, max_sites=10, sample=10, selectors=0.3, zero_sites=1))))
    for k in range(30 if quick else 500):
        ids, pool = G.pool_template(rng, tb, rseqs)
        n = rng.randint(1, 4)
        per = [{i: G.distinct_values(tb, i, rng, 60) for i in pool} for _ in range(n)]
        fam.append((G.Msg(ids, per, n, rng.random() < 0.5, 'pool'),
                    dict(budget=20, compiled=rng.random() < 0.5,
                         grid=dict(full=False, max_sites=12, sample=14, selectors=0.15, zero_sites=1))))
    fam = [(m, o) for (m, o) in fam if not excluded(m.ids)]
    built = set(id(m) for m in G.build_all(drv, treq, [m for m, _ in fam], rng))
    for m, opts in fam:
        tag = m.tag.split(':')[0] if m.tag.startswith('bitmap') else m.tag
        if id(m) not in built:
            ctx.count('not-built:%s:%s' % (tag, m.vals))
            continue
        alt = None
        if m.comp:
            st, b2, _ = C.impl_encode(C.make_message_json(m.ids, P.py_inputs(m.vals), False))
            alt = b2 if st == 'ok' else None
        t = dict(opts, b=m.b, ids=m.ids, seed='%s:fam:%d' % (seed0, len(tasks)), alt=alt, max_values=max_values)
        parts = t.pop('parts', 1)
        for k in range(parts):
            tasks.append((dict(t, part=(k, parts)) if parts > 1 else t, m.ids, tag, None))
    # -- generated
    site_sample = dict(full=False, max_sites=6, sample=8, selectors=0.15, zero_sites=1)
    for t in tasks:
        t[0].setdefault('grid', site_sample)
    rng = ctx.rng('main')
    n_gen = 110 if quick else 2400
    done = 0
    while done < n_gen:
        k = min(300, n_gen - done)
        cases = []
        for level in (0, 1, 2):
            cases += P.gen_cases(rng, (k + 2) // 3, level=level)
        done += len(cases)
        cases = P.gen_values(drv, treq, cases, rng)
        for c in cases:
            if excluded(c.ids):
                ctx.count('excluded:wiring-open-finding')
                continue
            st, b, _ = C.impl_encode(C.make_message_json(c.ids, P.py_inputs(c.valss), c.comp, edition=c.edition))
            if st != 'ok':
                ctx.count('encoder-refused')
                continue
            alt = None
            if c.comp:
                st2, b2, _ = C.impl_encode(C.make_message_json(c.ids, P.py_inputs(c.valss), False, edition=c.edition))
                alt = b2 if st2 == 'ok' else None
            tasks.append((dict(b=b, ids=c.ids, seed='%s:gen:%d' % (seed0, len(tasks)), budget=22 if quick else 32, alt=alt,
                               compiled=rng.random() < 0.5, max_values=max_values, grid=site_sample), c.ids, 'generated', None))
    # -- corpus
    d1 = os.path.join(core.REPO, 'tests', 'data')
    d2 = os.path.join(core.REPO, 'tests', 'benchmark_data')
    files = [os.path.join(d1, f) for f in sorted(os.listdir(d1)) if f.endswith('.bufr') and 'invalid' not in f]
    bench = [os.path.join(d2, f) for f in sorted(os.listdir(d2)) if f.endswith('.bufr')]
    r = ctx.rng('corpus')
    r.shuffle(bench)
    files += sorted(bench[:10 if quick else 150])
    for path in files:
        raw = K9.corpus_item(path)
        try:
            nsub, comp, ids = P.parse_section3(raw)
        except Exception:  # noqa
            ctx.count('skipped:unparsable-file')
            continue
        if excluded(ids):
            ctx.count('excluded:wiring-open-finding')
            continue
        tasks.append((dict(b=raw, ids=ids, seed='%s:file:%s' % (seed0, os.path.basename(path)), budget=40 if quick else 160,
                           alt=None, compiled=True, corpus=True, max_values=max_values, grid=site_sample), ids, 'corpus',
                      os.path.basename(path)))
    # -- histories on one reused DataQuerent / BufrMessageQuerent / NodePathParser (harness/c16hist.py): groups of
    #    messages taken from the tasks above: the two storage forms of one template (built with different values,
    #    replication counts and subset counts) + messages of other templates
    rng = ctx.rng('histories')
    by_ids = {}
    small = []
    for (t, ids, tag, name) in tasks:
        if t.get('part', (0, 1))[0] != 0 or len(t['b']) > 6000:
            continue
        it = dict(b=t['b'], ids=ids, corpus=bool(t.get('corpus')), file=name)
        by_ids.setdefault(tuple(ids), []).append(it)
        small.append(it)
    pairs = [v for v in by_ids.values() if len(v) >= 2]
    rng.shuffle(pairs)
    n_groups = 40 if quick else 400
    hist_tasks = []
    for k in range(n_groups):
        if not small:
            break
        items = list(pairs[k % len(pairs)][:2]) if pairs and k % 4 != 3 else []
        while len(items) < (3 if k % 2 else 4):
            items.append(rng.choice(small))
        hist_tasks.append(dict(hist=True, items=items, seed='%s:hist:%d' % (seed0, k), n_ops=70 if quick else 110,
                               weight=2 * 10 ** 5))
    # -- evaluate
    t_build = time.time() - ctx.t0
    t0 = time.time()
    pool = multiprocessing.Pool(min(15, os.cpu_count() or 2))
    try:
        # big ones first
        order = sorted(range(len(tasks)), key=lambda i: -(tasks[i][0].get('weight') or len(tasks[i][0]['b'])))
        results = pool.map(evaluate, hist_tasks + [tasks[i][0] for i in order], chunksize=1)
    finally:
        pool.terminate()
    hist_results, results = results[:len(hist_tasks)], results[len(hist_tasks):]
    by = dict(zip(order, results))
    GRID_DONE.clear()
    if os.environ.get('VERIF_TIMING'):
        print('timing: build %.1fs, evaluation %.1fs, worker time %.1fs' % (t_build, time.time() - t0, sum(r.get('_time', 0) for r in results)))
        print('  histories    %4d tasks %7.1fs %7d operations' % (len(hist_tasks), sum(r.get('_time', 0) for r in hist_results),
                                                                  sum(r.get('n_ops', 0) for r in hist_results)))
        agg = {}
        for i in by:
            a = agg.setdefault(tasks[i][2].split(':')[0], [0, 0, 0])
            a[0] += 1
            a[1] += by[i].get('_time', 0)
            a[2] += len(by[i].get('queries', []))
        for k in sorted(agg):
            print('  %-12s %4d tasks %7.1fs %7d queries' % (k, agg[k][0], agg[k][1], agg[k][2]))
        for i in sorted(by, key=lambda i: -by[i].get('_time', 0))[:8]:
            print('  task %s part %s: %.1fs, %d queries' % (tasks[i][2], tasks[i][0].get('part'), by[i].get('_time', 0), len(by[i].get('queries', []))))
    for i, (task, ids, tag, name) in enumerate(tasks):
        absorb(ctx, task, by[i], ids, tag, name)
    for task, res in zip(hist_tasks, hist_results):
        H.absorb(ctx, task, res)
    # the systematic slice space: which (step kind, n) were covered by a whole grid
    missing = []
    for kind_ in ('/', '.', '>', '@'):
        for n_ in range(1 if kind_ == '@' else 0, G.MAX_N + 1):
            if len(GRID_DONE.get((kind_, n_), ())) < len(G.grid(n_)):
                missing.append('%s n=%d' % (kind_, n_))
    ctx.count('slice-grid-cells-complete', 4 * (G.MAX_N + 1) - 1 - len(missing))
    if missing:
        ctx.count('slice-grid-cells-incomplete', len(missing))
        ctx.notes.append('slice grid not covered completely at: %s' % ', '.join(missing))
        print('C16 NOTE: slice grid not covered completely at: %s' % ', '.join(missing))
    run_pyslice(ctx, drv)


def run_pyslice(ctx, drv):
    """the model's pySlice against CPython on a grid (exhaustive in the thorough tier)"""
    vals = [None] + list(range(-7, 8))
    grid = [(a, b, c, n) for a in vals for b in vals for c in vals for n in range(0, 6)]
    if ctx.tier == 'quick':
        rng = ctx.rng('pyslice')
        grid = rng.sample(grid, 3000)
    res = drv.batch([{'op': 'pyslice', 'a': a, 'b': b, 'c': c, 'n': n} for (a, b, c, n) in grid])
    bad = None
    for (a, b, c, n), r in zip(grid, res):
        try:
            want = list(range(n))[slice(a, b, c)]
            zero = False
        except ValueError:
            want, zero = [], True
        if r['idx'] != want or r['step_zero'] != zero:
            bad = bad or ((a, b, c, n), r, want)
    ctx.count('pyslice-cases', len(grid))
    ctx.traces += len(grid)
    if bad:
        ctx.violation('correspondence pyslice: slice(%s,%s,%s) on range(%d): model %s, CPython %s' % (bad[0] + (bad[1], bad[2])),
                      {'pyslice': list(bad[0])}, signature={'kind': 'correspondence', 'stage': 'pyslice'})


def replay(ctx, path):
    with open(path) as f:
        body = json.load(f)
    rep = body['replay']
    if 'undischarged' in rep:
        print('replay: proof obligations are re-checked by the audit above')
        return
    if 'history' in rep:
        items = []
        for it in rep['items']:
            if it.get('hex'):
                b = bytes.fromhex(it['hex'])
            else:
                b = None
                for d in ('data', 'benchmark_data'):
                    p = os.path.join(core.REPO, 'tests', d, it.get('file') or '?')
                    if os.path.exists(p):
                        b = K9.corpus_item(p)
                if b is None:
                    raise core.MachineryError('replay: message of the history not available')
            items.append(dict(b=b, ids=it['ids'], corpus=it.get('corpus', False), file=it.get('file')))
        task = dict(hist=True, items=items, seed='replay', n_ops=0, history=rep['history'])
        res = evaluate(task)
        print('replay: %s' % (json.dumps(res.get('reports', res), default=repr)[:1500] or 'no finding'))
        H.absorb(ctx, task, res)
        return
    if 'pyslice' in rep:
        a, b, c, n = rep['pyslice']
        r = ctx.driver.batch([{'op': 'pyslice', 'a': a, 'b': b, 'c': c, 'n': n}])[0]
        print('replay: model %s, CPython %s' % (r, list(range(n))[slice(a, b, c)] if c != 0 else 'ValueError'))
        return
    if rep.get('message_hex'):
        b = bytes.fromhex(rep['message_hex'])
    elif rep.get('file'):
        for d in ('data', 'benchmark_data'):
            p = os.path.join(core.REPO, 'tests', d, rep['file'])
            if os.path.exists(p):
                b = K9.corpus_item(p)
    else:
        raise core.MachineryError('replay without message')
    q = rep['query']
    qs = None
    if q:
        sel = q[:q.index(']') + 1] if q.startswith('@') else ''
        body_ = q[len(sel):]
        np_ = parse_path(q)
        kind = 'ca' if all(c.separator in '/.' for c in np_.components) else ('bare' if re.fullmatch(r'>?[0-9A-Z]+', body_) else 'desc')
        qs = [(kind, sel, body_)] + ([(kind, '', body_)] if sel else [])
    task = dict(b=b, ids=rep['ids'], seed='replay', budget=30, corpus=rep.get('corpus', False), queries=qs,
                alt=bytes.fromhex(rep['alt_hex']) if rep.get('alt_hex') else None, compiled=rep.get('compiled', False),
                max_values=10 ** 9)
    res = evaluate(task)
    print('replay: %s' % (json.dumps(res.get('findings', res), default=repr)[:1500] or 'no finding'))
    if 'findings' in res:
        for f in res['findings']:
            ctx.violation('%s %s: query %r: %s' % (f['kind'], f['stage'], f['query'], f['why']), rep, signature=signature(f, rep['ids']))
