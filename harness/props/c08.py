"""
C08 — template compilation preserves behaviour (decode, encode, save/load).

Theorems: lean/BufrModel/Props/C08.lean (model: lean/BufrModel/Coder/Compiler.lean).

ORACLE (on the implementation alone): `Decoder(compiled_template_cache_max=k)` vs `Decoder()`,
`Encoder(compiled_template_cache_max=k)` vs `Encoder()`, and a coder whose compiled template went through
`loads_compiled_template(json.dumps(ct.to_dict()))` vs the plain coder: same values, labels, attribute links,
bytes, or the same error family.  Sources of programs:
  (a) every generated template of the shared pipeline (levels 0-2), incl. operators opened and closed inside
      (nested) replication bodies,
  (b) marker operators with 203/204/207/208 in force (DESIGN F5 template and generated variants),
  (c) Table D sequences of the bundled tables of versions >= 19 with forced delayed-replication factors
      (all assignments in 0..3 when there are at most three un-nested ones, random otherwise),
  (d) corpus files (decode; re-encode from the flat JSON),
  (e) cache sizes {0, 1, 2, 50} with random message orders over >= 5 templates and >= 2 table versions.
CORRESPONDENCE (model vs implementation): the compiled statement list (`to_dict()` vs the model's `dump`),
the model's `exec` of the compiled program (and of the dumped + re-loaded program) vs the implementation's
compiled decode / encode, the cache key list after every request vs the model's `getOrCompile`.

Templates that are not ScopeClosed (an operator opened inside a replication body and closed outside or vice
versa) are outside the property: a few are generated, counted, and not compared.
"""
import itertools
import json
import math
import os

from harness import core, tables_io
from harness import coder_io as C
from harness import coderprops as P

PROP = 'C08'

META = dict(
    claimed=True,
    text='Kernel-checked theorems about the Lean model of templatecompiler.py: the compiled-template cache is transparent, '
         'sound and bounded for every request history and every limit (0 included); the decoder and encoder primitives '
         '(uncompressed and compressed) satisfy the frame law (they neither read nor write operator registers); the two local '
         'simulation steps between exec-of-compiled and the interpreted walk hold for every register state: one element '
         '(201/202/203/204/207/208 in force, QA links) and one bitmap-definition step (PARTIAL: the composition over whole '
         'ScopeClosed templates and load(dump c) = c are stated, not proved). The whole-template property is covered by the '
         'oracle compiled-vs-uncompiled and reloaded-vs-original on the implementation (generated templates of every operator, '
         'Table D rows of versions >= 19 with forced replication factors, corpus, cache limits 0/1/2/50 with random message '
         'orders, decode and encode) and by model-vs-implementation correspondence of statement lists (to_dict vs dump), exec '
         'results (also after dump/load) and cache contents.',
    technique='Lean 4 theorems (frame law of the primitives, local simulation steps, induction over request histories) + metamorphic oracle on the implementation + checked model/implementation correspondence',
    note='The model mirrors templatecompiler.py after the fixes F5, F6, F7, F7b, F7c; a zero-length bitmap defined by a delayed replication is the open finding F7d. '
         'ScopeClosed is decided by the model (compileList with the scope check); templates outside it are counted, not compared.',
)

K_COMPILED = 7     # cache limit used where the limit is not the subject


# ---------------------------------------------------------------------------------------------
# implementation observations
class _Reloading(object):
    """a compiled-template manager whose every template went through to_dict -> JSON -> load"""

    def __init__(self):
        from pybufrkit.templatecompiler import CompiledTemplateManager
        self.inner = CompiledTemplateManager(0)

    def get_or_compile(self, template, table_group):
        from pybufrkit.templatecompiler import loads_compiled_template
        ct = self.inner.get_or_compile(template, table_group)
        return loads_compiled_template(json.dumps(ct.to_dict()))


def _decoder(mode):
    from pybufrkit.decoder import Decoder
    if mode == 'plain':
        return Decoder()
    if mode == 'compiled':
        return Decoder(compiled_template_cache_max=K_COMPILED)
    d = Decoder(compiled_template_cache_max=1)
    d.compiled_template_manager = _Reloading()
    return d


def _encoder(mode):
    from pybufrkit.encoder import Encoder
    if mode == 'plain':
        return Encoder()
    if mode == 'compiled':
        return Encoder(compiled_template_cache_max=K_COMPILED)
    e = Encoder(compiled_template_cache_max=1)
    e.compiled_template_manager = _Reloading()
    return e


def subsets_of(msg, with_values=True):
    td = msg.template_data.value
    out = []
    for i in range(msg.n_subsets.value):
        s = {'d': [str(d) for d in td.decoded_descriptors_all_subsets[i]],
             'l': sorted([a, o] for a, o in td.bitmap_links_all_subsets[i].items())}
        if with_values:
            s['v'] = list(td.decoded_values_all_subsets[i])
        out.append(s)
    return out


def dec_with(dec, b):
    try:
        msg = dec.process(b, wire_template_data=False)
    except Exception as e:  # noqa
        return core.err_tag(e), None, None
    return 'ok', subsets_of(msg), len(msg.serialized_bytes)


def enc_with(enc, js):
    try:
        msg = enc.process(json.loads(json.dumps(js)), wire_template_data=False)
    except Exception as e:  # noqa
        return core.err_tag(e), None, None
    return 'ok', msg.serialized_bytes, subsets_of(msg, with_values=False)


def same_impl(a, b):
    """two implementation observations (encode or decode): None when identical, else what differs"""
    if a[0] != b[0]:
        return 'status %s vs %s' % (a[0], b[0])
    if a[0] != 'ok':
        return None
    if isinstance(a[1], (bytes, bytearray)):
        if a[1] != b[1]:
            return 'bytes differ (%d vs %d octets)' % (len(a[1]), len(b[1]))
        if a[2] != b[2]:
            return 'labels / links differ: %s vs %s' % (a[2], b[2])
        return None
    if len(a[1]) != len(b[1]):
        return 'number of subsets differs'
    for i, (x, y) in enumerate(zip(a[1], b[1])):
        if x['d'] != y['d']:
            return 'labels differ in subset %d: %s vs %s' % (i, x['d'], y['d'])
        if x['l'] != y['l']:
            return 'links differ in subset %d: %s vs %s' % (i, x['l'], y['l'])
        if len(x['v']) != len(y['v']) or any(not _same_val(p, q) for p, q in zip(x['v'], y['v'])):
            k = next((k for k, (p, q) in enumerate(zip(x['v'], y['v'])) if not _same_val(p, q)), -1)
            return 'values differ in subset %d at %d (%s): %r vs %r' % (
                i, k, x['d'][k] if 0 <= k < len(x['d']) else '?', x['v'][k] if k >= 0 else len(x['v']), y['v'][k] if k >= 0 else len(y['v']))
    if a[2] != b[2]:
        return 'message length differs'
    return None


def _same_val(p, q):
    return type(p) is type(q) and p == q


def canon_prog(d):
    """`to_dict()` of the implementation -> the rendering the model produces"""
    def conv(x):
        if isinstance(x, float):
            s = int(round(math.log10(x)))
            for t in (s, s - 1, s + 1):
                if 1.0 * 10 ** t == x:
                    return {'pow10': t}
            return {'float': repr(x)}
        if isinstance(x, dict):
            return {k: conv(v) for k, v in x.items()}
        if isinstance(x, (list, tuple)):
            return [conv(v) for v in x]
        return x
    d = json.loads(json.dumps(d))
    return {'type': d['type'], 'statements': conv(d['statements'])}


def impl_compile(ids, tg=None):
    from pybufrkit.tables import TableGroupCacheManager
    from pybufrkit.templatecompiler import TemplateCompiler
    try:
        tg = tg or TableGroupCacheManager.get_table_group()
        t = tg.template_from_ids(*ids)
        return 'ok', canon_prog(TemplateCompiler().process(t, tg).to_dict())
    except Exception as e:  # noqa
        return core.err_tag(e), None


def prog_diff(a, b, path='prog'):
    if type(a) is not type(b):
        return '%s: %r vs %r' % (path, a, b)
    if isinstance(a, dict):
        if set(a) != set(b):
            return '%s: keys %s vs %s' % (path, sorted(a), sorted(b))
        for k in sorted(a):
            d = prog_diff(a[k], b[k], path + '.' + k)
            if d:
                return d
        return None
    if isinstance(a, list):
        if len(a) != len(b):
            return '%s: %d vs %d entries' % (path, len(a), len(b))
        for i, (x, y) in enumerate(zip(a, b)):
            d = prog_diff(x, y, '%s[%d]' % (path, i))
            if d:
                return d
        return None
    return None if a == b else '%s: %r vs %r' % (path, a, b)


# ---------------------------------------------------------------------------------------------
# one case through everything
def features(ids):
    return sorted(P.classify(ids))


def has_zero_factor(c):
    """a delayed replication factor of zero somewhere in the data (structure of the open finding F7d)"""
    ids = c.ids
    if not any(i // 100000 == 1 and i % 1000 == 0 for i in ids):
        return False
    return any(v == 0 for vs in (c.valss or []) for v in vs)


def evaluate(ctx, drv, treq, cases, version=None, source='gen'):
    """cases have values; runs implementation (plain, compiled, reloaded) and model; reports"""
    over = {'master_table_version': version} if version else None
    reqs = [treq]
    rows = []
    for c in cases:
        js = C.make_message_json(c.ids, P.py_inputs(c.valss), c.comp, edition=c.edition, overrides=over)
        e = {m: enc_with(_encoder(m), js) for m in ('plain', 'compiled', 'reload')}
        b = e['plain'][1] if e['plain'][0] == 'ok' else (e['compiled'][1] if e['compiled'][0] == 'ok' else None)
        d = {m: dec_with(_decoder(m), b) for m in ('plain', 'compiled', 'reload')} if b is not None else None
        rows.append((c, e, b, d))
        reqs.append({'op': 'compile', 'ids': c.ids})
        reqs.append({'op': 'enc-data-compiled', 'ids': c.ids, 'compressed': c.comp, 'vals': c.valss})
        reqs.append({'op': 'enc-data-compiled', 'ids': c.ids, 'compressed': c.comp, 'vals': c.valss, 'reload': True})
        bits = C.data_bits(b) if b is not None else ''
        reqs.append({'op': 'dec-data-compiled', 'ids': c.ids, 'compressed': c.comp, 'n': c.n, 'bits': bits})
        reqs.append({'op': 'dec-data-compiled', 'ids': c.ids, 'compressed': c.comp, 'n': c.n, 'bits': bits, 'reload': True})
    res = drv.batch(reqs)[1:]
    tg = None
    if version:
        from pybufrkit.tables import TableGroupCacheManager
        tg = TableGroupCacheManager.get_table_group(master_table_version=version)
    for k, (c, e, b, d) in enumerate(rows):
        mc, me, mer, md, mdr = res[5 * k: 5 * k + 5]
        closed, loose = mc.get('closed'), mc.get('loose')
        ctx.case({'ids': c.ids, 'n': c.n, 'compressed': c.comp, 'source': source, 'values': c.valss},
                 nontrivial=P.nontrivial(c), sample=len(ctx.samples) < 4)
        ctx.count(source)
        ctx.count('compressed' if c.comp else 'uncompressed')
        ctx.count('scope-closed' if closed else ('scope-loose' if loose else 'scope-open'))
        for f in features(c.ids):
            ctx.count(f)

        def rep(stage, why, known=None):
            sig = {'stage': stage, 'features': features(c.ids)}
            if known:
                sig['kind'] = known
            r = c.replay()
            r.update({'why': why, 'stage': stage, 'version': version, 'source': source})
            ctx.violation('%s: %s (ids %s)' % (stage, why, c.ids[:40]), r, signature=sig)

        # --- correspondence: statement list
        ic = impl_compile(c.ids, tg)
        if ic[0] != 'ok' or 'err' in mc:
            ctx.count('compile-error')
            if ic[0] != C.model_err(mc):
                rep('compile-status', 'implementation %s, model %s' % (ic[0], C.model_err(mc)))
            continue
        pd = prog_diff(ic[1], mc['prog'])
        if pd:
            rep('compile-rendering', pd)
        ctx.traces += 1
        # --- correspondence: model exec vs implementation compiled / reloaded
        for mode, mres in (('compiled', me), ('reload', mer)):
            why = P.compare_encode(c, e[mode], mres)
            if why:
                rep('model-exec-encode-' + mode, why)
        if d is not None:
            for mode, mres in (('compiled', md), ('reload', mdr)):
                if not loose:
                    # bytes written by the plain encoder: the compiled walk may stop early or run past the end
                    # (the implementation then fails on the rest of the message, which the model does not see)
                    if (d[mode][0] == 'ok') == ('err' not in mres) and d[mode][0] != 'ok':
                        continue
                    mres = dict(mres, rest=0)
                why = P.compare_decode(d[mode], mres)
                if why:
                    rep('model-exec-decode-' + mode, why)
        # --- oracle
        if not loose:
            # outside the property: only counted
            bad = [m for m in ('compiled', 'reload') if e[m][0] == 'err:other' and e['plain'][0] != 'err:other']
            ctx.count('scope-open-crash' if bad else 'scope-open-evaluated')
            continue
        known = 'zero-count-open-scope' if (not closed and has_zero_factor(c)) else None
        for mode in ('compiled', 'reload'):
            why = same_impl(e['plain'], e[mode])
            if why:
                rep('oracle-encode-' + mode, '%s encoder differs from the plain one: %s' % (mode, why), known)
        if d is not None:
            for mode in ('compiled', 'reload'):
                why = same_impl(d['plain'], d[mode])
                if why:
                    rep('oracle-decode-' + mode, '%s decoder differs from the plain one: %s' % (mode, why), known)


# ---------------------------------------------------------------------------------------------
# generators specific to C08
def scoped_cases(rng, count, idx0=0):
    """operators opened and closed inside (nested) replication bodies; marker operators with
    203/204/207/208 in force; a few templates that are NOT scope closed"""
    tg = C.TemplateGen(rng, level=2)
    cases = []
    for i in range(count):
        tg.forced = {}
        r = rng.random()
        if r < 0.35:
            # nested replication with constructs in the bodies
            inner = tg.operator_construct(2) + tg.element_plain()
            inner_rep = ([100000 + len(inner) * 1000 + rng.randint(1, 2)] if rng.random() < 0.5 else
                         [100000 + len(inner) * 1000, 31001]) + inner
            body = tg.operator_construct(1) + inner_rep + tg.operator_construct(1)
            if len(body) > 63:
                body = inner_rep
            parts = [[100000 + len(body) * 1000 + rng.randint(1, 3)] + body if rng.random() < 0.5 else
                     [100000 + len(body) * 1000, 31001] + body]
            if rng.random() < 0.5:
                parts.append(tg.element_plain())
        elif r < 0.8:
            parts = marker_parts(tg, rng)
        elif r < 0.83:
            # a bitmap of zero bits defined by a delayed replication (open finding F7d)
            el = tg.element_plain()
            parts = [el, [222000, 101000, 31002, 31031, 101000, 31002] + [rng.choice(tg.class33)]]
            tg.forced = {31002: [0, 0]}
        elif r < 0.9:
            # open scope: opened in the body, closed outside / opened outside, closed inside
            el = tg.some_numeric(1)
            if rng.random() < 0.5:
                parts = [[102002, 201130] + el, el, [201000]]
            else:
                parts = [[201130], el, [102002] + el + [201000], el]
        else:
            parts = [[208002, 1015, 1001, 223000, 101002, 31031, 223255, 223255, 208000]]
            tg.forced = {31031: [0, 0]}
        forced = [[k, v] for k, v in sorted(tg.forced.items())]
        n = rng.randint(1, 3)
        cases.append(P.Case(parts, forced, n, rng.random() < 0.4, 4, idx0 + i))
    return cases


def marker_parts(tg, rng):
    """[operators in force] back-referenced elements, bitmap, marker operators [operators cancelled]"""
    n_back = rng.randint(1, 4)
    opens, closes = [], []
    pick = rng.sample(['201', '202', '207', '208', '204', '203'], rng.randint(1, 3))
    back = []
    for _ in range(n_back):
        back.append(rng.choice([tg.rng.choice(tg.numeric), tg.rng.choice(tg.numeric), tg.rng.choice(tg.string), tg.rng.choice(tg.codeflag)]))
    numeric_back = [i for i in back if i in set(tg.numeric)]
    pre = []
    if '201' in pick:
        opens.append(201000 + rng.choice([129, 130, 132])); closes.append(201000)
    if '202' in pick:
        opens.append(202000 + rng.choice([129, 130])); closes.append(202000)
    if '207' in pick:
        opens.append(207000 + rng.randint(1, 2)); closes.append(207000)
    if '208' in pick:
        opens.append(208000 + rng.randint(1, 6)); closes.append(208000)
    if '204' in pick:
        opens += [204000 + rng.randint(1, 6), 31021]; closes.append(204000)
    if '203' in pick and numeric_back:
        el = sorted(set(numeric_back[:2]))
        pre = [203000 + rng.randint(4, 12)] + el + [203255]
        if rng.random() < 0.5:
            closes.append(203000)
        else:
            pre.append(203000) if rng.random() < 0.5 else None
    nbits = rng.randint(1, n_back)
    bits = [rng.randint(0, 1) for _ in range(nbits)]
    zeros = bits.count(0)
    kind = rng.choice([223, 224, 225, 232])
    ids = [kind * 1000]
    if rng.random() < 0.3:
        ids.append(236000)
    ids += [101000 + nbits, 31031]
    tg.forced.setdefault(31031, []).extend(bits)
    if kind == 224:
        ids.append(8023)
    elif kind == 225:
        ids.append(8024)
    if zeros:
        ids += [101000 + zeros, kind * 1000 + 255]
    rng.shuffle(closes)
    if rng.random() < 0.3 and closes:
        # cancel some operators before the markers
        k = rng.randint(1, len(closes))
        return [opens + pre, back, closes[:k], ids, closes[k:]]
    return [opens + pre, back, ids, closes]


def tabled_rows(rng, tier):
    """(version, sequence id) rows of the bundled Table D of versions >= 19"""
    rows = []
    for v in tables_io.bundled_versions():
        if v < 19:
            continue
        b, d = tables_io.read_group(('0', '0_0', str(v)))
        for sid in sorted(d):
            rows.append((v, sid))
    total = len(rows)
    if tier == 'quick':
        rng.shuffle(rows)
        rows = sorted(rows[:300])
    return rows, total


def expand_info(d, b, sid):
    """static shape of a sequence: number of delayed replications, whether any is nested in a
    replication, factor ids in order, whether every element is defined"""
    info = {'delayed': [], 'nested': False, 'ok': True, 'size': 0}

    def walk(ids, depth_rep, budget):
        it = iter(ids)
        for m in it:
            m = int(m)
            info['size'] += 1
            if info['size'] > 4000:
                info['ok'] = False
                return
            f = m // 100000
            if f == 3:
                if m not in d or budget <= 0:
                    info['ok'] = False
                    return
                walk(d[m][1], depth_rep, budget - 1)
            elif f == 1:
                x = (m // 1000) % 100
                delayed = m % 1000 == 0
                if delayed:
                    fac = next(it, None)
                    if fac is None:
                        info['ok'] = False
                        return
                    info['delayed'].append(int(fac))
                    if depth_rep:
                        info['nested'] = True
                members = list(itertools.islice(it, x))
                walk(members, depth_rep + 1, budget)
            elif f == 0 and m not in b:
                info['ok'] = False
    walk([sid], 0, 12)
    return info


FACTOR_MAX = {31000: 1, 31001: 3, 31002: 3, 31011: 3, 31012: 3}


# ---------------------------------------------------------------------------------------------
def run(ctx):
    drv = ctx.driver
    ctx.rule = ('generated / Table D case: the template has a replication, sequence or operator and at least one non-missing '
                'value; corpus file: decodes; cache history: at least one eviction or hit')
    treq33 = tables_io.group_request()
    quick = ctx.tier == 'quick'

    # (a) shared pipeline, levels 0-2
    rng = ctx.rng('gen')
    for level, count in ((0, 40 if quick else 600), (1, 90 if quick else 1500), (2, 130 if quick else 2500)):
        cases = P.gen_cases(rng, count, level=level, max_subsets=3)
        cases = P.gen_values(drv, treq33, cases, rng)
        evaluate(ctx, drv, treq33, cases, source='gen-level%d' % level)

    # (b) scoped operators, marker operators with operators in force, open scopes
    rng = ctx.rng('scoped')
    cases = scoped_cases(rng, 160 if quick else 3000)
    cases = P.gen_values(drv, treq33, cases, rng)
    evaluate(ctx, drv, treq33, cases, source='scoped')

    # (c) Table D rows
    rng = ctx.rng('tabled')
    rows, total = tabled_rows(rng, ctx.tier)
    ctx.count('tableD-rows-total', total)
    by_version = {}
    for v, sid in rows:
        by_version.setdefault(v, []).append(sid)
    for v in sorted(by_version):
        b, d = tables_io.read_group(('0', '0_0', str(v)))
        treq = tables_io.tables_request(b, d)
        cases = []
        for sid in by_version[v]:
            info = expand_info(d, b, sid)
            if not info['ok']:
                ctx.count('tableD-skipped')
                continue
            facs = info['delayed']
            assigns = []
            if facs and len(facs) <= 3 and not info['nested']:
                ranges = [range(FACTOR_MAX.get(f, 3) + 1) for f in facs]
                assigns = list(itertools.product(*ranges))
                if quick and len(assigns) > 16:
                    rng.shuffle(assigns)
                    assigns = assigns[:16]
                ctx.count('tableD-exhaustive-factors')
            elif facs:
                assigns = [None] * (3 if quick else 12)
                ctx.count('tableD-random-factors')
            else:
                assigns = [None]
            for a in assigns:
                forced = {}
                if a is not None:
                    for f, val in zip(facs, a):
                        forced.setdefault(f, []).append(val)
                c = P.Case([[sid]], [[k, x] for k, x in sorted(forced.items())], rng.choice([1, 1, 2]), rng.random() < 0.4, 4, len(cases))
                cases.append(c)
        cases = P.gen_values(drv, treq, cases, rng)
        ctx.count('tableD-cases', len(cases))
        for k in range(0, len(cases), 200):
            evaluate(ctx, drv, treq, cases[k:k + 200], version=v, source='tableD')

    # (d) corpus
    corpus(ctx, drv)

    # (e) cache sizes and message orders
    cache_histories(ctx, drv)


# ---------------------------------------------------------------------------------------------
def corpus(ctx, drv):
    from pybufrkit.renderer import FlatJsonRenderer
    files = P.corpus_files(ctx.tier, ctx.rng('corpus'), quick_n=40)
    for path in files:
        name = path.split('/')[-1]
        with open(path, 'rb') as f:
            raw = f.read()
        b = raw[raw.find(b'BUFR'):]
        from pybufrkit.decoder import Decoder
        try:
            msg = Decoder().process(b, wire_template_data=False)
        except Exception as e:  # noqa
            ctx.count('corpus-skipped:' + core.err_tag(e))
            continue
        b = msg.serialized_bytes
        d = {m: dec_with(_decoder(m), b) for m in ('plain', 'compiled', 'reload')}
        key = msg.table_group_key
        tb, td = tables_io.read_group(key.wmo_tables_sn, key.local_tables_sn, key.tables_root_dir)
        treq = tables_io.tables_request(tb, td)
        nsub, comp, ids = P.parse_section3(b)
        bits = C.data_bits(b)
        res = drv.batch([treq, {'op': 'compile', 'ids': ids},
                         {'op': 'dec-data-compiled', 'ids': ids, 'compressed': comp, 'n': nsub, 'bits': bits},
                         {'op': 'dec-data-compiled', 'ids': ids, 'compressed': comp, 'n': nsub, 'bits': bits, 'reload': True}])[1:]
        ctx.case({'file': name, 'ids': len(ids), 'subsets': nsub}, nontrivial=True, sample=False)
        ctx.count('corpus-files')
        ctx.count('corpus-scope-closed' if res[0].get('closed') else ('corpus-scope-loose' if res[0].get('loose') else 'corpus-scope-open'))
        for f in features(ids):
            ctx.count('corpus:' + f)

        def rep(stage, why):
            ctx.violation('corpus file %s: %s: %s' % (name, stage, why), {'file': path, 'why': why, 'stage': stage},
                          signature={'stage': stage, 'file': name})
        from pybufrkit.tables import TableGroupCacheManager
        ic = impl_compile(ids, TableGroupCacheManager.get_table_group_by_key(key))
        if ic[0] == 'ok' and 'prog' in res[0]:
            pd = prog_diff(ic[1], res[0]['prog'])
            if pd:
                rep('compile-rendering', pd)
        elif ic[0] != C.model_err(res[0]):
            rep('compile-status', '%s vs %s' % (ic[0], C.model_err(res[0])))
        for mode, mres in (('compiled', res[1]), ('reload', res[2])):
            mres = dict(mres, rest=0)      # some files carry a data section longer than their data
            why = P.compare_decode(d[mode], mres)
            if why:
                rep('model-exec-decode-' + mode, why)
        ctx.traces += 1
        if not res[0].get('loose'):
            continue
        for mode in ('compiled', 'reload'):
            why = same_impl(d['plain'], d[mode])
            if why:
                rep('oracle-decode-' + mode, why)
        # re-encode from the flat JSON with and without compilation
        try:
            js = json.loads(FlatJsonRenderer().render(msg))
        except Exception:  # noqa
            continue
        e = {m: enc_with(_encoder(m), js) for m in ('plain', 'compiled', 'reload')}
        ctx.count('corpus-reencoded' if e['plain'][0] == 'ok' else 'corpus-reencode-refused')
        for mode in ('compiled', 'reload'):
            why = same_impl(e['plain'], e[mode])
            if why:
                rep('oracle-encode-' + mode, why)


# ---------------------------------------------------------------------------------------------
def version_pair():
    """two bundled versions and an element id whose width differs between them"""
    vs = [v for v in tables_io.bundled_versions() if v >= 13]
    b33, _ = tables_io.read_group(('0', '0_0', '33'))
    for v in vs:
        if v == 33:
            continue
        b, _ = tables_io.read_group(('0', '0_0', str(v)))
        for i in sorted(b):
            if i in b33 and tables_io.unit_kind(b[i][1]) == 'n' and tables_io.unit_kind(b33[i][1]) == 'n' \
                    and int(b[i][4]) != int(b33[i][4]) and i // 1000 != 31 and 1 <= int(b[i][4]) <= 32 and 1 <= int(b33[i][4]) <= 32:
                return v, i
    return None, None


def cache_histories(ctx, drv):
    from pybufrkit.decoder import Decoder
    from pybufrkit.encoder import Encoder
    rng = ctx.rng('cache')
    v2, differing = version_pair()
    if v2 is None:
        raise core.MachineryError('no two bundled versions with a differing element width')
    base = [[1001, 1002], [differing, 12001], [101000, 31001, differing], [102002, 1001, differing], [4001, 4002, 4003],
            [201130, differing, 201000], [differing]]
    rounds = 3 if ctx.tier == 'quick' else 25
    for rnd in range(rounds):
        # messages: (template index, version)
        pool = []
        for ti, ids in enumerate(base):
            for v in (33, v2):
                pool.append((ti, v, ids))
        rng.shuffle(pool)
        pool = pool[:rng.randint(6, len(pool))]
        if len(set(p[0] for p in pool)) < 5 or len(set(p[1] for p in pool)) < 2:
            pool = [(ti, v, ids) for ti, ids in enumerate(base) for v in (33, v2)]
        msgs = {}
        for ti, v, ids in pool:
            b, d = tables_io.read_group(('0', '0_0', str(v)))
            treq = tables_io.tables_request(b, d)
            c = P.Case([ids], [], rng.randint(1, 2), False, 4, 0)
            got = P.gen_values(drv, treq, [c], rng)
            if not got:
                continue
            js = C.make_message_json(ids, P.py_inputs(c.valss), False, overrides={'master_table_version': v})
            e = enc_with(Encoder(), js)
            if e[0] != 'ok':
                continue
            msgs[(ti, v)] = (js, e, dec_with(Decoder(), e[1]))
        keys = sorted(msgs)
        if not keys:
            continue
        order = [rng.choice(keys) for _ in range(rng.randint(10, 40))]
        for cmax in (0, 1, 2, 50):
            dec = Decoder(compiled_template_cache_max=cmax)
            enc = Encoder(compiled_template_cache_max=cmax)
            keymap = {}
            steps_d, steps_e = [], []
            bad = None
            for pos, k in enumerate(order):
                js, e_ref, d_ref = msgs[k]
                d = dec_with(dec, e_ref[1])
                e = enc_with(enc, js)
                why = same_impl(d_ref, d)
                if why and not bad:
                    bad = ('oracle-cache-decode', pos, why)
                why = same_impl(e_ref, e)
                if why and not bad:
                    bad = ('oracle-cache-encode', pos, why)
                for mgr, steps in ((dec.compiled_template_manager, steps_d), (enc.compiled_template_manager, steps_e)):
                    ks = list(mgr.cache.keys())
                    steps.append(ks)
            # map implementation keys to request keys: the key inserted at a step is the requested one
            nat = {k: i + 1 for i, k in enumerate(keys)}
            model = drv.batch([{'op': 'compiled-cache', 'keys': [nat[k] for k in order], 'max': cmax}])[0]['steps']
            for name, steps in (('decoder', steps_d), ('encoder', steps_e)):
                seen = {}
                for pos, (k, ks, m) in enumerate(zip(order, steps, model)):
                    for ik in ks:
                        if ik not in seen:
                            seen[ik] = nat[k]      # first appearance: inserted by this request
                    got = [seen[ik] for ik in ks]
                    if got != m['keys'] and not bad:
                        bad = ('cache-keys-' + name, pos, 'implementation cache %s, model %s (limit %d)' % (got, m['keys'], cmax))
                    if len(ks) > max(cmax, 0) and not bad:
                        bad = ('cache-bound-' + name, pos, '%d entries with limit %d' % (len(ks), cmax))
            hits = sum(1 for m in model if m['hit'])
            ctx.case({'cache_max': cmax, 'order': [list(k) for k in order]}, nontrivial=len(order) > len(set(order)),
                     sample=False)
            ctx.traces += 1
            ctx.count('cache-history-max%d' % cmax)
            ctx.count('cache-hits', hits)
            if bad:
                ctx.violation('%s at request %d: %s' % bad,
                              {'cache_max': cmax, 'order': [list(k) for k in order], 'templates': base, 'versions': [33, v2],
                               'stage': bad[0], 'why': bad[2]},
                              signature={'stage': bad[0], 'cache_max': cmax})


# ---------------------------------------------------------------------------------------------
def replay(ctx, path):
    with open(path) as f:
        body = json.load(f)
    rep = body['replay']
    drv = ctx.driver
    if 'undischarged' in rep:
        print('replay: proof obligations are re-checked by every run (audit step)')
        return
    if 'file' in rep:
        before = ctx.violations
        ctx.tier = 'thorough'
        files = [rep['file']]
        orig = P.corpus_files
        P.corpus_files = lambda tier, rng, quick_n=40: files
        try:
            corpus(ctx, drv)
        finally:
            P.corpus_files = orig
        print('replay corpus file:', 'fails' if ctx.violations > before else 'passes')
        return
    if 'order' in rep:
        print('replay: cache histories are regenerated from the seed; run ./check C08 with VERIF_SEED=%s' % body.get('seed'))
        cache_histories(ctx, drv)
        return
    c = P.Case([rep['ids']], rep.get('forced', []), rep['n_subsets'], rep['compressed'], rep.get('edition', 4))
    c.valss = rep['values']
    v = rep.get('version')
    if v:
        b, d = tables_io.read_group(('0', '0_0', str(v)))
        treq = tables_io.tables_request(b, d)
    else:
        treq = tables_io.group_request()
    before = ctx.violations
    evaluate(ctx, drv, treq, [c], version=v, source=rep.get('source', 'replay'))
    print('replay:', 'fails' if ctx.violations > before or ctx.known_hits else 'passes')
