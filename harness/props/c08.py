"""
C08 — template compilation preserves behaviour (decode, encode, save/load).

Theorems: lean/BufrModel/Props/C08.lean (model: lean/BufrModel/Coder/Compiler.lean).

ORACLE (on the implementation alone): `Decoder(compiled_template_cache_max=k)` vs `Decoder()`,
`Encoder(compiled_template_cache_max=k)` vs `Encoder()`, and a coder whose compiled template went through
`loads_compiled_template(json.dumps(ct.to_dict()))` vs the plain coder: same values, labels, attribute links,
bytes, or the same error family.  Sources of programs:
  (a) every generated template of the shared pipeline (levels 0-2), incl. operators opened and closed inside
      (nested) replication bodies,
  (b) marker operators with 203/204/207/208 in force (DESIGN F5 template and generated variants),
  (c) Table D sequences of the bundled tables of versions >= 19 with forced delayed-replication factors
      (all assignments in 0..3 when there are at most three un-nested ones, random otherwise),
  (d) corpus files (decode; re-encode from the flat JSON),
  (e) cache sizes {0, 1, 2, 50}: request histories over FAMILIES of near-identical templates (same top-level member
      ids but another replication body / factor / nested body / operator inside the span, fixed vs delayed replication
      of one body, same ids under two table versions, prefixes, permutations, same set of ids with other
      multiplicities, a sequence vs its expansion, operators that differ in the operand), two data variants per
      template (other values and counts, compressed or not), orders that stay inside a family most of the time (a
      cache of one entry mixes up neighbours only); every compiled result is compared with the uncompiled one of the
      same message, decode and encode; a failing history is shrunk to two requests.
The cases are evaluated in chunks on up to 16 processes (one model driver each), merged in a fixed order.
CORRESPONDENCE (model vs implementation): the compiled statement list (`to_dict()` vs the model's `dump`),
the model's `exec` of the compiled program (and of the dumped + re-loaded program) vs the implementation's
compiled decode / encode, the cache key list after every request vs the model's `getOrCompile`.

Templates that are not ScopeClosed (an operator opened inside a replication body and closed outside or vice
versa) are outside the property: a few are generated, counted, and not compared.
"""
import functools
import itertools
import json
import math
import multiprocessing
import os
import random
import sys
import time

from harness import core, tables_io
from harness import coder_io as C
from harness import coderprops as P

PROP = 'C08'

META = dict(
    claimed=True,
    text='Kernel-checked theorems about the Lean model of templatecompiler.py, for ALL inputs: (1) for every ScopeClosed '
         'template (elements, sequences, nested fixed/delayed replication, operators 201-208, 221, the bitmap-definition machine, '
         '222-225/232 with marker operators, 235-237) and every primitive set satisfying the frame law, executing the compiled '
         'program equals the interpreted walk (same bits, labels, values, links or the same error): C08_exec_compile_eq_walk, '
         'proved by mutual induction over the template tree with the compile-time/run-time register relation; operator-free '
         'templates need no scope hypothesis (stage A); (2) hence decodeDataC = decodeData and encodeDataC = encodeData, '
         'uncompressed and compressed; (3) load(dump c) = c for every well-formed program, every compiled program is well formed, '
         'and decode/encode through dump/load equal the uncompiled ones; (4) the compiled-template cache is transparent, sound and '
         'bounded for every request history and every limit (0 included); (5) the decoder and encoder primitives satisfy the frame '
         'law. The link model-implementation is the checked correspondence: oracle compiled-vs-uncompiled and '
         'reloaded-vs-original on the implementation (generated templates of every operator, '
         'Table D rows of versions >= 19 with forced replication factors, corpus, cache limits 0/1/2/50 with request '
         'histories over families of near-identical templates (same top-level ids / flattened ids / prefix / set of ids, other '
         'replication body, factor, table version, order), decode and encode) and model-vs-implementation correspondence of statement lists (to_dict vs dump), exec '
         'results (also after dump/load) and cache contents.',
    technique='Lean 4 theorems (frame law of the primitives, simulation exec-of-compiled vs walk by mutual structural induction over templates, dump/load round trip by induction over statements, induction over request histories) + metamorphic oracle on the implementation + checked model/implementation correspondence',
    note='The model mirrors templatecompiler.py after the fixes F5, F6, F7, F7b, F7c; a zero-length bitmap defined by a delayed replication is the open finding F7d. '
         'ScopeClosed is decided by the model (compileList with the scope check); templates outside it are counted, not compared.',
)

K_COMPILED = 7     # cache limit used where the limit is not the subject


# ---------------------------------------------------------------------------------------------
# implementation observations
class _Reloading(object):
    """a compiled-template manager whose every template went through to_dict -> JSON -> load"""

    def __init__(self):
        from pybufrkit.templatecompiler import CompiledTemplateManager
        self.inner = CompiledTemplateManager(0)

    def get_or_compile(self, template, table_group):
        from pybufrkit.templatecompiler import loads_compiled_template
        ct = self.inner.get_or_compile(template, table_group)
        return loads_compiled_template(json.dumps(ct.to_dict()))


def _decoder(mode):
    from pybufrkit.decoder import Decoder
    if mode == 'plain':
        return Decoder()
    if mode == 'compiled':
        return Decoder(compiled_template_cache_max=K_COMPILED)
    d = Decoder(compiled_template_cache_max=1)
    d.compiled_template_manager = _Reloading()
    return d


def _encoder(mode):
    from pybufrkit.encoder import Encoder
    if mode == 'plain':
        return Encoder()
    if mode == 'compiled':
        return Encoder(compiled_template_cache_max=K_COMPILED)
    e = Encoder(compiled_template_cache_max=1)
    e.compiled_template_manager = _Reloading()
    return e


def subsets_of(msg, with_values=True):
    td = msg.template_data.value
    out = []
    for i in range(msg.n_subsets.value):
        s = {'d': [str(d) for d in td.decoded_descriptors_all_subsets[i]],
             'l': sorted([a, o] for a, o in td.bitmap_links_all_subsets[i].items())}
        if with_values:
            s['v'] = list(td.decoded_values_all_subsets[i])
        out.append(s)
    return out


def dec_with(dec, b):
    try:
        msg = dec.process(b, wire_template_data=False)
    except Exception as e:  # noqa
        return core.err_tag(e), None, None
    return 'ok', subsets_of(msg), len(msg.serialized_bytes)


def enc_with(enc, js):
    try:
        msg = enc.process(json.loads(json.dumps(js)), wire_template_data=False)
    except Exception as e:  # noqa
        return core.err_tag(e), None, None
    return 'ok', msg.serialized_bytes, subsets_of(msg, with_values=False)


def same_impl(a, b):
    """two implementation observations (encode or decode): None when identical, else what differs"""
    if a[0] != b[0]:
        return 'status %s vs %s' % (a[0], b[0])
    if a[0] != 'ok':
        return None
    if isinstance(a[1], (bytes, bytearray)):
        if a[1] != b[1]:
            return 'bytes differ (%d vs %d octets)' % (len(a[1]), len(b[1]))
        if a[2] != b[2]:
            return 'labels / links differ: %s vs %s' % (a[2], b[2])
        return None
    if len(a[1]) != len(b[1]):
        return 'number of subsets differs'
    for i, (x, y) in enumerate(zip(a[1], b[1])):
        if x['d'] != y['d']:
            return 'labels differ in subset %d: %s vs %s' % (i, x['d'], y['d'])
        if x['l'] != y['l']:
            return 'links differ in subset %d: %s vs %s' % (i, x['l'], y['l'])
        if len(x['v']) != len(y['v']) or any(not _same_val(p, q) for p, q in zip(x['v'], y['v'])):
            k = next((k for k, (p, q) in enumerate(zip(x['v'], y['v'])) if not _same_val(p, q)), -1)
            return 'values differ in subset %d at %d (%s): %r vs %r' % (
                i, k, x['d'][k] if 0 <= k < len(x['d']) else '?', x['v'][k] if k >= 0 else len(x['v']), y['v'][k] if k >= 0 else len(y['v']))
    if a[2] != b[2]:
        return 'message length differs'
    return None


def _same_val(p, q):
    return type(p) is type(q) and p == q


def canon_prog(d):
    """`to_dict()` of the implementation -> the rendering the model produces"""
    def conv(x):
        if isinstance(x, float):
            s = int(round(math.log10(x)))
            for t in (s, s - 1, s + 1):
                if 1.0 * 10 ** t == x:
                    return {'pow10': t}
            return {'float': repr(x)}
        if isinstance(x, dict):
            return {k: conv(v) for k, v in x.items()}
        if isinstance(x, (list, tuple)):
            return [conv(v) for v in x]
        return x
    d = json.loads(json.dumps(d))
    return {'type': d['type'], 'statements': conv(d['statements'])}


def impl_compile(ids, tg=None):
    from pybufrkit.tables import TableGroupCacheManager
    from pybufrkit.templatecompiler import TemplateCompiler
    try:
        tg = tg or TableGroupCacheManager.get_table_group()
        t = tg.template_from_ids(*ids)
        return 'ok', canon_prog(TemplateCompiler().process(t, tg).to_dict())
    except Exception as e:  # noqa
        return core.err_tag(e), None


def prog_diff(a, b, path='prog'):
    if type(a) is not type(b):
        return '%s: %r vs %r' % (path, a, b)
    if isinstance(a, dict):
        if set(a) != set(b):
            return '%s: keys %s vs %s' % (path, sorted(a), sorted(b))
        for k in sorted(a):
            d = prog_diff(a[k], b[k], path + '.' + k)
            if d:
                return d
        return None
    if isinstance(a, list):
        if len(a) != len(b):
            return '%s: %d vs %d entries' % (path, len(a), len(b))
        for i, (x, y) in enumerate(zip(a, b)):
            d = prog_diff(x, y, '%s[%d]' % (path, i))
            if d:
                return d
        return None
    return None if a == b else '%s: %r vs %r' % (path, a, b)


# ---------------------------------------------------------------------------------------------
# one case through everything
def features(ids):
    return sorted(P.classify(ids))


# operators after which a bitmap may be defined by `101000 0310yy 031031`
BITMAP_OPENERS = (222000, 223000, 224000, 225000, 232000, 236000)


def expand_ids(ids, tabled, limit=20000):
    """the template with every Table D sequence replaced by its members (recursively)"""
    out = []

    def walk(xs, depth):
        for m in xs:
            m = int(m)
            if len(out) > limit:
                return
            if m // 100000 == 3 and m in tabled and depth < 16:
                walk(tabled[m][1], depth + 1)
            else:
                out.append(m)
    walk(ids, 0)
    return out


def zero_bitmap(ids, tabled, subsets):
    """Structure of the open finding F7d, whatever the source of the template: the EXPANDED template defines a bitmap
    by a delayed replication of 031031 directly after 22X000 / 232000 / 236000, and in the data (labels and values of
    the plain coder, one dict {'d', 'v'} per subset) the factor that directly follows such an operator is 0."""
    flat = expand_ids(ids, tabled)
    factors = set()
    for k in range(len(flat) - 3):
        if flat[k] in BITMAP_OPENERS and flat[k + 1] == 101000 and flat[k + 2] // 1000 == 31 and flat[k + 3] == 31031:
            factors.add('%06d' % flat[k + 2])
    if not factors:
        return False
    openers = set('%06d' % o for o in BITMAP_OPENERS)
    for s in subsets or []:
        ds, vs = s['d'], s['v']
        for k in range(1, min(len(ds), len(vs))):
            if ds[k] in factors and ds[k - 1] in openers and vs[k] == 0 and vs[k] is not False:
                return True
    return False


def plain_subsets(c, e, d):
    """labels and values per subset as the plain coder saw them (decode if there is one, else the encoder's labels with
    the values that were encoded)"""
    if d is not None and d['plain'][0] == 'ok':
        return d['plain'][1]
    if e['plain'][0] == 'ok' and c.valss is not None:
        return [{'d': s['d'], 'v': vs} for s, vs in zip(e['plain'][2], P.py_inputs(c.valss))]
    return []


@functools.lru_cache(maxsize=4)
def group(version):
    """(tables request for the driver, Table B, Table D) of a bundled master version"""
    b, d = tables_io.read_group(('0', '0_0', str(version or C.DEFAULT_VERSION)))
    return tables_io.tables_request(b, d), b, d


class Rec(object):
    """What an evaluation reports (the reporting part of core.Context): recorded in a worker process and merged into
    the Context by the parent, in the order of the jobs."""

    def __init__(self):
        self.events = []
        self.traces = 0
        self.samples = []

    def case(self, obj, nontrivial=True, sample=False):
        keep = bool(sample) and len(self.samples) < 4
        if keep:
            self.samples.append(obj)
        self.events.append(('case', core.chash(obj) if nontrivial else None, obj if keep else None))

    def count(self, key, n=1):
        self.events.append(('count', key, n))

    def violation(self, what, replay, signature=None, **kw):
        self.events.append(('violation', what, replay, signature))

    def merge(self, ctx):
        counts = {}
        for ev in self.events:
            if ev[0] == 'case':
                ctx.evaluations += 1
                if ev[1] is not None:
                    ctx.nontrivial.add(ev[1])
                if ev[2] is not None and len(ctx.samples) < 4:
                    ctx.samples.append(ev[2])
            elif ev[0] == 'count':
                ctx.count(ev[1], ev[2])
            else:
                ctx.violation(ev[1], ev[2], signature=ev[3])
        ctx.traces += self.traces


def evaluate(ctx, drv, cases, version=None, source='gen'):
    """cases have values; runs implementation (plain, compiled, reloaded) and model; reports (ctx: Context or Rec)"""
    over = {'master_table_version': version} if version else None
    treq, _, tabled = group(version)
    reqs = [treq]
    rows = []
    for c in cases:
        js = C.make_message_json(c.ids, P.py_inputs(c.valss), c.comp, edition=c.edition, overrides=over)
        e = {m: enc_with(_encoder(m), js) for m in ('plain', 'compiled', 'reload')}
        b = e['plain'][1] if e['plain'][0] == 'ok' else (e['compiled'][1] if e['compiled'][0] == 'ok' else None)
        d = {m: dec_with(_decoder(m), b) for m in ('plain', 'compiled', 'reload')} if b is not None else None
        rows.append((c, e, b, d))
        reqs.append({'op': 'compile', 'ids': c.ids})
        reqs.append({'op': 'enc-data-compiled', 'ids': c.ids, 'compressed': c.comp, 'vals': c.valss})
        reqs.append({'op': 'enc-data-compiled', 'ids': c.ids, 'compressed': c.comp, 'vals': c.valss, 'reload': True})
        bits = C.data_bits(b) if b is not None else ''
        reqs.append({'op': 'dec-data-compiled', 'ids': c.ids, 'compressed': c.comp, 'n': c.n, 'bits': bits})
        reqs.append({'op': 'dec-data-compiled', 'ids': c.ids, 'compressed': c.comp, 'n': c.n, 'bits': bits, 'reload': True})
    res = drv.batch(reqs)[1:]
    tg = None
    if version:
        from pybufrkit.tables import TableGroupCacheManager
        tg = TableGroupCacheManager.get_table_group(master_table_version=version)
    for k, (c, e, b, d) in enumerate(rows):
        mc, me, mer, md, mdr = res[5 * k: 5 * k + 5]
        closed, loose = mc.get('closed'), mc.get('loose')
        ctx.case({'ids': c.ids, 'n': c.n, 'compressed': c.comp, 'source': source, 'values': c.valss},
                 nontrivial=P.nontrivial(c), sample=len(ctx.samples) < 4)
        ctx.count(source)
        ctx.count('compressed' if c.comp else 'uncompressed')
        ctx.count('scope-closed' if closed else ('scope-loose' if loose else 'scope-open'))
        for f in features(c.ids):
            ctx.count(f)

        def rep(stage, why, known=None):
            sig = {'stage': stage, 'features': features(c.ids)}
            if known:
                sig['kind'] = known
            r = c.replay()
            r.update({'why': why, 'stage': stage, 'version': version, 'source': source})
            ctx.violation('%s: %s (ids %s)' % (stage, why, c.ids[:40]), r, signature=sig)

        # --- correspondence: statement list
        ic = impl_compile(c.ids, tg)
        if ic[0] != 'ok' or 'err' in mc:
            ctx.count('compile-error')
            if ic[0] != C.model_err(mc):
                rep('compile-status', 'implementation %s, model %s' % (ic[0], C.model_err(mc)))
            continue
        pd = prog_diff(ic[1], mc['prog'])
        if pd:
            rep('compile-rendering', pd)
        ctx.traces += 1
        # --- correspondence: model exec vs implementation compiled / reloaded
        for mode, mres in (('compiled', me), ('reload', mer)):
            why = P.compare_encode(c, e[mode], mres)
            if why:
                rep('model-exec-encode-' + mode, why)
        if d is not None:
            for mode, mres in (('compiled', md), ('reload', mdr)):
                if not loose:
                    # bytes written by the plain encoder: the compiled walk may stop early or run past the end
                    # (the implementation then fails on the rest of the message, which the model does not see)
                    if (d[mode][0] == 'ok') == ('err' not in mres) and d[mode][0] != 'ok':
                        continue
                    mres = dict(mres, rest=0)
                why = P.compare_decode(d[mode], mres)
                if why:
                    rep('model-exec-decode-' + mode, why)
        # --- oracle
        if not loose:
            # outside the property: only counted
            bad = [m for m in ('compiled', 'reload') if e[m][0] == 'err:other' and e['plain'][0] != 'err:other']
            ctx.count('scope-open-crash' if bad else 'scope-open-evaluated')
            continue
        known = 'zero-count-open-scope' if (not closed and zero_bitmap(c.ids, tabled, plain_subsets(c, e, d))) else None
        for mode in ('compiled', 'reload'):
            why = same_impl(e['plain'], e[mode])
            if why:
                rep('oracle-encode-' + mode, '%s encoder differs from the plain one: %s' % (mode, why), known)
        if d is not None:
            for mode in ('compiled', 'reload'):
                why = same_impl(d['plain'], d[mode])
                if why:
                    rep('oracle-decode-' + mode, '%s decoder differs from the plain one: %s' % (mode, why), known)


# ---------------------------------------------------------------------------------------------
# generators specific to C08
def scoped_cases(rng, count, idx0=0):
    """operators opened and closed inside (nested) replication bodies; marker operators with
    203/204/207/208 in force; a few templates that are NOT scope closed"""
    tg = C.TemplateGen(rng, level=2)
    cases = []
    for i in range(count):
        tg.forced = {}
        r = rng.random()
        if r < 0.35:
            # nested replication with constructs in the bodies
            inner = tg.operator_construct(2) + tg.element_plain()
            inner_rep = ([100000 + len(inner) * 1000 + rng.randint(1, 2)] if rng.random() < 0.5 else
                         [100000 + len(inner) * 1000, 31001]) + inner
            body = tg.operator_construct(1) + inner_rep + tg.operator_construct(1)
            if len(body) > 63:
                body = inner_rep
            parts = [[100000 + len(body) * 1000 + rng.randint(1, 3)] + body if rng.random() < 0.5 else
                     [100000 + len(body) * 1000, 31001] + body]
            if rng.random() < 0.5:
                parts.append(tg.element_plain())
        elif r < 0.8:
            parts = marker_parts(tg, rng)
        elif r < 0.83:
            # a bitmap of zero bits defined by a delayed replication (open finding F7d)
            el = tg.element_plain()
            parts = [el, [222000, 101000, 31002, 31031, 101000, 31002] + [rng.choice(tg.class33)]]
            tg.forced = {31002: [0, 0]}
        elif r < 0.9:
            # open scope: opened in the body, closed outside / opened outside, closed inside
            el = tg.some_numeric(1)
            if rng.random() < 0.5:
                parts = [[102002, 201130] + el, el, [201000]]
            else:
                parts = [[201130], el, [102002] + el + [201000], el]
        else:
            parts = [[208002, 1015, 1001, 223000, 101002, 31031, 223255, 223255, 208000]]
            tg.forced = {31031: [0, 0]}
        forced = [[k, v] for k, v in sorted(tg.forced.items())]
        n = rng.randint(1, 3)
        cases.append(P.Case(parts, forced, n, rng.random() < 0.4, 4, idx0 + i))
    return cases



def context_cases(rng, count, idx0=0):
    """(f) one sub-structure used plain and inside operator spans within ONE template (Families.context_forms)"""
    v2, differing = version_pair()
    fam = Families(rng, v2 or 33, differing)
    cases = []
    if not fam.seqs:
        return cases
    for i in range(count):
        k, forms = fam.context_forms()
        f = rng.choice(forms[2:] if rng.random() < 0.8 else forms)
        pre, suf = fam.wrap()
        cases.append(P.Case([pre, f, suf], [], rng.randint(1, 3), rng.random() < 0.4, 4, idx0 + i))
    return cases

def marker_parts(tg, rng):
    """[operators in force] back-referenced elements, bitmap, marker operators [operators cancelled]"""
    n_back = rng.randint(1, 4)
    opens, closes = [], []
    pick = rng.sample(['201', '202', '207', '208', '204', '203'], rng.randint(1, 3))
    back = []
    for _ in range(n_back):
        back.append(rng.choice([tg.rng.choice(tg.numeric), tg.rng.choice(tg.numeric), tg.rng.choice(tg.string), tg.rng.choice(tg.codeflag)]))
    numeric_back = [i for i in back if i in set(tg.numeric)]
    pre = []
    if '201' in pick:
        opens.append(201000 + rng.choice([129, 130, 132])); closes.append(201000)
    if '202' in pick:
        opens.append(202000 + rng.choice([129, 130])); closes.append(202000)
    if '207' in pick:
        opens.append(207000 + rng.randint(1, 2)); closes.append(207000)
    if '208' in pick:
        opens.append(208000 + rng.randint(1, 6)); closes.append(208000)
    if '204' in pick:
        opens += [204000 + rng.randint(1, 6), 31021]; closes.append(204000)
    if '203' in pick and numeric_back:
        el = sorted(set(numeric_back[:2]))
        pre = [203000 + rng.randint(4, 12)] + el + [203255]
        if rng.random() < 0.5:
            closes.append(203000)
        else:
            pre.append(203000) if rng.random() < 0.5 else None
    nbits = rng.randint(1, n_back)
    bits = [rng.randint(0, 1) for _ in range(nbits)]
    zeros = bits.count(0)
    kind = rng.choice([223, 224, 225, 232])
    ids = [kind * 1000]
    if rng.random() < 0.3:
        ids.append(236000)
    ids += [101000 + nbits, 31031]
    tg.forced.setdefault(31031, []).extend(bits)
    if kind == 224:
        ids.append(8023)
    elif kind == 225:
        ids.append(8024)
    if zeros:
        ids += [101000 + zeros, kind * 1000 + 255]
    rng.shuffle(closes)
    if rng.random() < 0.3 and closes:
        # cancel some operators before the markers
        k = rng.randint(1, len(closes))
        return [opens + pre, back, closes[:k], ids, closes[k:]]
    return [opens + pre, back, ids, closes]


def tabled_rows(rng, tier):
    """(version, sequence id) rows of the bundled Table D of versions >= 19"""
    rows = []
    for v in tables_io.bundled_versions():
        if v < 19:
            continue
        b, d = tables_io.read_group(('0', '0_0', str(v)))
        for sid in sorted(d):
            rows.append((v, sid))
    total = len(rows)
    if tier == 'quick':
        rng.shuffle(rows)
        rows = sorted(rows[:300])
    return rows, total


def expand_info(d, b, sid):
    """static shape of a sequence: number of delayed replications, whether any is nested in a
    replication, factor ids in order, whether every element is defined"""
    info = {'delayed': [], 'nested': False, 'ok': True, 'size': 0}

    def walk(ids, depth_rep, budget):
        it = iter(ids)
        for m in it:
            m = int(m)
            info['size'] += 1
            if info['size'] > 4000:
                info['ok'] = False
                return
            f = m // 100000
            if f == 3:
                if m not in d or budget <= 0:
                    info['ok'] = False
                    return
                walk(d[m][1], depth_rep, budget - 1)
            elif f == 1:
                x = (m // 1000) % 100
                delayed = m % 1000 == 0
                if delayed:
                    fac = next(it, None)
                    if fac is None:
                        info['ok'] = False
                        return
                    info['delayed'].append(int(fac))
                    if depth_rep:
                        info['nested'] = True
                members = list(itertools.islice(it, x))
                walk(members, depth_rep + 1, budget)
            elif f == 0 and m not in b:
                info['ok'] = False
    walk([sid], 0, 12)
    return info


FACTOR_MAX = {31000: 1, 31001: 3, 31002: 3, 31011: 3, 31012: 3}


# ---------------------------------------------------------------------------------------------
# jobs: chunks of cases / corpus files / cache rounds, evaluated in worker processes (one Driver each)
def _job(job):
    kind = job[0]
    drv = core.Driver()
    rec = Rec()
    t0 = time.time()
    if kind == 'cases':
        _, version, source, cases, seed = job
        treq = group(version)[0]
        cases = P.gen_values(drv, treq, cases, random.Random(seed))
        if source == 'tableD':
            rec.count('tableD-cases', len(cases))
        evaluate(rec, drv, cases, version=version, source=source)
    elif kind == 'corpus':
        corpus_file(rec, drv, job[1])
    elif kind == 'cache':
        cache_round(rec, drv, job[1], job[2])
    else:
        raise core.MachineryError('unknown job %r' % (kind,))
    return rec, kind if kind != 'cases' else job[2], time.time() - t0


def run_jobs(ctx, jobs):
    """evaluates the jobs on up to 16 processes and merges what they report in the order of the jobs"""
    if not jobs:
        return
    nproc = min(16, os.cpu_count() or 1, len(jobs))
    if nproc <= 1 or os.environ.get('VERIF_C08_SERIAL'):
        results = [_job(j) for j in jobs]
    else:
        with multiprocessing.Pool(nproc) as pool:
            results = pool.map(_job, jobs, chunksize=1)
    spent = {}
    for rec, what, dt in results:
        rec.merge(ctx)
        spent[what] = spent.get(what, 0.0) + dt
    if os.environ.get('VERIF_C08_TIMING'):
        sys.stderr.write('C08 cpu-seconds per part: %s\n' % ', '.join('%s=%.1f' % kv for kv in sorted(spent.items())))


def chunked(version, source, cases, rng, size):
    return [('cases', version, source, cases[k:k + size], rng.randrange(1 << 30)) for k in range(0, len(cases), size)]


def run(ctx):
    ctx.rule = ('generated / Table D case: the template has a replication, sequence or operator and at least one non-missing '
                'value; corpus file: decodes; cache history: at least one eviction or hit')
    quick = ctx.tier == 'quick'
    size = 24 if quick else 60
    jobs = []

    # (e) cache sizes and message orders over families of near-identical templates (longest jobs first)
    rng = ctx.rng('cache')
    for rnd in range(6 if quick else 48):
        jobs.append(('cache', rng.randrange(1 << 30), ctx.tier))

    # (d) corpus
    for path in P.corpus_files(ctx.tier, ctx.rng('corpus'), quick_n=40):
        jobs.append(('corpus', path))

    # (a) shared pipeline, levels 0-2
    rng = ctx.rng('gen')
    for level, count in ((0, 40 if quick else 600), (1, 90 if quick else 1500), (2, 130 if quick else 2500)):
        cases = P.gen_cases(rng, count, level=level, max_subsets=3)
        jobs += chunked(None, 'gen-level%d' % level, cases, rng, size)

    # (b) scoped operators, marker operators with operators in force, open scopes
    rng = ctx.rng('scoped')
    jobs += chunked(None, 'scoped', scoped_cases(rng, 160 if quick else 3000), rng, size)

    # (f) one sub-structure (Table D sequence, replication of it, its members) plain and inside operator spans
    rng = ctx.rng('context')
    jobs += chunked(None, 'context', context_cases(rng, 120 if quick else 2500), rng, size)

    # (c) Table D rows
    rng = ctx.rng('tabled')
    rows, total = tabled_rows(rng, ctx.tier)
    ctx.count('tableD-rows-total', total)
    by_version = {}
    for v, sid in rows:
        by_version.setdefault(v, []).append(sid)
    for v in sorted(by_version):
        b, d = tables_io.read_group(('0', '0_0', str(v)))
        cases = []
        for sid in by_version[v]:
            info = expand_info(d, b, sid)
            if not info['ok']:
                ctx.count('tableD-skipped')
                continue
            facs = info['delayed']
            assigns = []
            if facs and len(facs) <= 3 and not info['nested']:
                ranges = [range(FACTOR_MAX.get(f, 3) + 1) for f in facs]
                assigns = list(itertools.product(*ranges))
                if quick and len(assigns) > 16:
                    rng.shuffle(assigns)
                    assigns = assigns[:16]
                ctx.count('tableD-exhaustive-factors')
            elif facs:
                assigns = [None] * (3 if quick else 12)
                ctx.count('tableD-random-factors')
            else:
                assigns = [None]
            for a in assigns:
                forced = {}
                if a is not None:
                    for f, val in zip(facs, a):
                        forced.setdefault(f, []).append(val)
                c = P.Case([[sid]], [[k, x] for k, x in sorted(forced.items())], rng.choice([1, 1, 2]), rng.random() < 0.4, 4, len(cases))
                cases.append(c)
        jobs += chunked(v, 'tableD', cases, rng, size)

    run_jobs(ctx, jobs)


# ---------------------------------------------------------------------------------------------
def corpus_file(ctx, drv, path):
    from pybufrkit.renderer import FlatJsonRenderer
    from pybufrkit.decoder import Decoder
    from pybufrkit.tables import TableGroupCacheManager
    name = path.split('/')[-1]
    with open(path, 'rb') as f:
        raw = f.read()
    b = raw[raw.find(b'BUFR'):]
    try:
        msg = Decoder().process(b, wire_template_data=False)
    except Exception as e:  # noqa
        ctx.count('corpus-skipped:' + core.err_tag(e))
        return
    b = msg.serialized_bytes
    d = {m: dec_with(_decoder(m), b) for m in ('plain', 'compiled', 'reload')}
    key = msg.table_group_key
    tb, td = tables_io.read_group(key.wmo_tables_sn, key.local_tables_sn, key.tables_root_dir)
    treq = tables_io.tables_request(tb, td)
    nsub, comp, ids = P.parse_section3(b)
    bits = C.data_bits(b)
    res = drv.batch([treq, {'op': 'compile', 'ids': ids},
                     {'op': 'dec-data-compiled', 'ids': ids, 'compressed': comp, 'n': nsub, 'bits': bits},
                     {'op': 'dec-data-compiled', 'ids': ids, 'compressed': comp, 'n': nsub, 'bits': bits, 'reload': True}])[1:]
    ctx.case({'file': name, 'ids': len(ids), 'subsets': nsub}, nontrivial=True, sample=False)
    ctx.count('corpus-files')
    ctx.count('corpus-scope-closed' if res[0].get('closed') else ('corpus-scope-loose' if res[0].get('loose') else 'corpus-scope-open'))
    for f in features(ids):
        ctx.count('corpus:' + f)
    known = None
    if not res[0].get('closed') and d['plain'][0] == 'ok' and zero_bitmap(ids, td, d['plain'][1]):
        known = 'zero-count-open-scope'

    def rep(stage, why, known=None):
        sig = {'stage': stage, 'file': name}
        if known:
            sig['kind'] = known
        ctx.violation('corpus file %s: %s: %s' % (name, stage, why), {'file': path, 'why': why, 'stage': stage}, signature=sig)
    ic = impl_compile(ids, TableGroupCacheManager.get_table_group_by_key(key))
    if ic[0] == 'ok' and 'prog' in res[0]:
        pd = prog_diff(ic[1], res[0]['prog'])
        if pd:
            rep('compile-rendering', pd)
    elif ic[0] != C.model_err(res[0]):
        rep('compile-status', '%s vs %s' % (ic[0], C.model_err(res[0])))
    for mode, mres in (('compiled', res[1]), ('reload', res[2])):
        mres = dict(mres, rest=0)      # some files carry a data section longer than their data
        why = P.compare_decode(d[mode], mres)
        if why:
            rep('model-exec-decode-' + mode, why)
    ctx.traces += 1
    if not res[0].get('loose'):
        return
    for mode in ('compiled', 'reload'):
        why = same_impl(d['plain'], d[mode])
        if why:
            rep('oracle-decode-' + mode, why, known)
    # re-encode from the flat JSON with and without compilation
    try:
        js = json.loads(FlatJsonRenderer().render(msg))
    except Exception:  # noqa
        return
    e = {m: enc_with(_encoder(m), js) for m in ('plain', 'compiled', 'reload')}
    ctx.count('corpus-reencoded' if e['plain'][0] == 'ok' else 'corpus-reencode-refused')
    for mode in ('compiled', 'reload'):
        why = same_impl(e['plain'], e[mode])
        if why:
            rep('oracle-encode-' + mode, why, known)


# ---------------------------------------------------------------------------------------------
# (e) the compiled-template cache: histories over FAMILIES of near-identical templates
def version_pair():
    """two bundled versions and an element id whose width differs between them"""
    vs = [v for v in tables_io.bundled_versions() if v >= 13]
    b33, _ = tables_io.read_group(('0', '0_0', '33'))
    for v in vs:
        if v == 33:
            continue
        b, _ = tables_io.read_group(('0', '0_0', str(v)))
        for i in sorted(b):
            if i in b33 and tables_io.unit_kind(b[i][1]) == 'n' and tables_io.unit_kind(b33[i][1]) == 'n' \
                    and int(b[i][4]) != int(b33[i][4]) and i // 1000 != 31 and 1 <= int(b[i][4]) <= 32 and 1 <= int(b33[i][4]) <= 32:
                return v, i
    return None, None


def rep_of(body, count=None, factor=None):
    """replication of `body` (a list of ids): delayed with `factor` if there is one, else fixed with `count`"""
    x = len(body)
    if not factor:
        return [100000 + 1000 * x + count] + list(body)
    return [100000 + 1000 * x, factor] + list(body)


class Families(object):
    """Families of near-identical templates.  The members of one family agree in what a cheap identification of a
    template could look at (top-level member ids, the flattened ids but not the tables, a prefix, the set or the sorted
    list of ids, the length, the ids outside replication factors, the expansion of sequences) and differ in what it
    could overlook.  Every member is a (ids, versions) pair; elements exist in both table versions."""

    KINDS = ('rep-body', 'rep-factor', 'rep-nested', 'fixed-vs-delayed', 'version', 'prefix', 'order', 'multiset',
             'seq-vs-expansion', 'operand', 'rep-operator', 'context')

    def __init__(self, rng, v2, differing):
        self.rng, self.v2, self.differing = rng, v2, differing
        g1 = C.TemplateGen(rng)
        b2, d2 = tables_io.read_group(('0', '0_0', str(v2)))

        def both(pool):
            return [i for i in pool if i in b2 and tables_io.unit_kind(b2[i][1]) == tables_io.unit_kind(g1.b[i][1])
                    and 1 <= int(b2[i][4]) <= 256]
        self.numeric, self.string, self.codeflag = both(g1.numeric), both(g1.string), both(g1.codeflag)
        # elements wide enough for 201YYY / 202YYY / 203YYY to act on
        self.wide = [i for i in self.numeric if 6 <= int(g1.b[i][4]) <= 20 and 6 <= int(b2[i][4]) <= 20] or self.numeric
        self.seqs = [s for s in g1.small_seq if s in d2 and [int(x) for x in d2[s][1]] == [int(x) for x in g1.d[s][1]]
                     and 2 <= len(g1.d[s][1]) <= 8
                     and all(int(m) // 100000 == 0 and int(m) in b2 and int(m) in g1.b and int(m) // 1000 != 31 for m in g1.d[s][1])]
        self.d = g1.d

    # -- pieces
    def els(self, n, distinct=True):
        """n element ids (mostly numeric; of different kinds and widths so that a mix-up shows in the bits)"""
        out = []
        while len(out) < n:
            r = self.rng.random()
            i = self.rng.choice(self.numeric if r < 0.7 else (self.codeflag if r < 0.85 else self.string))
            if distinct and i in out:
                continue
            out.append(i)
        return out

    def wrap(self, n=None):
        """what surrounds the part that varies: (prefix, suffix) of 0-2 elements each"""
        r = self.rng
        return self.els(r.randint(0, 2)), self.els(r.randint(0, 1))

    def both_versions(self, idss):
        return [(ids, (33,)) for ids in idss]

    # -- the families
    def rep_body(self):
        """same top-level ids, the bodies of a top-level fixed replication differ in one member (or in all)"""
        r = self.rng
        pre, suf = self.wrap()
        x = r.randint(1, 4)
        body = self.els(x)
        count = r.randint(1, 3)
        out = [pre + rep_of(body, count) + suf]
        for _ in range(r.randint(1, 2)):
            b2 = list(body)
            for k in r.sample(range(x), r.randint(1, x)):
                b2[k] = self.els(1)[0]
            if b2 != body:
                out.append(pre + rep_of(b2, count) + suf)
        if r.random() < 0.5:
            # ... or under a delayed replication
            fac = r.choice([31001, 31002])
            out = [pre + rep_of(ids[len(pre) + 1: len(pre) + 1 + x], factor=fac) + suf for ids in out]
        return self.both_versions(out)

    def rep_factor(self):
        """same top-level ids and the same body, the replication factor descriptor differs"""
        r = self.rng
        pre, suf = self.wrap()
        body = self.els(r.randint(1, 3))
        facs = r.sample([31000, 31001, 31002], r.randint(2, 3))
        return self.both_versions([pre + rep_of(body, factor=f) + suf for f in facs])

    def pick(self, must, extra, lo=0, hi=2):
        """the members that make the family (`must`: they differ in nothing but the family's dimension) + some of `extra`"""
        out = [list(m) for m in must]
        for f in self.rng.sample(extra, min(len(extra), self.rng.randint(lo, hi))):
            if list(f) not in out:
                out.append(list(f))
        return out

    def rep_nested(self):
        """the difference sits two or three replications deep (innermost element, inner factor, inner count)"""
        r = self.rng
        pre, suf = self.wrap()
        a, b, c = self.els(3)

        def inner_of(el, count=2, factor=None, tail=c):
            return rep_of([el], count, factor) + [tail]
        base = inner_of(a) if r.random() < 0.6 else inner_of(a, factor=31001)
        deep = inner_of(b) if base == inner_of(a) else inner_of(b, factor=31001)
        extra = [inner_of(a, 3), inner_of(a, factor=31001), inner_of(a, factor=31002), inner_of(a, tail=b), inner_of(b, factor=31002)]
        inners = self.pick([base, deep], extra, 0, 3)
        if r.random() < 0.3:
            # one more level: (outer (middle (inner ...)))
            mid_delayed = r.random() < 0.5
            inners = [rep_of(i, 2, 31001 if mid_delayed else None) for i in inners]
        cnt = r.randint(1, 2)
        delayed = r.random() < 0.5
        return self.both_versions([pre + rep_of(i, cnt, 31001 if delayed else None) + suf for i in inners])

    def fixed_vs_delayed(self):
        """the same body under a fixed replication (counts 1-3) and under delayed replications, and written out"""
        r = self.rng
        pre, suf = self.wrap()
        body = self.els(r.randint(1, 3))
        fixed = [rep_of(body, 1), rep_of(body, 2), rep_of(body, 3)]
        delayed = [rep_of(body, factor=31001), rep_of(body, factor=31000), rep_of(body, factor=31002)]
        must = [r.choice(fixed), r.choice(delayed)]
        return self.both_versions([pre + f + suf for f in self.pick(must, fixed + delayed + [list(body), list(body) * 2], 0, 3)])

    def version(self):
        """the same ids under two table versions that give one of the elements a different width"""
        r = self.rng
        x = self.differing
        pre, suf = self.wrap()
        form = r.choice([[x], rep_of([x], 2), rep_of([x], factor=31001), [201130, x, 201000], self.els(1) + [x]])
        out = [(pre + form + suf, (33, self.v2))]
        if r.random() < 0.5:
            out.append((pre + self.els(1) + suf, (33, self.v2)))
        return out

    def prefix(self):
        """prefixes / extensions of one template"""
        r = self.rng
        full = self.els(r.randint(3, 5))
        if r.random() < 0.5:
            k = r.randint(0, len(full) - 2)
            full = full[:k] + rep_of(full[k:k + 1], 2) + full[k + 1:]
        cuts = [k for k in range(1, len(full) + 1) if not (full[k - 1] // 100000 == 1)]
        out = [full[:k] for k in r.sample(cuts, min(len(cuts), r.randint(2, 4)))]
        if r.random() < 0.5:
            out.append(full + self.els(1))
        return self.both_versions(out)

    def order(self):
        """the same ids in a different order"""
        r = self.rng
        base = self.els(r.randint(2, 4))
        if r.random() < 0.5:
            base = base + [100000 + 1000 + r.randint(2, 3)]          # 101002 moves around with the elements
        perms = set()
        for _ in range(12):
            p = list(base)
            r.shuffle(p)
            if p[-1] // 100000 != 1:
                perms.add(tuple(p))
        perms = sorted(perms)
        r.shuffle(perms)
        return self.both_versions([list(p) for p in perms[:r.randint(2, 4)]])

    def multiset(self):
        """the same set of ids with different multiplicities; the same length; the same sum"""
        r = self.rng
        a, b, c = self.els(3)
        must = r.choice([[[a, a, b], [a, b, b]], [[a, b], [a, a, b]], [[a, b, a], [a, a, b]], [[a, b], [a, b, b]]])
        extra = [[a, b], [a, a, b], [a, b, b], [a, b, a], [b, a], [a, b, c], [a, a, a], [a]]
        if a + 1 in self.numeric and b - 1 in self.numeric and b - 1 != a:
            extra.append([a + 1, b - 1])                      # same length, same sum
        return self.both_versions(self.pick(must, extra, 0, 2))

    def seq_vs_expansion(self):
        """a sequence, its expansion, the expansion with one member changed, the same under a replication"""
        r = self.rng
        if not self.seqs:
            return self.multiset()
        s = r.choice(self.seqs)
        members = [int(m) for m in self.d[s][1]]
        changed = list(members)
        changed[r.randrange(len(members))] = self.els(1)[0]
        pre, suf = self.wrap()
        plain = [[s], members, changed]
        fixed = [rep_of([s], 2), rep_of(members, 2), rep_of(changed, 2)]
        delayed = [rep_of([s], factor=31001), rep_of(members, factor=31001), rep_of(changed, factor=31001)]
        group_ = r.choice([plain, fixed, delayed])
        return self.both_versions([pre + f + suf for f in self.pick(group_[:2], [group_[2]] + plain + fixed, 0, 2)])

    OPERATOR_PAIRS = (((201130,), (201000,)), ((201131,), (201000,)), ((201129,), (201000,)), ((202129,), (202000,)),
                      ((207001,), (207000,)), ((207002,), (207000,)), ((201130, 202129), (202000, 201000)), ((), ()))

    def operand(self):
        """the templates differ in the operand of one operator (or in which operator it is)"""
        r = self.rng
        a = r.choice(self.wide)
        pre, suf = self.wrap()
        forms = [list(o) + [a] + list(c) for o, c in self.OPERATOR_PAIRS]
        must = r.choice([[forms[0], forms[1]], [forms[4], forms[5]], [forms[0], forms[3]], [forms[1], forms[2]]])
        return self.both_versions([pre + f + suf for f in self.pick(must, forms, 0, 2)])

    def rep_operator(self):
        """the difference is an operator (or its operand) inside the span of a top-level replication"""
        r = self.rng
        a = r.choice(self.wide)
        pre, suf = self.wrap()
        bodies = [list(o) + [a] + list(c) for o, c in self.OPERATOR_PAIRS if len(o) == 1]      # all of three ids
        must = r.choice([[bodies[0], bodies[1]], [bodies[4], bodies[5]], [bodies[0], bodies[3]], [bodies[1], bodies[2]]])
        delayed = r.random() < 0.5
        cnt = r.randint(1, 3)
        return self.both_versions([pre + rep_of(b, cnt, 31001 if delayed else None) + suf for b in self.pick(must, bodies, 0, 1)])


    def context_forms(self):
        """One sub-structure S (a Table D sequence of elements, that sequence under a fixed / delayed replication, or its
        written-out members) and one operator context K that changes what is recorded for a member of S (201 202 207 width
        / scale / reference, 203: a new reference value that stays in force after 203255 until 203000, 204 associated
        field, 208 string length, 221 data not present): the templates
            S | K( S ) | S K( S ) | K( S ) S | S K( S ) S | K( S ) K'( S )
        A compiler (or a cache inside it) that identifies what it records for S by S alone - not by the registers in force
        where S is used - is right on the first and wrong on the others, within one template or across the messages of
        one coder (seeded change C08-7)."""
        r = self.rng
        s = r.choice(self.seqs)
        members = [int(m) for m in self.d[s][1]]
        nums = [m for m in members if m in set(self.numeric)]
        strs = [m for m in members if m in set(self.string)]
        kinds = ['201', '202', '207', '204', '221'] + (['203'] * 4 if nums else []) + (['208'] * 2 if strs else [])
        form = r.choice(['seq', 'seq', 'seq', 'fixed', 'delayed', 'members'])
        if form == 'seq':
            sub, units = [s], 1 + len(members)
        elif form == 'fixed':
            sub, units = rep_of([s], 2), None
        elif form == 'delayed':
            sub, units = rep_of([s], factor=31001), None
        else:
            sub, units = list(members), len(members)

        def ctx(k):
            if k == '201':
                return [201000 + r.choice([129, 130, 132])], [201000]
            if k == '202':
                return [202000 + r.choice([129, 130])], [202000]
            if k == '207':
                return [207000 + r.randint(1, 2)], [207000]
            if k == '208':
                return [208000 + r.randint(1, 5)], [208000]
            if k == '204':
                return [204000 + r.randint(1, 6), 31021], [204000]
            if k == '221':
                if units is None or units > 255:
                    return ctx('201')
                return [221000 + units], []
            els = sorted(set(r.sample(nums, min(len(nums), r.randint(1, 2)))))
            return [203000 + r.randint(6, 14)] + els + [203255], [203000]
        k1 = r.choice(kinds)
        o1, c1 = ctx(k1)
        o2, c2 = ctx(r.choice(kinds))
        forms = [sub, o1 + sub + c1, sub + o1 + sub + c1, o1 + sub + c1 + sub, sub + o1 + sub + c1 + sub,
                 o1 + sub + c1 + o2 + sub + c2]
        return k1, forms

    def context(self):
        """see context_forms: the same sub-structure plain and inside operator spans, as separate templates of one family
        (requested one after the other on one coder) and inside one template"""
        if not self.seqs:
            return self.operand()
        pre, suf = self.wrap()
        _, forms = self.context_forms()
        must = self.rng.choice([[forms[0], forms[1]], [forms[1], forms[0]], [forms[2]], [forms[0], forms[4]], [forms[3], forms[1]]])
        return self.both_versions([pre + f + suf for f in self.pick(must, forms, 1, 3)])

    def make(self, kind):
        return getattr(self, kind.replace('-', '_'))()


def family_pool(rng, v2, differing, n_families):
    """-> list of (family index, kind, ids, version), every kind at least once when n_families allows"""
    fam = Families(rng, v2, differing)
    kinds = list(Families.KINDS)
    rng.shuffle(kinds)
    while len(kinds) < n_families:
        kinds.append(rng.choice(Families.KINDS))
    pool, seen = [], set()
    for fi, kind in enumerate(kinds[:n_families]):
        for ids, versions in fam.make(kind):
            for v in versions:
                if (tuple(ids), v) in seen:
                    continue
                seen.add((tuple(ids), v))
                pool.append((fi, kind, ids, v))
    return pool


def family_walk(rng, by_family, length):
    """a request order that stays inside a family most of the time: near-identical templates are requested one after
    the other (that is what a cache of one entry needs to mix them up), with repeats (hits) and jumps"""
    fams = sorted(by_family)
    order = []
    f = rng.choice(fams)
    while len(order) < length:
        r = rng.random()
        if order and r < 0.12:
            order.append(order[-1])                       # the same message again
        elif order and r < 0.22 and len(order) >= 2:
            order.append(order[-2])                       # A B A
        else:
            if r > 0.72:
                f = rng.choice(fams)
            order.append(rng.choice(by_family[f]))
    return order


def cache_round(ctx, drv, seed, tier):
    """one pool of messages (families of near-identical templates x data variants), one request order, every cache
    limit: each compiled result against the uncompiled one of the same message (decode and encode), the cache key list
    after every request against the model"""
    from pybufrkit.decoder import Decoder
    from pybufrkit.encoder import Encoder
    rng = random.Random(seed)
    v2, differing = version_pair()
    if v2 is None:
        raise core.MachineryError('no two bundled versions with a differing element width')
    quick = tier == 'quick'
    pool = family_pool(rng, v2, differing, len(Families.KINDS) if quick else len(Families.KINDS) + 4)
    # values: one driver batch per version; two data variants per template (other values, other counts, compression)
    cases = {}
    for v in (33, v2):
        cs = []
        for ti, (fi, kind, ids, pv) in enumerate(pool):
            if pv != v:
                continue
            for variant in range(2):
                c = P.Case([ids], [], rng.randint(1, 3), variant == 1 and rng.random() < 0.5, 4, ti)
                c.note = variant
                cs.append(c)
        cases[v] = P.gen_values(drv, group(v)[0], cs, rng)
    msgs, by_family, kinds = {}, {}, {}
    for v in (33, v2):
        for c in cases[v]:
            js = C.make_message_json(c.ids, P.py_inputs(c.valss), c.comp, overrides={'master_table_version': v})
            e = enc_with(Encoder(), js)
            if e[0] != 'ok':
                ctx.count('cache-message-refused')
                continue
            key = (c.idx, c.note)                          # (template = cache key, data variant)
            msgs[key] = (js, e, dec_with(Decoder(), e[1]))
            by_family.setdefault(pool[c.idx][0], []).append(key)
            kinds[pool[c.idx][0]] = pool[c.idx][1]
    if not msgs:
        return
    for fi in by_family:
        if len(set(k[0] for k in by_family[fi])) >= 2:
            ctx.count('cache-family:' + kinds[fi])
    ctx.count('cache-templates', len(set(k[0] for k in msgs)))
    order = family_walk(rng, by_family, rng.randint(60, 120) if quick else rng.randint(60, 250))
    tmpl = sorted(set(k[0] for k in order))
    nat = {t: i + 1 for i, t in enumerate(tmpl)}

    def describe(k):
        fi, kind, ids, v = pool[k[0]]
        return {'family': kind, 'ids': ids, 'version': v, 'message': msgs[k][0]}

    for cmax in (0, 1, 2, 50):
        dec = Decoder(compiled_template_cache_max=cmax)
        enc = Encoder(compiled_template_cache_max=cmax)
        steps_d, steps_e = [], []
        bad = None
        for pos, k in enumerate(order):
            js, e_ref, d_ref = msgs[k]
            d = dec_with(dec, e_ref[1])
            e = enc_with(enc, js)
            why = same_impl(d_ref, d)
            if why and not bad:
                bad = ('oracle-cache-decode', pos, why)
            why = same_impl(e_ref, e)
            if why and not bad:
                bad = ('oracle-cache-encode', pos, why)
            steps_d.append(list(dec.compiled_template_manager.cache.keys()))
            steps_e.append(list(enc.compiled_template_manager.cache.keys()))
        # map implementation keys to request keys: the key inserted at a step is the requested one
        model = drv.batch([{'op': 'compiled-cache', 'keys': [nat[k[0]] for k in order], 'max': cmax}])[0]['steps']
        for name, steps in (('decoder', steps_d), ('encoder', steps_e)):
            seen = {}
            for pos, (k, ks, m) in enumerate(zip(order, steps, model)):
                for ik in ks:
                    if ik not in seen:
                        seen[ik] = nat[k[0]]      # first appearance: inserted by this request
                got = [seen[ik] for ik in ks]
                if got != m['keys'] and not bad:
                    bad = ('cache-keys-' + name, pos, 'implementation cache %s, model %s (limit %d)' % (got, m['keys'], cmax))
                if len(ks) > max(cmax, 0) and not bad:
                    bad = ('cache-bound-' + name, pos, '%d entries with limit %d' % (len(ks), cmax))
        hits = sum(1 for m in model if m['hit'])
        ctx.case({'cache_max': cmax, 'order': [[pool[k[0]][2], pool[k[0]][3], k[1]] for k in order]},
                 nontrivial=len(order) > len(tmpl), sample=False)
        ctx.traces += 1
        ctx.count('cache-history-max%d' % cmax)
        ctx.count('cache-requests', len(order))
        ctx.count('cache-hits', hits)
        if bad:
            stage, pos, why = bad
            rep = {'cache_max': cmax, 'round_seed': seed, 'tier': tier, 'stage': stage, 'why': why, 'request': pos,
                   'order': [[pool[k[0]][2], pool[k[0]][3], k[1]] for k in order[:pos + 1]]}
            what = '%s at request %d (cache limit %d): %s' % (stage, pos, cmax, why)
            if stage.startswith('oracle'):
                pair = shrink_history(msgs, order[:pos + 1], cmax, stage)
                if pair:
                    rep['shrunk'] = [describe(k) for k in pair]
                    what += '; shrunk to %s' % ' then '.join('%s (v%d)' % (pool[k[0]][2], pool[k[0]][3]) for k in pair)
            ctx.violation(what, rep, signature={'stage': stage, 'cache_max': cmax})


def shrink_history(msgs, order, cmax, stage):
    """the shortest history found that still fails on its last request: one earlier request + the failing one"""
    from pybufrkit.decoder import Decoder
    from pybufrkit.encoder import Encoder
    last = order[-1]

    def fails(hist):
        if stage.endswith('decode'):
            dec = Decoder(compiled_template_cache_max=cmax)
            got = [same_impl(msgs[k][2], dec_with(dec, msgs[k][1][1])) for k in hist]
        else:
            enc = Encoder(compiled_template_cache_max=cmax)
            got = [same_impl(msgs[k][1], enc_with(enc, msgs[k][0])) for k in hist]
        return bool(got[-1]) and not any(got[:-1])
    if fails([last]):
        return [last]
    for k in reversed(order[:-1]):
        if fails([k, last]):
            return [k, last]
    return None


# ---------------------------------------------------------------------------------------------
def replay(ctx, path):
    with open(path) as f:
        body = json.load(f)
    rep = body['replay']
    drv = ctx.driver
    if 'undischarged' in rep:
        print('replay: proof obligations are re-checked by every run (audit step)')
        return
    before = ctx.violations
    if 'file' in rep:
        corpus_file(ctx, drv, rep['file'])
        print('replay corpus file:', 'fails' if ctx.violations > before or ctx.known_hits else 'passes')
        return
    if 'round_seed' in rep:
        cache_round(ctx, drv, rep['round_seed'], rep.get('tier', 'quick'))
        print('replay cache round:', 'fails' if ctx.violations > before else 'passes')
        return
    c = P.Case([rep['ids']], rep.get('forced', []), rep['n_subsets'], rep['compressed'], rep.get('edition', 4))
    c.valss = rep['values']
    evaluate(ctx, drv, [c], version=rep.get('version'), source=rep.get('source', 'replay'))
    print('replay:', 'fails' if ctx.violations > before or ctx.known_hits else 'passes')
