"""
C14 — templates are built from descriptor lists exactly as FM-94 prescribes.

Theorems: lean/BufrModel/Props/C14.lean (arbitrary tables, id lists of any length / nesting), Props/C14History.lean
(in-stream table entries registered in the process: unrelated entries change no template, the repair pass
_fix_ncep_descriptors is the identity on well-counted lists).
Tie (six streams, all against the working tree named by VERIF_REPO):
  rows       every Table D row of the selected bundled table groups: `flat_member_ids(lookup(id))` and the Table B
             attributes of every leaf  vs  the model (`expand-all`: built tree flattened, the flat counting
             specification, the leaves) — compared per row by digest, drilled down on mismatch; the decidable
             hypotheses of the theorems are evaluated on every loaded group (`tables-wf`).
  lists      random well-counted id lists (replication nested to depth 4, X up to 63, fixed and delayed) and
             ill-counted ones  vs  `template_from_ids(*ids)`: tree rendering, original_descriptor_ids, flat ids.
  normalize  `normalize_tables_sn` / `get_tables_sn` over scratch table roots with present / absent directories,
             and `get_table_group(...).key` over the bundled tree  vs  the model's fall-back chain.
  unknown    messages encoded by the Encoder whose section 3 is patched to name a descriptor that is in no table
             (top level, inside a replication, in factor position): decoding must raise UnknownDescriptor (oracle).
  history    (harness/c14hist.py) the `lists` correspondence repeated in process states that hold in-stream table entries
             (table-definition messages decoded before / add_extra_entries): entries unrelated to the list (template must
             be identical to the one built without entries) and entries that define ids of the list (template follows
             files + entries, TableDef.extend); fixed / delayed replication nested to depth 4 x followed or not at every
             level; NCEP-style member-less replication sequences; model = build over extended tables + fixNcep.
  positions  (harness/c14pos.py) the same question asked systematically: scope (what operator is in force: 221 range,
             203 definition / in force, after 206, 204, 201/202/207/208, 205, bitmap definition, class-33 / 008023 /
             marker position after the bitmap) x container (top, fixed / delayed replication incl. count 0, nesting,
             Table D sequences from a scratch table root, factor position) x class of the unknown id (element class 0,
             1-9, 10-30, 31, 33, 48-63, local Y; sequence WMO / local) x compressed or not; plain and compiled-template
             decoder, wire_template_data off and on.  Primary check: error family (and values) of the coder MODEL
             (`wire`, `dec-data-compiled`) vs the implementation; second: the direct oracle "reached => UnknownDescriptor".
Oracles evaluate the property on the implementation alone (Python-side direct expansion of the table JSON,
attributes straight from TableB.json, ids == original_descriptor_ids, replication ownership counted on the tree).
"""
import json
import logging
import os
import shutil
import tempfile

from harness import c14hist, c14pos, core, tables_io

PROP = 'C14'

META = dict(
    text='Kernel-checked theorems over the model of tables.py/descriptors.py for arbitrary Table B/D contents and id lists of '
         'any length and nesting: flattening a built template returns the id list it was built from (unconditionally, also '
         'for ill-counted lists); a replication 1XXYYY owns exactly the next X ids after its factor; the flat id list of '
         'every built tree equals a direct expansion of the flat id list by a counting machine that never builds a tree '
         '(for every list the machine accepts, in particular every Table D row satisfying the decidable predicate rowOK, '
         'which the driver evaluates on every loaded row) and equals a count-free expansion for every list that builds at '
         'all; every Table B position of a built tree is the unchanged Table B entry or an undefined placeholder; the '
         'dispatch skeleton of the coder walk fails with unknown-descriptor at the first undefined member it reaches; the '
         'table selection result lies in the documented fall-back chain; building over tables extended by in-stream entries '
         'equals building over the table files for every list that reaches no id the entries define, and the repair pass '
         '_fix_ncep_descriptors, run once such entries are registered, is the identity on the tree of every well-counted list '
         'whose replications have X >= 1. Correspondence: every Table D row of the '
         'selected bundled groups (quick: version 33, 4 seeded versions, all local 98_0 tables; thorough: all 36 versions), '
         'random well-counted and ill-counted id lists against template_from_ids, ~650 normalize_tables_sn selections over '
         'scratch directory trees, the id-list correspondence repeated in 9 (thorough 24) process states with in-stream table '
         'entries registered (entries unrelated to the lists: template identical to the one built before; entries defining '
         'elements / sequences the lists use, NCEP-style member-less replication sequences: template follows files + entries; '
         'all fixed / delayed nestings to depth 4, followed or not by further descriptors at every level; ~5 200 lists quick), '
         'and patched messages that must raise UnknownDescriptor: ~1 900 (quick; thorough ~16 000) '
         'messages with one descriptor that is in no table at every kind of position the walk distinguishes (operator scope x '
         'replication / sequence container x descriptor class x compression), decoded by the plain and the compiled-template '
         'decoder with and without wiring and by the coder model (error family and values compared).',
    technique='Lean 4 theorems (well-founded induction over (depth, length), stack-machine simulation invariant) + checked '
              'model/implementation correspondence with per-row digests + implementation-only oracles',
    note='Python object sharing between cached sequence descriptors is modelled by value. The failure of decoding on an '
         'undefined descriptor is proved on the dispatch skeleton of process_members (all processing of known members '
         'abstract); the coder model (Coder/Walk.lean: walk1 gives unknownDescr for undefElem / undefSeq / non-Table-B factor '
         'after the 221, 203 and 206 preludes) is tied to the real decoder by the stream "positions". A position counts as '
         'reached unless it lies in a delayed replication of count 0 (plain walk only: the template compiler walks every '
         'replication body once and raises there too) or directly follows 206YYY (FM-94 makes any descriptor there a '
         'skipped field of YYY bits). The file '
         'system is an abstract directory predicate. Two bundled local rows (312209 of 98_0/1 and 98_0/101) are ill counted '
         '(their replication runs past the end of the row): for them the counting specification is undefined and the '
         'count-free expansion theorem applies. Once in-stream entries are registered the implementation refuses a '
         'replication with X = 0 (AssertionError in the repair pass) that it builds before; the model mirrors that '
         '(C14_fix_ncep_refuses_X0) and the identity theorem asks for X >= 1. In-stream rows that redefine a sequence a '
         'table-file row refers to are left to C20 (by-source resolution).')

E_UNDEF, S_UNDEF = 63255, 363255      # in no bundled table (checked at run time)
MODP = 2305843009213693951


def digest(ints):
    h = 17
    for x in ints:
        h = (h * 1000003 + (2 * (-x) + 1 if x < 0 else 2 * x) + 7) % MODP
    return h


# ---------------------------------------------------------------------------------------------
# implementation side
def _D():
    from pybufrkit import descriptors as D
    return D


def impl_leaf(d):
    D = _D()
    if type(d) is D.ElementDescriptor:
        return [d.id, {'n': 0, 'c': 1, 's': 2}[tables_io.unit_kind(d.unit)], int(d.scale), int(d.refval), int(d.nbits)]
    return [d.id, 9, 0, 0, 0]


def impl_leaves(members, out):
    D = _D()
    for m in members:
        if isinstance(m, D.SequenceDescriptor) or isinstance(m, D.FixedReplicationDescriptor):
            impl_leaves(m.members, out)
        elif isinstance(m, D.DelayedReplicationDescriptor):
            out.append(impl_leaf(m.factor))
            impl_leaves(m.members, out)
        elif isinstance(m, (D.ElementDescriptor, D.UndefinedElementDescriptor)):
            out.append(impl_leaf(m))
    return out


def impl_render(d):
    D = _D()
    t = type(d)
    if t is D.ElementDescriptor:
        return ['E', d.id]
    if t is D.UndefinedElementDescriptor:
        return ['UE', d.id]
    if t is D.UndefinedSequenceDescriptor:
        return ['US', d.id]
    if t is D.OperatorDescriptor:
        return ['O', d.id]
    if t is D.SequenceDescriptor:
        return ['S', d.id, [impl_render(m) for m in d.members]]
    if t is D.FixedReplicationDescriptor:
        return ['F', d.id, [impl_render(m) for m in d.members]]
    if t is D.DelayedReplicationDescriptor:
        return ['D', d.id, impl_render(d.factor), [impl_render(m) for m in d.members]]
    return ['?', repr(t)]


def impl_group(wmo_sn, local_sn, root=None):
    from pybufrkit.tables import TableGroupCacheManager, TableGroupKey
    key = TableGroupKey(root or tables_io.tables_root(), tuple(wmo_sn), tuple(local_sn) if local_sn else None)
    return TableGroupCacheManager.get_table_group_by_key(key)


def impl_group_via_api(wmo_sn, local_sn, root=None):
    """the documented entry point; the key it resolves to must be the requested one"""
    from pybufrkit.tables import TableGroupCacheManager
    kw = dict(master_table_version=int(wmo_sn[2]))
    if root:
        kw['tables_root_dir'] = root
    if local_sn:
        c, s = local_sn[1].split('_')
        kw.update(originating_centre=int(c), originating_subcentre=int(s), local_table_version=int(local_sn[2]))
    g = TableGroupCacheManager.get_table_group(**kw)
    return g


def impl_build(group, ids):
    from pybufrkit.descriptors import flat_member_ids
    try:
        t = group.template_from_ids(*ids)
        return {'tree': [impl_render(m) for m in t.members], 'orig': list(t.original_descriptor_ids),
                'flat': flat_member_ids(t)}
    except Exception as e:  # StopIteration included
        return {'err': core.err_tag(e)[4:]}


# ---------------------------------------------------------------------------------------------
# oracles on the table files themselves (no model, no pybufrkit)
def direct_expand(d, ids, depth=0):
    """count-free direct expansion of a flat id list over the merged Table D dictionary `d`"""
    if depth > 80:
        raise core.MachineryError('Table D reference cycle')
    out, i = [], 0
    while i < len(ids):
        x = ids[i]
        if x >= 300000:
            if x in d:
                out.extend(direct_expand(d, [int(m) for m in d[x][1]], depth + 1))
            else:
                out.append(x)
        elif 100000 <= x < 200000 and x % 1000 == 0:
            out.append(x)
            if i + 1 < len(ids):
                out.append(ids[i + 1])
            i += 1
        else:
            out.append(x)
        i += 1
    return out


def counted_ok(ids):
    """FM-94 counting, written recursively (generator-independent check of `WellCounted`): returns True iff
    every replication finds its factor and its X ids inside the enclosing scope."""
    def scope(i, end):
        while i < end:
            x = ids[i]
            if 100000 <= x < 200000:
                k = 2 if x % 1000 == 0 else 1
                n = x // 1000 % 100
                if i + k + n > end:
                    return False
                if not scope(i + k, i + k + n):
                    return False
                i += k + n
            else:
                i += 1
        return True
    return scope(0, len(ids))


def ownership_ok(tree):
    """on an implementation tree: every replication owns exactly X ids"""
    def nids(ms):
        n = 0
        for m in ms:
            n += 1
            if m[0] == 'F':
                n += nids(m[2])
            elif m[0] == 'D':
                n += 1 + nids(m[3])
        return n

    def ok(ms):
        for m in ms:
            if m[0] in ('F', 'D'):
                mem = m[2] if m[0] == 'F' else m[3]
                if nids(mem) != m[1] // 1000 % 100 or not ok(mem):
                    return False
        return True
    return ok(tree)


# ---------------------------------------------------------------------------------------------
# stream 1: every Table D row of a table group
def check_group(ctx, wmo_sn, local_sn, root=None, tag=''):
    from pybufrkit.descriptors import flat_member_ids
    label = tag + '/'.join(wmo_sn) + ('+' + '/'.join(local_sn) if local_sn else '')
    b, d = tables_io.read_group(wmo_sn, local_sn, root)
    try:
        g = impl_group_via_api(wmo_sn, local_sn, root)
    except Exception as e:
        load_failure(ctx, label, wmo_sn, local_sn, e)
        return
    want_key = (tuple(wmo_sn), tuple(local_sn) if local_sn else None)
    if (g.key.wmo_tables_sn, g.key.local_tables_sn) != want_key:
        ctx.case({'g': label, 'select': True})
        ctx.violation('get_table_group for the existing tables %s selected %r / %r' % (label, g.key.wmo_tables_sn, g.key.local_tables_sn),
                      {'group': label, 'wmo_sn': wmo_sn, 'local_sn': local_sn, 'id': 0,
                       'selected': [g.key.wmo_tables_sn, g.key.local_tables_sn]},
                      signature={'kind': 'normalize', 'why': 'existing tables not selected'})
        return
    out = ctx.driver.batch([tables_io.tables_request(b, d), {'op': 'tables-wf'}, {'op': 'expand-all'}])
    wf, rows = out[1], out[2]['rows']
    if not wf['keyed']:
        raise core.MachineryError('driver table not keyed')
    ctx.count('groups')
    if wf['bad']:
        ctx.count('rows_outside_rowOK', len(wf['bad']))
        ctx.notes.append('%s: rowOK fails for %s (ill counted %s, too deep %s)' % (label, wf['bad'], wf['ill_counted'], wf['too_deep']))
    ctx.dist['max_table_d_nesting'] = max(ctx.dist.get('max_table_d_nesting', 0), wf['max_depth'])
    impl_ids = sorted(g.D.descriptors)
    if impl_ids != [r[0] for r in rows]:
        ctx.violation('%s: Table D ids loaded by the implementation differ from the table files' % label,
                      {'group': label, 'impl_only': sorted(set(impl_ids) - set(r[0] for r in rows))[:20],
                       'file_only': sorted(set(r[0] for r in rows) - set(impl_ids))[:20]}, signature={'kind': 'row-ids'})
        return
    bad_set = set(wf['bad'])
    for r in rows:
        id_ = r[0]
        seq = g.lookup(id_)
        try:
            flat = flat_member_ids(seq)
            lv = impl_leaves(seq.members, [])
            iobs = ['ok', len(flat), digest(flat), digest([x for a in lv for x in a]), len(lv)]
        except Exception as e:
            flat, lv, iobs = None, None, [core.err_tag(e)]
        ctx.case({'g': label, 'id': id_}, nontrivial=(flat is not None and len(flat) != len(d[id_][1])),
                 sample=(ctx.evaluations % 1499 == 0))
        ctx.traces += 1
        ctx.count('rows')
        # oracle: the table files directly
        row = [int(m) for m in d[id_][1]]
        want = direct_expand(d, row)
        omsg = None
        if flat != want:
            omsg = 'flat_member_ids differs from the direct expansion of TableD.json'
        else:
            for a in lv:
                e = b.get(a[0])
                exp = [a[0], 9, 0, 0, 0] if e is None else [a[0], {'n': 0, 'c': 1, 's': 2}[tables_io.unit_kind(e[1])], int(e[2]), int(e[3]), int(e[4])]
                if a != exp:
                    omsg = 'leaf %06d carries %r, TableB.json says %r' % (a[0], a, exp)
                    break
        mobs = (['ok', r[2], r[3], r[5], r[6]] if r[1] == 'ok' else ['err:' + r[1]])
        if omsg and omsg.split(' ')[0] in ctx.seen_row_failures:
            ctx.count('rows_failing_again')
        elif omsg:
            ctx.seen_row_failures.add(omsg.split(' ')[0])
            det = ctx.driver.batch([tables_io.tables_request(b, d), {'op': 'expand-row', 'id': id_}])[1]
            ctx.violation('row %06d of %s: %s (impl %s..., direct %s...)' % (id_, label, omsg, (flat or [])[:12], want[:12]),
                          {'group': label, 'wmo_sn': wmo_sn, 'local_sn': local_sn, 'id': id_, 'row': row, 'impl_flat': flat,
                           'direct': want, 'model': det}, signature={'kind': 'row', 'why': omsg.split(' ')[0]})
        elif iobs != mobs:
            ctx.corr_breaks.append({'group': label, 'wmo_sn': wmo_sn, 'local_sn': local_sn, 'id': id_, 'impl': iobs, 'model': mobs})
        elif r[1] == 'ok' and not r[7]:
            ctx.corr_breaks.append({'group': label, 'id': id_, 'why': 'count-free expansion differs from the built tree'})
        elif r[1] == 'ok' and not r[4]:
            # the flat counting specification is defined exactly on rows satisfying rowOK
            if id_ not in bad_set:
                ctx.corr_breaks.append({'group': label, 'id': id_, 'why': 'specification differs from the built tree on a rowOK row'})
            else:
                ctx.count('rows_spec_undefined')
        else:
            ctx.count('rows_spec_equal')
    # forward / backward references inside one file (what the two-pass load is for)
    fwd = sum(1 for k, v in d.items() for m in v[1] if int(m) >= 300000 and int(m) in d and '%06d' % int(m) > '%06d' % k)
    ctx.count('rows_forward_references', fwd)


def load_failure(ctx, label, wmo_sn, local_sn, e):
    ctx.case({'g': label, 'load': True})
    ctx.violation('table group %s cannot be loaded by the implementation: %s %s' % (label, type(e).__name__, str(e)[:200]),
                  {'group': label, 'wmo_sn': wmo_sn, 'local_sn': local_sn, 'load_error': core.err_tag(e), 'id': 0},
                  signature={'kind': 'load', 'error': type(e).__name__})


def groups_for(ctx):
    versions = tables_io.bundled_versions()
    local_root = os.path.join(tables_io.tables_root(), '0', '98_0')
    locals_ = sorted(os.listdir(local_root), key=int) if os.path.isdir(local_root) else []
    rng = ctx.rng('groups')
    if ctx.tier == 'quick':
        chosen = [33] + rng.sample([v for v in versions if v != 33], 4)
        loc = [(33, lv) for lv in locals_]
    else:
        chosen = versions
        loc = [(v, lv) for lv in locals_ for v in (33, versions[0], rng.choice(versions))]
    gs = [(('0', '0_0', str(v)), None) for v in chosen]
    gs += [(('0', '0_0', str(v)), ('0', '98_0', lv)) for v, lv in loc]
    return gs


# ---------------------------------------------------------------------------------------------
# stream 2: random id lists
class Pools(object):
    def __init__(self, b, d, rng):
        self.elems = sorted(k for k in b if k < 100000)
        self.factors = [k for k in (31000, 31001, 31002) if k in b]
        small = sorted(k for k in d if len(d[k][1]) <= 12)
        self.seqs = small or sorted(d)
        self.allseqs = sorted(d)


def gen_item(rng, P, depth, allow_rep=True):
    """one descriptor with everything it owns, as a flat id list"""
    r = rng.random()
    if allow_rep and depth < 4 and r < (0.34 if depth == 0 else 0.22):
        members = []
        for _ in range(rng.choice([0, 1, 1, 2, 2, 3, 4, 6, 10, 30])):
            it = gen_item(rng, P, depth + 1)
            if len(members) + len(it) > 63:
                break
            members += it
        x = len(members)
        if rng.random() < 0.5:
            f = rng.choice(P.factors) if rng.random() < 0.85 else rng.choice([rng.choice(P.elems), E_UNDEF, 31099])
            return [100000 + 1000 * x, f] + members
        return [100000 + 1000 * x + rng.randint(1, 255)] + members
    if r < 0.55:
        return [rng.choice(P.elems)]
    if r < 0.70:
        return [rng.choice([201129, 201000, 202130, 202000, 204008, 204000, 222000, 236000, 237000, 207002, 207000,
                            200000 + rng.randrange(100000)])]
    if r < 0.86:
        return [rng.choice(P.seqs) if rng.random() < 0.9 else rng.choice(P.allseqs)]
    if r < 0.93:
        return [rng.choice([S_UNDEF, 300000 + rng.randrange(100000)])]
    return [rng.choice([E_UNDEF, rng.randrange(100000)])]


def gen_list(rng, P):
    ids = []
    for _ in range(rng.choice([1, 2, 3, 5, 8, 12])):
        ids += gen_item(rng, P, 0)
    return ids


def gen_deep(rng, P):
    """nesting depth exactly 4 with full-width outer replication"""
    inner = [rng.choice(P.elems)]
    for lvl in range(4):
        pad = [rng.choice(P.elems) for _ in range(rng.randint(0, 3))]
        body = pad + inner + ([rng.choice(P.elems)] if rng.random() < 0.5 else [])
        if lvl == 3:
            while len(body) < 63:
                body.append(rng.choice(P.elems))
        if rng.random() < 0.5:
            inner = [100000 + 1000 * len(body), rng.choice(P.factors)] + body
        else:
            inner = [100000 + 1000 * len(body) + rng.randint(1, 255)] + body
    return inner + [rng.choice(P.elems)]


def break_counting(rng, ids):
    ids = list(ids)
    reps = [i for i, x in enumerate(ids) if 100000 <= x < 200000]
    k = rng.randrange(6)
    if k == 0 and len(ids) > 1:
        return ids[:rng.randrange(1, len(ids))]
    if k == 1 and reps:
        i = rng.choice(reps)
        x = ids[i] // 1000 % 100
        ids[i] += 1000 * min(rng.choice([1, 1, 2, 5, 40]), 99 - x)
        return ids
    if k == 2:
        return ids + [rng.choice([101000, 103000, 100000])]
    if k == 3 and reps:
        i = rng.choice(reps)
        if ids[i] % 1000 == 0 and i + 1 < len(ids):
            del ids[i + 1]
        return ids
    if k == 4 and reps:
        i = rng.choice(reps)
        return ids[:i + 1]
    if k == 5 and reps:
        i = rng.choice(reps)
        x = ids[i] // 1000 % 100
        if x:
            ids[i] -= 1000 * rng.randint(1, x)
        return ids
    return ids + [163000 + rng.choice([0, 7])]


def list_verdict(ids, impl, model, wellformed, d):
    """(oracle message | None, correspondence difference | None)"""
    omsg = None
    if 'err' in impl:
        if wellformed:
            omsg = 'a well-counted list was refused (%s)' % impl['err']
        elif impl['err'] != 'other':
            omsg = 'unexpected error family %s' % impl['err']
    else:
        if impl['orig'] != ids:
            omsg = 'original_descriptor_ids differs from the ids the template was built from'
        elif impl['flat'] != direct_expand(d, ids):
            omsg = 'flat_member_ids differs from the direct expansion of the id list'
        elif counted_ok(ids) and not ownership_ok(impl['tree']):
            omsg = 'a replication does not own exactly its X ids'
    cmsg = None
    mm = {k: model.get(k) for k in ('tree', 'orig', 'flat')} if 'err' not in model else {'err': model['err']}
    if mm != impl:
        cmsg = 'model and implementation differ'
    elif 'err' not in model and model['origq'] != model['orig']:
        cmsg = 'queue and structural originalIds differ'
    elif model['wc'] != counted_ok(ids):
        cmsg = 'WellCounted disagrees with the recursive counting check'
    elif 'err' not in model and model['loose'] != model['flat']:
        cmsg = 'count-free expansion differs from the flattened tree'
    elif model['wc'] and 'err' not in model and model['spec'] is not None and model['spec'] != model['flat']:
        cmsg = 'counting specification differs from the flattened tree'
    elif model['wc'] and 'err' not in model and model['spec'] is None and all(x < 300000 or x not in d for x in ids):
        cmsg = 'counting specification undefined on a well-counted list without sequences'
    return omsg, cmsg


def shrink_list(ctx, treq, group, ids, wellformed, d, pred):
    """greedy deletion of single ids / halves while `pred` keeps holding; bounded"""
    budget = 60
    cur = list(ids)
    changed = True
    while changed and budget > 0 and len(cur) > 1:
        changed = False
        for i in range(len(cur)):
            cand = cur[:i] + cur[i + 1:]
            budget -= 1
            if budget <= 0:
                break
            impl = impl_build(group, cand)
            model = ctx.driver.batch([treq, {'op': 'build', 'ids': cand}])[1]
            if pred(cand, impl, model):
                cur = cand
                changed = True
                break
    return cur


def check_lists(ctx, wmo_sn, local_sn, n_good, n_bad, root=None, tag=''):
    b, d = tables_io.read_group(wmo_sn, local_sn, root)
    treq = tables_io.tables_request(b, d)
    label = tag + '/'.join(wmo_sn) + ('+' + '/'.join(local_sn) if local_sn else '')
    try:
        group = impl_group(wmo_sn, local_sn, root)
    except Exception as e:
        load_failure(ctx, label, wmo_sn, local_sn, e)
        return
    if E_UNDEF in b or S_UNDEF in d:
        raise core.MachineryError('placeholder ids are defined in the tables')
    rng = ctx.rng('lists:' + label)
    P = Pools(b, d, rng)
    cases = []
    for i in range(n_good):
        ids = gen_deep(rng, P) if i % 10 == 0 else gen_list(rng, P)
        cases.append((ids, True))
    for i in range(n_bad):
        cases.append((break_counting(rng, gen_list(rng, P) if i % 7 else gen_deep(rng, P)), False))
    model = ctx.driver.batch([treq] + [{'op': 'build', 'ids': ids} for ids, _ in cases])[1:]
    for (ids, wf), m in zip(cases, model):
        impl = impl_build(group, ids)
        nrep = sum(1 for x in ids if 100000 <= x < 200000)
        ctx.case({'g': label, 'ids': ids}, nontrivial=nrep > 0 or any(x >= 300000 for x in ids),
                 sample=(ctx.evaluations % 997 == 0))
        ctx.traces += 1
        ctx.count('lists_wellformed' if wf else 'lists_broken')
        if not wf:
            ctx.count('broken_still_counted' if m['wc'] else 'broken_ill_counted')
            ctx.count('broken_error' if 'err' in impl else 'broken_built')
        if wf and not counted_ok(ids):
            raise core.MachineryError('generator produced an ill-counted list %r' % ids)
        dep = 0
        if wf:
            dep = nest_depth(ids)
            ctx.count('nest_depth_%d' % dep)
            if any(x // 1000 % 100 == 63 for x in ids if 100000 <= x < 200000):
                ctx.count('lists_with_X63')
        omsg, cmsg = list_verdict(ids, impl, m, wf, d)
        if omsg and (omsg, wf) in ctx.seen_list_failures:
            ctx.count('lists_failing_again')
        elif omsg:
            ctx.seen_list_failures.add((omsg, wf))
            small = shrink_list(ctx, treq, group, ids, wf, d,
                                lambda c, i, mo: (not wf or counted_ok(c)) and list_verdict(c, i, mo, wf, d)[0] == omsg)
            ctx.violation('id list %s (%s): %s' % (small[:40], label, omsg),
                          {'wmo_sn': wmo_sn, 'local_sn': local_sn, 'ids': small, 'original_ids': ids, 'wellformed': wf,
                           'impl': impl_build(group, small)}, signature={'kind': 'list', 'why': omsg[:40], 'wellformed': wf})
        elif cmsg:
            ctx.corr_breaks.append({'wmo_sn': wmo_sn, 'local_sn': local_sn, 'ids': ids, 'why': cmsg, 'impl': impl, 'model': m})


def nest_depth(ids):
    def scope(i, end):
        best = 0
        while i < end:
            x = ids[i]
            if 100000 <= x < 200000:
                k = 2 if x % 1000 == 0 else 1
                n = x // 1000 % 100
                best = max(best, 1 + scope(i + k, i + k + n))
                i += k + n
            else:
                i += 1
        return best
    return scope(0, len(ids))


# ---------------------------------------------------------------------------------------------
# stream 2b: synthetic table groups (WMO file + local file that adds, overrides and forward-references)
UNITS = ['NUMERIC', 'CCITT IA5', 'CODE TABLE', 'FLAG TABLE', 'M', 'K']


def synth_tables(rng):
    """(wmo_b, wmo_d, loc_b, loc_d) as JSON-ready dicts.  Table D rows reference only rows of lower *rank*
    (a random order unrelated to the numeric order, so forward references abound and there is no cycle);
    the local file adds rows, overrides Table B entries and overrides Table D rows that no WMO row references
    (a WMO row keeps the object it was linked to when the WMO file was loaded: outside the merged-table model)."""
    def b_entry(i):
        u = rng.choice(UNITS)
        return ['N%06d' % i, u, rng.randint(-2, 3), rng.choice([0, 0, -1024, 5]), rng.choice([1, 7, 8, 12, 16, 24]), 'x', 0, 1]
    b_ids = sorted(set([31001, 31002] + [rng.randrange(1000, 30000) for _ in range(14)]))
    wmo_b = {'%06d' % i: b_entry(i) for i in b_ids}
    loc_new_b = sorted(set(rng.randrange(48000, 49000) for _ in range(4)))
    loc_b = {'%06d' % i: b_entry(i) for i in loc_new_b + rng.sample(b_ids, 3)}
    wmo_ids = rng.sample(range(300001, 300060), 12)      # order of this list = rank
    loc_ids = rng.sample(range(300100, 300140), 6)
    elems = b_ids + loc_new_b + [E_UNDEF]

    def row(lower):
        def item(depth, last=False):
            r = rng.random()
            if depth < 3 and r < 0.25:
                mem = []
                for _ in range(rng.randint(0, 4)):
                    mem += item(depth + 1)
                x = len(mem)
                if last and rng.random() < 0.3:
                    x = min(63, x + rng.randint(1, 3))       # ill-counted row: the replication runs past the end
                if rng.random() < 0.5:
                    return [100000 + 1000 * x, rng.choice([31001, 31002, 31001, E_UNDEF])] + mem
                return [100000 + 1000 * x + rng.randint(1, 9)] + mem
            if r < 0.55 and lower:
                return [rng.choice(lower)]
            if r < 0.60:
                return [rng.choice([S_UNDEF, 201130, 201000, 222000])]
            return [rng.choice(elems)]
        out = []
        n = rng.randint(1, 5)
        for j in range(n):
            out += item(0, last=(j == n - 1))
        return out
    wmo_d, refd = {}, set()
    for k, i in enumerate(wmo_ids):
        r = row(wmo_ids[:k])
        refd.update(x for x in r if x >= 300000)
        wmo_d['%06d' % i] = ['S%06d' % i, ['%06d' % x for x in r]]
    loc_d = {}
    for k, i in enumerate(loc_ids):
        loc_d['%06d' % i] = ['L%06d' % i, ['%06d' % x for x in row(wmo_ids + loc_ids[:k])]]
    for i in [x for x in wmo_ids if x not in refd][:2]:
        loc_d['%06d' % i] = ['O%06d' % i, ['%06d' % x for x in row(wmo_ids[:wmo_ids.index(i)])]]
    return wmo_b, wmo_d, loc_b, loc_d


def check_synthetic(ctx, n_groups, n_good, n_bad):
    rng = ctx.rng('synthetic')
    root = tempfile.mkdtemp(prefix='c14-synth-', dir='/tmp')
    try:
        for k in range(n_groups):
            sub = os.path.join(root, 'g%d' % k)
            wb, wd, lb, ld = synth_tables(rng)
            for sn, bb, dd in ((('0', '0_0', '1'), wb, wd), (('0', '7_0', '2'), lb, ld)):
                p = os.path.join(sub, *sn)
                os.makedirs(p)
                json.dump(bb, open(os.path.join(p, 'TableB.json'), 'w'))
                json.dump(dd, open(os.path.join(p, 'TableD.json'), 'w'))
            ctx.count('synthetic_groups')
            ctx.count('synthetic_d_overrides', len(set(wd) & set(ld)))
            ctx.count('synthetic_b_overrides', len(set(wb) & set(lb)))
            before = ctx.violations
            check_group(ctx, ('0', '0_0', '1'), ('0', '7_0', '2'), root=sub, tag='synthetic:')
            check_group(ctx, ('0', '0_0', '1'), None, root=sub, tag='synthetic:')
            check_lists(ctx, ('0', '0_0', '1'), ('0', '7_0', '2'), n_good, n_bad, root=sub, tag='synthetic:')
            if ctx.violations > before:
                # keep the tables with the replay: the scratch directory is removed
                ctx.notes.append('synthetic group g%d: %s' % (k, json.dumps({'wmo_b': wb, 'wmo_d': wd, 'loc_b': lb, 'loc_d': ld})[:6000]))
    finally:
        shutil.rmtree(root, ignore_errors=True)


# ---------------------------------------------------------------------------------------------
# stream 3: table selection
def sn_tuple(sn):
    if sn is None:
        return None
    c, s = sn[1].split('_')
    return [int(sn[0]), int(c), int(s), int(sn[2])]


def tree_listing(root):
    masters, dirs = [], []
    for m in sorted(os.listdir(root)):
        if not (m.isdigit() and os.path.isdir(os.path.join(root, m))):
            continue
        masters.append(int(m))
        for cs in sorted(os.listdir(os.path.join(root, m))):
            p = os.path.join(root, m, cs)
            parts = cs.split('_')
            if not (os.path.isdir(p) and len(parts) == 2 and all(x.isdigit() for x in parts)):
                continue
            for v in sorted(os.listdir(p)):
                if v.isdigit() and os.path.isdir(os.path.join(p, v)):
                    dirs.append([int(m), int(parts[0]), int(parts[1]), int(v)])
    return masters, dirs


def normalize_oracle(masters, dirs, req, wmo, loc):
    mtn, c, s, mtv, ltv = req
    m = mtn if mtn in masters else 0
    if wmo[:3] != [m, 0, 0]:
        return 'WMO tables not under the (fallen-back) master table number / 0_0'
    if [m, 0, 0, mtv] in dirs:
        if wmo[3] != mtv:
            return 'requested master version exists but was replaced'
    elif wmo[3] != 33:
        return 'missing master version not replaced by the default 33'
    if ltv == 0:
        return None if loc is None else 'local tables chosen although local_table_version is 0'
    chain = [[m, c, s, ltv], [m, c, 0, ltv]]
    first = next((x for x in chain if x in dirs), None)
    if loc != first:
        return 'local tables %r, first existing entry of the fall-back chain is %r' % (loc, first)
    return None


def check_normalize(ctx):
    from pybufrkit.tables import normalize_tables_sn, get_tables_sn, TableGroupCacheManager
    rng = ctx.rng('normalize')
    root = tempfile.mkdtemp(prefix='c14-tables-', dir='/tmp')
    logging.disable(logging.WARNING)
    try:
        configs = []
        for k in range(6):
            present = set()
            for m in (0, 10):
                if m == 10 and rng.random() < 0.4:
                    continue
                for v in (13, 33, 40):
                    if rng.random() < 0.6:
                        present.add((m, 0, 0, v))
                for c in (98, 7):
                    for s in (0, 1):
                        for lv in (1, 2):
                            if rng.random() < 0.4:
                                present.add((m, c, s, lv))
                present.add((m, 5, 5, 5)) if rng.random() < 0.5 else None
            configs.append(sorted(present))
        configs[0] = []  # nothing at all: everything falls back to the defaults
        cases = []
        for ci, present in enumerate(configs):
            sub = os.path.join(root, 'cfg%d' % ci)
            os.makedirs(sub)
            if ci == 1:
                os.makedirs(os.path.join(sub, '10'))  # a master number directory without any version below it
            for (m, c, s, v) in present:
                os.makedirs(os.path.join(sub, str(m), '%d_%d' % (c, s), str(v)), exist_ok=True)
            masters, dirs = tree_listing(sub)
            for mtn in (0, 10, 7):
                for c in (98, 7):
                    for s in (0, 1):
                        for mtv in (13, 33, 40):
                            for ltv in (0, 1, 2):
                                cases.append((sub, masters, dirs, [mtn, c, s, mtv, ltv]))
        model = ctx.driver.batch([{'op': 'normalize', 'masters': ms, 'dirs': ds, 'req': rq} for _, ms, ds, rq in cases])
        for (sub, masters, dirs, req), m in zip(cases, model):
            try:
                w, l = normalize_tables_sn(sub, *req)
                w0, l0 = get_tables_sn(*req)
                impl = {'wmo': sn_tuple(w), 'local': sn_tuple(l), 'plain_wmo': sn_tuple(w0), 'plain_local': sn_tuple(l0)}
            except Exception as e:
                impl = {'err': core.err_tag(e)}
            ctx.case({'cfg': os.path.basename(sub), 'req': req}, nontrivial=True, sample=(ctx.evaluations % 499 == 0))
            ctx.traces += 1
            ctx.count('normalize')
            omsg = 'raised %s' % impl['err'] if 'err' in impl else normalize_oracle(masters, dirs, req, impl['wmo'], impl['local'])
            if omsg is None and (impl['plain_wmo'] != [req[0], 0, 0, req[3]] or
                                 impl['plain_local'] != (None if req[4] == 0 else [req[0], req[1], req[2], req[4]])):
                omsg = 'get_tables_sn does not return the request unchanged'
            if omsg:
                ctx.violation('normalize_tables_sn%r over dirs %r: %s (got %r)' % (tuple(req), dirs, omsg, impl),
                              {'masters': masters, 'dirs': dirs, 'req': req, 'impl': impl, 'model': m},
                              signature={'kind': 'normalize', 'why': omsg[:30]})
            elif impl != m:
                ctx.corr_breaks.append({'normalize': req, 'dirs': dirs, 'masters': masters, 'impl': impl, 'model': m})
            else:
                ctx.count('normalize_fallback' if (impl['wmo'] != impl['plain_wmo'] or impl['local'] != impl['plain_local'])
                          else 'normalize_as_requested')
        # the documented entry point over the bundled tree (arguments pass through `or DEFAULT`)
        masters, dirs = tree_listing(tables_io.tables_root())
        versions = tables_io.bundled_versions()
        reqs = []
        for _ in range(24 if ctx.tier == 'quick' else 80):
            reqs.append([rng.choice([0, 0, 3]), rng.choice([98, 98, 7, 0]), rng.choice([0, 0, 5]),
                         rng.choice([rng.choice(versions), 99, 1, 33]), rng.choice([0, 1, 2, 3, 101, 9])])
        model = ctx.driver.batch([{'op': 'normalize', 'masters': masters, 'dirs': dirs,
                                   'req': [r[0], r[1], r[2], r[3] or 33, r[4]]} for r in reqs])
        for req, m in zip(reqs, model):
            try:
                g = TableGroupCacheManager.get_table_group(master_table_number=req[0], originating_centre=req[1],
                                                           originating_subcentre=req[2], master_table_version=req[3],
                                                           local_table_version=req[4])
            except Exception as e:
                load_failure(ctx, 'get_table_group%r' % (tuple(req),), None, None, e)
                continue
            impl = {'wmo': sn_tuple(g.key.wmo_tables_sn), 'local': sn_tuple(g.key.local_tables_sn)}
            ctx.case({'bundled': req}, nontrivial=True)
            ctx.traces += 1
            ctx.count('normalize_bundled')
            omsg = normalize_oracle(masters, dirs, req, impl['wmo'], impl['local'])
            if omsg:
                ctx.violation('get_table_group%r: %s (got %r)' % (tuple(req), omsg, impl),
                              {'req': req, 'impl': impl, 'model': m, 'bundled': True},
                              signature={'kind': 'normalize', 'why': omsg[:30]})
            elif impl != {'wmo': m['wmo'], 'local': m['local']}:
                ctx.corr_breaks.append({'normalize_bundled': req, 'impl': impl, 'model': m})
    finally:
        logging.disable(logging.NOTSET)
        shutil.rmtree(root, ignore_errors=True)


# ---------------------------------------------------------------------------------------------
# stream 4: a descriptor that is in no table makes decoding fail with UnknownDescriptor
PLAIN = [1001, 1002, 2001, 4001, 4002, 4003, 5001, 6001, 7001, 10004, 12001, 11001, 11002, 20003]


def gen_message_template(rng):
    """returns (ids, values, positions): positions = list of (descriptor index, role) that are reached by the walk"""
    ids, vals, pos = [], [], []

    def plain(role):
        pos.append((len(ids), role))
        ids.append(rng.choice(PLAIN))

    def group(depth, reps, role):
        n = rng.randint(1, 3)
        body_ids_start = len(ids)
        if rng.random() < 0.5:
            cnt = rng.randint(1, 3)
            ids.append(100000 + 1000 * n)        # X patched below when nested members are added
            at = len(ids) - 1
            pos.append((len(ids), 'factor'))
            ids.append(31001)
            delayed = True
        else:
            cnt = rng.randint(1, 3)
            ids.append(100000 + 1000 * n + cnt)
            at = len(ids) - 1
            delayed = False
        start = len(ids)
        shape = []
        for _ in range(n):
            if depth < 2 and rng.random() < 0.25:
                shape.append(group(depth + 1, reps * cnt, 'member'))
            else:
                plain('member')
                shape.append(None)
        x = len(ids) - start
        ids[at] = 100000 + 1000 * x + (0 if delayed else cnt)
        return ('D' if delayed else 'F', cnt, shape)

    shapes = []
    for _ in range(rng.randint(2, 6)):
        if rng.random() < 0.4:
            shapes.append(group(0, 1, 'member'))
        else:
            plain('top')
            shapes.append(None)

    def values(shapes):
        out = []
        for s in shapes:
            if s is None:
                out.append(None)
            else:
                kind, cnt, inner = s
                if kind == 'D':
                    out.append(cnt)
                for _ in range(cnt):
                    out += values(inner)
        return out
    return ids, values(shapes), pos


def encode_message(ids, vals, version=33):
    from pybufrkit.encoder import Encoder
    js = [["BUFR", 0, 4],
          [0, 0, 0, 0, 0, False, "0000000", 2, 0, 0, version, 0, 2020, 1, 1, 0, 0, 0],
          [0, "00000000", 1, True, False, "000000", ids],
          [0, "00000000", [vals]],
          ["7777"]]
    return Encoder().process(json.dumps(js), wire_template_data=False).serialized_bytes


def decode_tag(data):
    """error family of decoding, plain walk and compiled-template walk; the first one that is not
    the unknown-descriptor error is reported"""
    from pybufrkit.decoder import Decoder
    tags = []
    for kw in ({}, {'compiled_template_cache_max': 8}):
        try:
            Decoder(**kw).process(data, wire_template_data=False)
            tags.append('ok')
        except Exception as e:
            tags.append(core.err_tag(e))
    if tags[0] == tags[1]:
        return tags[0]
    return tags[0] if tags[0] != 'err:lib:unknown-descriptor' else tags[1] + '(compiled)'


def patch(data, k, new_id):
    off = 8 + 22 + 7 + 2 * k
    c = bytearray(data)
    f, x, y = new_id // 100000, new_id // 1000 % 100, new_id % 1000
    c[off] = (f << 6) | x
    c[off + 1] = y
    return bytes(c)


def unknown_case(ctx, ids, vals, k, role, new_id):
    try:
        data = encode_message(ids, vals)
        tag0 = decode_tag(data)
    except Exception as e:
        data, tag0 = None, 'encode:' + core.err_tag(e)
    if tag0 != 'ok':
        ctx.case({'unknown': ids, 'k': -1})
        ctx.violation('a valid message over %s does not encode/decode (%s) before any descriptor is replaced' % (ids, tag0),
                      {'unknown': True, 'ids': list(ids), 'vals': vals, 'k': k, 'role': role, 'new_id': new_id, 'observed': tag0},
                      signature={'kind': 'unknown-baseline', 'observed': tag0})
        return None, None, None
    tag = decode_tag(patch(data, k, new_id))
    pids = list(ids)
    pids[k] = new_id
    ctx.case({'unknown': pids, 'k': k}, nontrivial=True, sample=(ctx.evaluations % 97 == 0))
    ctx.count('unknown_' + role)
    ctx.count('unknown_seq' if new_id >= 300000 else 'unknown_elem')
    return tag, pids, data


def check_unknown(ctx):
    rng = ctx.rng('unknown')
    n = 60 if ctx.tier == 'quick' else 600
    for _ in range(n):
        ids, vals, pos = gen_message_template(rng)
        k, role = rng.choice(pos)
        new_id = E_UNDEF if role == 'factor' or rng.random() < 0.6 else S_UNDEF
        tag, pids, data = unknown_case(ctx, ids, vals, k, role, new_id)
        if tag is None:
            continue
        if tag != 'err:lib:unknown-descriptor':
            # shrink: the smallest message with the same role that still shows it
            small = {'top': ([1001, 1002], [None, None], 1),
                     'member': ([1001, 101002, 1002], [None, None, None], 2),
                     'factor': ([1001, 101000, 31001, 1002], [None, 1, None], 2)}[role]
            stag, spids, sdata = unknown_case(ctx, small[0], small[1], small[2], role, new_id)
            if stag == tag:
                pids, data = spids, sdata
                ids, vals, k = small
            ctx.violation('decoding a message whose template names %06d (in no table, %s position) gives %s, not UnknownDescriptor; '
                          'descriptors %s' % (new_id, role, tag, pids),
                          {'unknown': True, 'ids': list(ids), 'vals': vals, 'k': k, 'role': role, 'new_id': new_id,
                           'patched_ids': pids, 'observed': tag},
                          signature={'kind': 'unknown', 'role': role, 'observed': tag})


# ---------------------------------------------------------------------------------------------
def report_breaks(ctx):
    if ctx.corr_breaks and ctx.violations == 0:
        b = ctx.corr_breaks[0]
        ctx.violation('correspondence model<->tables/descriptors broken on %d cases while every implementation-only oracle holds; '
                      'first: %s' % (len(ctx.corr_breaks), json.dumps(b, default=repr)[:400]),
                      {'correspondence': 'template', 'first': b, 'count': len(ctx.corr_breaks)},
                      signature={'kind': 'correspondence'}, no_failing_input=True)


def run(ctx):
    ctx.corr_breaks = []
    ctx.seen_list_failures = set()
    ctx.seen_row_failures = set()
    ctx.rule = ('rows: every Table D row of each selected table group (non-trivial: the row contains a sequence, i.e. its '
                'expansion is longer than the row); lists: random id lists over Table B/D ids, operators, undefined ids, '
                'replication nested to depth 4, X up to 63, fixed/delayed (non-trivial: contains a replication or a sequence), '
                'plus broken-counting variants; normalize: 6 directory configurations x 108 requests + bundled tree; '
                'unknown: patched encoded messages; positions: one message per scope x container x class x compression '
                '(all non-trivial: every one carries a descriptor that is in no table). Distinct by (group, id) / id list / request hash.')
    gs = groups_for(ctx)
    for wmo_sn, local_sn in gs:
        check_group(ctx, wmo_sn, local_sn)
    ctx.exhaustive = True
    ctx.notes.append('table groups checked row by row: %s' % ['/'.join(w) + ('+' + '/'.join(l) if l else '') for w, l in gs])
    q = ctx.tier == 'quick'
    check_lists(ctx, ('0', '0_0', '33'), None, 700 if q else 20000, 350 if q else 8000)
    check_lists(ctx, ('0', '0_0', '33'), ('0', '98_0', '1'), 300 if q else 10000, 150 if q else 4000)
    check_synthetic(ctx, 8 if q else 80, 40, 20)
    check_normalize(ctx)
    check_unknown(ctx)
    c14hist.run(ctx)
    c14pos.run(ctx)
    report_breaks(ctx)
    ctx.assumptions = ['descriptor objects shared between cached sequences behave as values (no mutation after loading)',
                       'the file system is a pure directory-existence predicate during one call',
                       'the Table B/D JSON files streamed to the model are the files the implementation loads (same paths, read on every run)']


def replay(ctx, path):
    body = json.load(open(path))
    r = body['replay']
    ctx.corr_breaks = []
    ctx.seen_list_failures = set()
    ctx.seen_row_failures = set()
    if r.get('positions'):
        c14pos.replay(ctx, r)
    elif r.get('history'):
        c14hist.replay(ctx, r)
    elif r.get('unknown'):
        tag, pids, _ = unknown_case(ctx, r['ids'], r['vals'], r['k'], r['role'], r['new_id'])
        if tag is None:
            return
        print(json.dumps({'patched_ids': pids, 'observed': tag}))
        if tag != 'err:lib:unknown-descriptor':
            ctx.violation('decoding %s gives %s, not UnknownDescriptor' % (pids, tag), r,
                          signature={'kind': 'unknown', 'role': r['role'], 'observed': tag})
    elif 'ids' in r:
        b, d = tables_io.read_group(tuple(r['wmo_sn']), tuple(r['local_sn']) if r.get('local_sn') else None)
        group = impl_group(r['wmo_sn'], r.get('local_sn'))
        impl = impl_build(group, r['ids'])
        model = ctx.driver.batch([tables_io.tables_request(b, d), {'op': 'build', 'ids': r['ids']}])[1]
        print(json.dumps({'impl': impl, 'model': model}))
        omsg, cmsg = list_verdict(r['ids'], impl, model, r.get('wellformed', False), d)
        ctx.case({'ids': r['ids']})
        if omsg:
            ctx.violation('id list %s: %s' % (r['ids'][:40], omsg), r, signature={'kind': 'list', 'why': omsg[:40], 'wellformed': r.get('wellformed', False)})
        elif cmsg:
            ctx.corr_breaks.append({'ids': r['ids'], 'why': cmsg})
    elif 'id' in r:
        check_group(ctx, tuple(r['wmo_sn']), tuple(r['local_sn']) if r.get('local_sn') else None)
    elif 'req' in r and not r.get('bundled'):
        m = ctx.driver.batch([{'op': 'normalize', 'masters': r['masters'], 'dirs': r['dirs'], 'req': r['req']}])[0]
        print(json.dumps({'model': m, 'recorded_impl': r.get('impl')}))
    report_breaks(ctx)
