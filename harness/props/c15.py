"""
C15 — the path-expression parser accepts exactly the documented grammar.

Theorems: lean/BufrModel/Props/C15.lean (state machine <-> recursive-descent grammar, all strings).
Tie: every string of length <= 5 (quick) / <= 6 (thorough) over the 12-symbol alphabet of the
property is parsed by NodePathParser and by the model (enumerated by index on both sides, in
parallel); random grammar-derived expressions with single-character mutations.
Oracle: implementation vs the executable grammar (Spec.recognise) on the same string, and the
print/parse round trip on the implementation alone.
"""
import json
import multiprocessing
import os

from harness import core

PROP = 'C15'
ALPHABET = '@[]:/.>-01A '

META = dict(
    text='Kernel-checked theorems, for strings of every length, over the Lean model of NodePathParser (the 9-state machine with its '
         'token / slice-element / id / separator accumulators, first-character check and end-of-input handling) and of '
         'NodePath.__str__: (1) parse s = ok p  <->  the recursive-descent recogniser written from the EBNF of docs/internals.rst '
         'yields p on s with whitespace removed (same subset slice, same components, same slices: nothing outside the grammar is '
         'accepted, nothing inside is rejected, nothing is dropped); (2) every rejection is the path-parsing error (the assert in '
         'create_slice_object is unreachable); (3) every accepted path is canonical; (4) parse(print p) = p for every canonical p, '
         'hence (5) parse(print(parse s)) = parse s. The correspondence run parses every string of length <= 5 (quick) / <= 6 '
         '(thorough) over the 12-symbol alphabet of the property, plus random grammar-derived expressions (<= 12 components, '
         'whitespace), single-character and structural mutations of them and random token sequences, with both the model and pybufrkit.dataquery.NodePathParser and '
         'compares outcome family, subset slice, component triples and the printout (NodePath.__str__ vs print) exactly; the oracle compares the implementation with the '
         'executable grammar and checks the print/parse law on the implementation alone. Source tie: the whole NodePathParser (all nine '
         'methods, NodePath, PathComponent) is re-translated from the repository into Lean on every check (harness/py2lean.py, '
         'Gen/PyDataquery.lean) and C15_src_parse_eq proves, for every object state, both values of bare_id_matches_all and every '
         'input of SrcDomain (no "+", "_", non-ASCII digit, blank outside string.whitespace; at most 4300 digits), that the '
         'translated parse returns exactly what the model parse returns (no IndexError / TypeError / ValueError, loop terminates); '
         'outside SrcDomain code and model differ and the differences are stated (A[+1], A[1_0], non-ASCII digits and blanks, the '
         '4300-digit limit of int()).',
    technique='Lean 4 theorems (state-machine invariants by induction on the input: whitespace erasure, token runs, slice bodies vs '
              'splitting on colons, component induction on fuel; decimal printing/parsing round trip) + exhaustive and random '
              'checked model/implementation correspondence + implementation-vs-grammar oracle',
    note="Python's int() is modelled as '-'? digit+ and whitespace as the six ASCII blanks of string.whitespace (the property's "
         "alphabet); '+1', '1_0', non-ASCII digits/blanks are outside the model. The grammar's open points (what an id is, first "
         "character in @/>0-9A-Z, no leading '.') follow the code and are listed in Spec/PathGrammar.lean. Theorems are stated over "
         'List Char. The model is the parser after fix F2 (ee91e13). The source tie models int() in full (Py.intOfStr) and '
         'assumes CPython >= 3.11 with the default int_max_str_digits = 4300, Unicode 15.0.0 tables (compared with the interpreter '
         'on every run), assertions enabled, and the declared attribute types of NodePathParser / NodePath (notes/Tie.md).',
)


def slice_repr(s):
    if s is None:
        return '-'
    if isinstance(s, slice):
        f = lambda x: 'N' if x is None else str(x)
        return 'r%s,%s,%s' % (f(s.start), f(s.stop), f(s.step))
    return 'i%d' % s


def path_repr(np):
    out = 'S' + slice_repr(np.subset_slice)
    for c in np.components:
        out += '|%s%s|%s' % (c.separator, c.id, slice_repr(c.slice))
    return out


_parser = None


def impl_parse(s):
    global _parser
    from pybufrkit.dataquery import NodePathParser
    if _parser is None:
        _parser = NodePathParser()
    try:
        np = _parser.parse(s)
    except Exception as e:
        return 'E:' + core.err_tag(e)[4:], None
    return path_repr(np), str(np)


def impl_roundtrip(s):
    """print/parse law on the implementation: returns None or message"""
    from pybufrkit.dataquery import NodePathParser
    p = NodePathParser()
    try:
        np = p.parse(s)
    except Exception:
        return None
    printed = str(np)
    try:
        np2 = p.parse(printed)
    except Exception as e:
        return 'printout %r of accepted %r is rejected: %r' % (printed, s, e)
    if path_repr(np2) != path_repr(np):
        return 'printout %r of %r parses to a different path' % (printed, s)
    return None


def nth_string(length, i):
    out = []
    n = len(ALPHABET)
    for _ in range(length):
        out.append(ALPHABET[i % n])
        i //= n
    return ''.join(reversed(out))


def enum_chunk(args):
    length, lo, hi = args
    drv = core.Driver()
    resp = drv.batch([{'op': 'path-enum', 'alphabet': ALPHABET, 'len': length, 'from': lo, 'to': hi}])[0]
    model = resp['res'].split('\n') if hi > lo else []
    mism = []
    accepted = 0
    rt_fail = []
    printed = []
    for k, i in enumerate(range(lo, hi)):
        s = nth_string(length, i)
        r, pr = impl_parse(s)
        if not r.startswith('E:'):
            accepted += 1
            printed.append((s, pr))
            msg = impl_roundtrip(s)
            if msg and len(rt_fail) < 5:
                rt_fail.append((s, msg))
        if r != model[k]:
            if len(mism) < 20:
                mism.append((s, r, model[k]))
    # NodePath.__str__ against the model's `print` on every accepted string
    print_mism = []
    if printed:
        for (s, pr), m in zip(printed, drv.batch([{'op': 'path', 's': s} for s, _ in printed])):
            if m['print'] != pr and len(print_mism) < 5:
                print_mism.append((s, pr, m['print']))
    return {'n': hi - lo, 'accepted': accepted, 'mismatch': mism, 'specdiff': resp['specdiff'], 'rt_fail': rt_fail,
            'print_mism': print_mism}


# ---------------------------------------------------------------------------------------------
def gen_int(rng):
    return str(rng.choice([0, 1, 2, 5, 10, 37, -1, -2, -10, rng.randint(-300, 300)]))


def gen_slice(rng):
    k = rng.random()
    if k < 0.35:
        return '[%s]' % gen_int(rng)
    parts = [gen_int(rng) if rng.random() < 0.5 else '' for _ in range(rng.choice([2, 2, 3]))]
    return '[' + ':'.join(parts) + ']'


def gen_id(rng):
    k = rng.random()
    if k < 0.6:
        return '%06d' % rng.choice([1001, 8042, 301001, 103000, 31001, 222000, 12101, rng.randrange(400000)])
    if k < 0.8:
        return rng.choice('ASTFDR') + '%05d' % rng.randrange(100000)
    return ''.join(rng.choice('0123456789ABCXYZabc_-') for _ in range(rng.randint(1, 8)))


def gen_expr(rng):
    s = ''
    ncomp = rng.choice([1, 1, 2, 3, 5, 12])
    if rng.random() < 0.4:
        s += '@' + gen_slice(rng)
        first_sep = rng.choice('/>')
    else:
        first_sep = rng.choice(['/', '>', ''])
    for k in range(ncomp):
        sep = first_sep if k == 0 else rng.choice('/.>')
        ident = gen_id(rng)
        if k == 0 and sep == '' and not (ident[0].isdigit() or 'A' <= ident[0] <= 'Z'):
            ident = '0' + ident
        s += sep + ident
        if rng.random() < 0.4:
            s += gen_slice(rng)
    # sprinkle whitespace
    if rng.random() < 0.5:
        out = []
        for ch in s:
            if rng.random() < 0.1:
                out.append(rng.choice(' \t\n'))
            out.append(ch)
        s = rng.choice(['', ' ', '  ']) + ''.join(out) + rng.choice(['', ' ', '\n'])
    return s


FRAGMENTS = ['[0]', '[1:2]', '[::]', '[-1]', '[:]', '[]', '[::::]', '[1:2:3:4]', '@[0]', '@[1:]', '@', '/', '.', '>', '..', '/.',
             '[', ']', ':', '-', ' ', '\t', '001001', 'A', '0', '[0][1]', '[ 1 : 2 ]', '[1-2]', '[--1]', '[-]']
SOUP = ['@', '[', ']', ':', '/', '.', '>', '-', '0', '1', '12', 'A', 'a', '001001', '301001', '[0]', '[1:2]', '[::]', '[-1]', '[-2]',
        '[:3]', '[1:2:3]', '@[0]', '@[-1]', '@[::2]', ' ', '\n']


def gen_soup(rng):
    """token-level random string: reaches state sequences that need more than 6 characters (e.g. `A[0][1]`, `@[0]@[1]/A`)"""
    return ''.join(rng.choice(SOUP) for _ in range(rng.randint(1, 8)))


def mutate_fragment(rng, s):
    """structural mutation: insert a grammar fragment, duplicate or delete a substring"""
    i = rng.randrange(len(s) + 1)
    k = rng.random()
    if k < 0.6:
        return s[:i] + rng.choice(FRAGMENTS) + s[i:]
    j = min(len(s), i + rng.randint(1, 6))
    if k < 0.8:
        return s[:j] + s[i:j] + s[j:]
    return s[:i] + s[j:]


def mutate(rng, s):
    if not s:
        return rng.choice(ALPHABET)
    i = rng.randrange(len(s) + 1)
    k = rng.random()
    c = rng.choice(ALPHABET + '23Z')
    if k < 0.34:
        return s[:i] + c + s[i:]
    if k < 0.67 and i < len(s):
        return s[:i] + s[i + 1:]
    i = min(i, len(s) - 1)
    return s[:i] + c + s[i + 1:]


# ---------------------------------------------------------------------------------------------
def check_strings(ctx, strings, label):
    resp = ctx.driver.batch([{'op': 'path', 's': s} for s in strings])
    for s, m in zip(strings, resp):
        r, pr = impl_parse(s)
        accepted = not r.startswith('E:')
        if accepted and r == m['parse'] and pr != m['print']:
            ctx.corr_breaks.append({'string': s, 'impl': 'print:' + pr, 'model': 'print:' + str(m['print'])})
        ctx.case({'s': s}, nontrivial=accepted or len(s) > 3, sample=(ctx.evaluations % 499 == 0))
        ctx.traces += 1
        ctx.count(label + (':accepted' if accepted else ':rejected'))
        report_if_bad(ctx, s, r, m['parse'], m['spec'])
        msg = impl_roundtrip(s)
        if msg:
            ctx.violation('print/parse: ' + msg, {'string': s, 'what': msg}, signature={'kind': 'roundtrip'})


def classify(s, impl, spec):
    """structural signature of a disagreement between implementation and grammar"""
    if impl.startswith('E:') and impl != 'E:lib:path' and spec.startswith('E:'):
        return {'kind': 'wrong-error-type', 'error': impl}
    if not impl.startswith('E:') and spec.startswith('E:'):
        return {'kind': 'accepts-outside-grammar', 'result': 'components-dropped' if impl.count('|') == 0 else 'other'}
    if impl.startswith('E:') and not spec.startswith('E:'):
        return {'kind': 'rejects-grammatical'}
    return {'kind': 'wrong-structure'}


def report_if_bad(ctx, s, impl, model, spec):
    if impl != spec:
        ctx.violation('parser vs grammar on %r: implementation %s, grammar %s' % (s, impl, spec),
                      {'string': s, 'impl': impl, 'model': model, 'spec': spec}, signature=classify(s, impl, spec))
    elif impl != model:
        ctx.corr_breaks.append({'string': s, 'impl': impl, 'model': model})


def run(ctx):
    ctx.corr_breaks = []
    maxlen = 5 if ctx.tier == 'quick' else 6
    ctx.rule = ('exhaustive: all strings of length 0..%d over the alphabet %r enumerated by index on both sides; random: '
                'grammar-derived expressions (<= 12 components, slices, subset selectors, whitespace) each with 3 single-character '
                'mutations and one structural mutation (inserted grammar fragment, duplicated or deleted substring); random token-level strings ' 
                '(<= 8 tokens out of ids, separators, brackets, whole slices and selectors). Non-trivial: accepted strings, or rejected strings longer than 3 characters; distinct by string.' % (maxlen, ALPHABET))
    # corpus
    cdir = os.path.join(core.VERIF, 'corpus', PROP)
    if os.path.isdir(cdir):
        strings = []
        for f in sorted(os.listdir(cdir)):
            strings += json.load(open(os.path.join(cdir, f)))['strings']
        check_strings(ctx, strings, 'corpus')
    # exhaustive part
    tasks = []
    for L in range(0, maxlen + 1):
        total = len(ALPHABET) ** L
        step = 40000
        for lo in range(0, total, step):
            tasks.append((L, lo, min(total, lo + step)))
    with multiprocessing.Pool(min(16, os.cpu_count() or 1)) as pool:
        results = pool.map(enum_chunk, tasks, chunksize=1)
    n_enum = 0
    for (L, lo, hi), res in zip(tasks, results):
        n_enum += res['n']
        ctx.evaluations += res['n']
        ctx.traces += res['n']
        ctx.count('enumerated:len%d' % L, res['n'])
        ctx.count('enumerated:accepted', res['accepted'])
        if res['specdiff']:
            ctx.notes.append('model state machine and grammar disagree on %d strings of length %d' % (res['specdiff'], L))
        bad = [m[0] for m in res['mismatch']]
        if bad:
            # re-run the disagreeing strings one by one to classify against the grammar
            resp = ctx.driver.batch([{'op': 'path', 's': s} for s in bad])
            for (s, impl, model), m in zip(res['mismatch'], resp):
                report_if_bad(ctx, s, impl, m['parse'], m['spec'])
        for s, msg in res['rt_fail']:
            ctx.violation('print/parse: ' + msg, {'string': s, 'what': msg}, signature={'kind': 'roundtrip'})
        for s, pr, mpr in res['print_mism']:
            ctx.corr_breaks.append({'string': s, 'impl': 'print:' + pr, 'model': 'print:' + str(mpr)})
    ctx.exhaustive = True
    # distinct non-trivial among enumerated: accepted + all rejected of length > 3 (all strings are distinct)
    enum_nontrivial = sum(len(ALPHABET) ** L for L in range(4, maxlen + 1)) + sum(
        r['accepted'] for (L, lo, hi), r in zip(tasks, results) if L < 4)
    ctx.notes.append('enumerated strings: %d' % n_enum)
    for i in range(min(6, maxlen + 1)):
        ctx.samples.append({'s': nth_string(maxlen, (7919 * (i + 1) * 104729) % (len(ALPHABET) ** maxlen))})
    # random part
    rng = ctx.rng('random')
    n = 2000 if ctx.tier == 'quick' else 50000
    strings = []
    for _ in range(n):
        e = gen_expr(rng)
        strings.append(e)
        for _ in range(3):
            strings.append(mutate(rng, e))
        strings.append(mutate_fragment(rng, e))
    check_strings(ctx, strings, 'random')
    rng2 = ctx.rng('soup')
    check_strings(ctx, sorted(set(gen_soup(rng2) for _ in range(2 * n))), 'soup')
    # fold enumerated count into the distinct non-trivial total (strings are pairwise distinct by construction)
    ctx.nontrivial |= {'enum:%d' % k for k in range(0)}  # no-op, keeps type
    ctx.extra_nontrivial = enum_nontrivial
    if ctx.corr_breaks and ctx.violations == 0:
        b = ctx.corr_breaks[0]
        ctx.violation('correspondence model<->NodePathParser broken on %d strings although implementation and grammar agree; first %r'
                      % (len(ctx.corr_breaks), b['string']), {'correspondence': 'path', 'first': b},
                      signature={'kind': 'correspondence'}, no_failing_input=True)
    check_prelude_tables()
    ctx.assumptions = ["Python int() is modelled as '-'? digit+ in the hand-written model; the source tie (C15_src_parse_eq) uses "
                       "Py.intOfStr (blanks, '+', underscores, Unicode decimal digits, the 4300-digit limit) and proves the two equal "
                       "on SrcDomain (no '+', '_', non-ASCII digit, blank outside string.whitespace; at most 4300 digits); outside it "
                       "code and model differ (examples in Props/C15Src.lean)",
                       'whitespace = the six ASCII blanks of string.whitespace',
                       'interpreter: sys.get_int_max_str_digits() = 4300, unicodedata %s (decimal-digit table and str.isspace '
                       'table of Gen/PyPrelude.lean compared with the running interpreter on every check)' % _unidata_version()]


def replay(ctx, path):
    body = json.load(open(path))
    ctx.corr_breaks = []
    check_strings(ctx, [body['replay']['string']], 'replay')


def _unidata_version():
    import unicodedata
    return unicodedata.unidata_version


def check_prelude_tables():
    """The static tables of lean/BufrModel/Gen/PyPrelude.lean that `Py.intOfStr` / `Py.strip` rest on (trusted base of the
    source tie) against the interpreter that runs pybufrkit in this check.  A difference is a machinery error (the
    theorems would be about another interpreter), not a violation of the property."""
    import re
    import string as _string
    import sys
    import unicodedata
    from harness import core
    text = open(os.path.join(core.VERIF, 'lean', 'BufrModel', 'Gen', 'PyPrelude.lean')).read()
    # the table `Py.intOfStr` of the C15 tie uses (block "additions for stateful classes"; another block of the file has
    # a table of its own under another namespace)
    text = text[text.index('additions for stateful classes'):]
    m = re.search(r'def decimalZeros : List Nat :=\s*\[([^\]]*)\]', text)
    table = [int(x, 16) for x in re.findall(r'0x[0-9a-fA-F]+', m.group(1))]
    dec = [c for c in range(0x110000) if unicodedata.decimal(chr(c), None) is not None]
    zeros = []
    for i in range(0, len(dec), 10):
        blk = dec[i:i + 10]
        if blk != list(range(blk[0], blk[0] + 10)) or [unicodedata.decimal(chr(x)) for x in blk] != list(range(10)):
            raise RuntimeError('PyPrelude: the decimal digits of this interpreter are not blocks of ten')
        zeros.append(blk[0])
    if zeros[0] != 0x30 or zeros[1:] != table:
        raise RuntimeError('PyPrelude.decimalZeros differs from unicodedata %s of this interpreter' % unicodedata.unidata_version)
    spaces = [c for c in range(0x110000) if chr(c).isspace()]
    want = (list(range(9, 14)) + list(range(28, 33)) + [0x85, 0xa0, 0x1680] + list(range(0x2000, 0x200b))
            + [0x2028, 0x2029, 0x202f, 0x205f, 0x3000])
    if spaces != want:
        raise RuntimeError('PyPrelude.isSpaceChar differs from str.isspace of this interpreter')
    if _string.whitespace != ' \t\n\r\x0b\x0c':
        raise RuntimeError('string.whitespace of this interpreter is not the six ASCII blanks')
    if getattr(sys, 'get_int_max_str_digits', lambda: 0)() != 4300:
        raise RuntimeError('sys.get_int_max_str_digits() is not 4300 (PyPrelude.intMaxStrDigits)')
