"""
C18, execution part on generated messages: `ScriptRunner(script, level).run(msg)` over the messages and queries of C16.

For every query of a generated set — child / attribute paths that exist in the wired tree (replications, sequences,
attributes, factors, with slices of every shape on the components), bare ids, `>` variants, each without selector and
with `@` selectors of every slice shape (positive and negative indices, positive and NEGATIVE steps, out-of-range
indices, empty selections, step 0) — on uncompressed and compressed multi-subset messages whose subsets carry
different values and (uncompressed) different replication counts, zero included, the script `x = ${query}` is run at
the nest levels 0, 1, 2, 4 and at one level >= 3 other than 4, the level given by argument AND by `#$` pragma, and

  (a) the three laws between the levels are evaluated on the implementation's own outputs
      (level 1 = concatenation of level 2, level 0 = head of level 1 or None, level 2 = per-subset leaves of level 4;
      levels >= 3 = level 4; pragma = argument);
  (b) level 4 is compared with the C16 query result (`DataQuerent(NodePathParser()).query(msg, q)`:
      `subset_indices()` must be the selector's order `list(range(n))[sel]`, `all_values()` must be level 4), with the
      result of the query WITHOUT selector restricted to the selected subsets in the selector's order, and with the
      model: driver op `query` gives the per-subset values in the order of `pySlice sel n`, driver op `flatten`
      applied to them gives the model's levels 0, 1, 2, >= 3 (what Props/C18Query.lean states);
  (c) a query the querent refuses (QueryError, IndexError on an out-of-range `@[k]`, ValueError on step 0) makes the
      script fail in the same error family at every level, and vice versa.

Scripts with several queries (data queries with selectors, metadata queries, repeated expressions with different
blanks, quoted / commented `${...}`), level by argument, by pragma or both, levels 0, 1, 2, 4 and >= 3: the names are
PBK_<index of first occurrence>, every variable is the single-query result at the level in force (argument > pragma
> 1), every assignment target received the value of its own expression.
"""
import json
import multiprocessing
import os
import random
import traceback

from harness import core, tables_io
from harness import coder_io as C
from harness import coderprops as P
from harness import views_io as V
from harness.props import c09 as K9
from harness.props import c16 as K16

KEY = 'data_values_nest_level'
LEVELS = [0, 1, 2, 4]
HIGH_LEVELS = [3, 5, 7, 10]
MD_EXPRS = ['%length', '%edition', '%n_subsets', '%originating_centre', '%is_compressed', '%1.length', '%master_table_number']
BLANKS = ['', '', ' ', '\t', '  ', '\n']
# files of tests/data for the execution part: uncompressed with 7 subsets, compressed with 128, two small ones
FILES_QUICK = ['ISMD01_OKPR.bufr', 'jaso_214.bufr', 'contrived.bufr', 'mpco_217.bufr']
FILES_THOROUGH = FILES_QUICK + ['profiler_european.bufr', 'uegabe.bufr', 'b005_89.bufr', 'amv2_87.bufr', 'g2nd_208.bufr', '207003.bufr']

# templates with delayed replications whose counts the harness chooses subset by subset; `factors(rng)` gives the
# factor values one subset consumes, by factor id, in template order
GRADED = [
    ([1001, 1002, 102000, 31001, 12001, 11001, 2001], lambda r: {31001: [r.choice([0, 1, 2, 3])]}),
    ([1001, 101000, 31001, 301011, 12001], lambda r: {31001: [r.choice([0, 0, 1, 2, 3])]}),
    ([1001, 104000, 31001, 12001, 101000, 31001, 11001, 2001], lambda r: {31001: _nested(r)}),
    ([1001, 101000, 31001, 12001, 101000, 31002, 11001, 1001], lambda r: {31001: [r.choice([0, 1, 3])], 31002: [r.choice([0, 2, 1])]}),
    ([101000, 31002, 1001, 1001, 102002, 12001, 1001], lambda r: {31002: [r.choice([0, 1, 2, 4])]}),
    ([1001, 103000, 31001, 12001, 301011, 11001, 2001], lambda r: {31001: [r.choice([0, 1, 2])]}),
]


def _nested(r):
    k = r.choice([0, 1, 2, 3])
    return [k] + [r.choice([0, 1, 2]) for _ in range(k)]


# ---------------------------------------------------------------------------------------------
# small helpers
def py_flat(v):
    out = []
    for x in v:
        if isinstance(x, list):
            out += py_flat(x)
        else:
            out.append(x)
    return out


def canon(v):
    """values -> comparable / JSON-able (bytes and floats by repr)"""
    if isinstance(v, list):
        return [canon(x) for x in v]
    if isinstance(v, dict):
        return {k: canon(x) for k, x in v.items()}
    if isinstance(v, (bytes, float)):
        return repr(v)
    return v


def level_values(nested, lv):
    """what the property demands at level `lv` for the per-subset nested values `nested` (in the selector's order)"""
    if lv >= 3:
        return nested
    l2 = [py_flat(x) for x in nested]
    if lv == 2:
        return l2
    l1 = [x for sub in l2 for x in sub]
    if lv == 1:
        return l1
    return l1[0] if l1 else None


def law_check(vals):
    """the nest-level laws on the implementation's own results; vals: level -> value (levels 0, 1, 2, 4)"""
    l0, l1, l2, l4 = vals[0], vals[1], vals[2], vals[4]
    if not isinstance(l2, list) or not all(isinstance(x, list) for x in l2):
        return 'level 2 is not a list of lists'
    if not isinstance(l1, list) or not V.strict_equal(l1, [x for sub in l2 for x in sub]):
        return 'level 1 is not the concatenation of level 2'
    if not V.strict_equal(l0, l1[0] if len(l1) > 0 else None):
        return 'level 0 is not the first element of level 1 (or None)'
    if not isinstance(l4, list) or len(l4) != len(l2) or any(not isinstance(a, list) or not V.strict_equal(py_flat(a), b) for a, b in zip(l4, l2)):
        return 'level 2 is not the per-subset flattening of level 4'
    return None


# ---------------------------------------------------------------------------------------------
# selectors and queries
def gen_selector(rng, n):
    """an `@` selector of any slice shape over `n` subsets (biased towards reordering ones)"""
    k = rng.random()
    if k < 0.12:
        body = str(rng.randrange(n)) if n else '0'
    elif k < 0.17:
        body = str(n + rng.choice([0, 1, 5]))                     # out of range: IndexError
    elif k < 0.27:
        body = str(-rng.randint(1, n + 2))                        # -k (beyond -n: empty selection)
    else:
        vals = list(range(-n - 2, n + 3))

        def bound():
            return '' if rng.random() < 0.45 else str(rng.choice(vals))

        r = rng.random()
        if r < 0.5:
            step = str(-rng.choice([1, 1, 1, 2, 2, 3, max(1, n - 1), n + 1]))
        elif r < 0.8:
            step = str(rng.choice([1, 2, 2, 3, max(1, n - 1), n + 1]))
        elif r < 0.83:
            step = '0'                                            # ValueError
        else:
            step = None
        a, b = bound(), bound()
        if step is None:
            body = '%s:%s' % (a, b) if rng.random() < 0.7 else '%s:%s:' % (a, b)
        else:
            body = '%s:%s:%s' % (a, b, step)
    if rng.random() < 0.15:
        return '@ [ %s ] ' % body
    return '@[%s]' % body


def gen_queries(rng, paths, labels, n_sub, budget):
    """-> list of (selector, body): every body without selector and with several selectors"""
    out = []
    seen = set()

    def add(sel, body):
        if (sel, body) not in seen:
            seen.add((sel, body))
            out.append((sel, body))

    def with_selectors(body, k):
        add('', body)
        add(rng.choice(['@[::-1]', '@[-1::-1]', '@[::-2]', '@[%d::-1]' % max(0, n_sub - 1), '@[-1:0:-1]', '@[:0:-1]']), body)
        for _ in range(k):
            add(gen_selector(rng, n_sub), body)

    paths = sorted(paths)
    rng.shuffle(paths)
    deep = sorted(paths, key=lambda p: -len(K16.split_path(p)))
    picks = [deep[k] if k % 2 == 0 else paths[k] for k in range(len(paths))]
    n_path = max(1, int(budget * 0.7))
    for p in picks:
        if len(out) >= n_path:
            break
        comps = K16.split_path(p)
        sl = {}
        r = rng.random()
        if r < 0.45:
            sl = {rng.randrange(len(comps)): rng.choice(K16.SLICES)}
        elif r < 0.6:
            sl = {k: rng.choice(K16.SLICES) for k in range(len(comps)) if rng.random() < 0.5}
        with_selectors(K16.join_path(comps, sl), rng.choice([1, 2, 2, 3]))
        if rng.random() < 0.35 and len(comps) > 1:
            k = rng.randrange(len(comps))
            c2 = list(comps)
            c2[k] = ('>', c2[k][1])
            if rng.random() < 0.5:
                c2 = c2[k:]
            sl = {rng.randrange(len(c2)): rng.choice(K16.SLICES)} if rng.random() < 0.4 else {}
            body = K16.join_path(c2, sl)
            if body.startswith('>') and rng.random() < 0.5:
                body = body[1:]
            with_selectors(body, 1)
    labels = sorted(labels)
    rng.shuffle(labels)
    for lab in labels[:max(2, budget // 8)]:
        body = rng.choice(['%s', '%s', '>%s', '/%s', '%s[0]', '%s[-1]', '%s[::-1]', '%s[1:]']) % lab
        with_selectors(body, rng.choice([1, 2]))
    add('', '999999')
    add('@[::-1]', '999999')
    return out[:budget + 10]


def mk_expr(sel, body):
    """a selector needs a separator before the first id"""
    if sel and body[0] not in '/>':
        return sel + '>' + body
    return sel + body


# ---------------------------------------------------------------------------------------------
# implementation side
def run_level(script, arg, msg):
    """-> ('ok', variables) | (error tag, None)"""
    from pybufrkit.script import ScriptRunner
    try:
        return 'ok', ScriptRunner(script, data_values_nest_level=arg).run(msg)
    except RecursionError:
        return 'err:other', None
    except Exception as e:  # noqa
        return core.err_tag(e), None


def by_argument(q, lv, blanks):
    return 'x = ${%s%s%s}' % (blanks[0], q, blanks[1]), lv


def by_pragma(q, lv, blanks):
    return '#$ %s = %d\nx = ${%s%s%s}' % (KEY, lv, blanks[0], q, blanks[1]), None


def show(v):
    return json.dumps(canon(v), default=repr)[:260]


def exec_worker(task):
    """everything for one message.  task: dict(b, ids, seed, budget, n_scripts, name, corpus, model, queries=None|[..])"""
    try:
        return _exec_worker(task)
    except core.MachineryError as e:
        return {'harness_error': 'machinery: %s' % e}
    except Exception:  # noqa
        return {'harness_error': traceback.format_exc()[-2000:]}


def _exec_worker(task):
    from pybufrkit.decoder import Decoder
    from pybufrkit.dataquery import DataQuerent, NodePathParser
    from pybufrkit.mdquery import MetadataQuerent, MetadataExprParser
    b = task['b']
    name = task.get('name') or 'generated'
    counts = {}

    def cnt(k, n=1):
        counts[k] = counts.get(k, 0) + n

    try:
        msg = Decoder().process(b, file_path=name, wire_template_data=False)
    except Exception as e:  # noqa
        return {'skip': 'decode:' + core.err_tag(e)}
    td = msg.template_data.value
    n_sub = msg.n_subsets.value
    comp = bool(msg.is_compressed.value)
    lens = [len(v) for v in td.decoded_values_all_subsets]
    if lens and max(lens) > task.get('max_values', 5000):
        return {'skip': 'large'}
    try:
        msg.wire()
    except Exception as e:  # noqa
        return {'skip': 'wire-fails:' + core.err_tag(e)}
    rng = random.Random(task['seed'])
    if task.get('queries') is None:
        sub_pick = list(range(n_sub)) if n_sub <= 8 else sorted(rng.sample(range(n_sub), 8))
        paths = set()
        for i in ([0] if comp else sub_pick):
            paths |= K16.tree_paths(td.decoded_nodes_all_subsets[i])
        labels = set(str(d) for i in sub_pick for d in td.decoded_descriptors_all_subsets[i])
        queries = gen_queries(rng, paths, labels, n_sub, task['budget'])
    else:
        queries = [tuple(q) for q in task['queries']]
    exprs = [mk_expr(sel, body) for sel, body in queries]
    findings = []

    def finding(kind, sig, why, expr=None, script=None, extra=None):
        findings.append({'kind': kind, 'sig': sig, 'why': why, 'query': expr, 'script': script, 'extra': extra})

    # counts of the replications (how different the subsets are)
    if not comp and n_sub > 1:
        if len(set(lens)) > 1:
            cnt('messages:subsets-of-different-length')
        if 0 < len(set(map(repr, td.decoded_values_all_subsets))) == n_sub:
            cnt('messages:all-subsets-differ')
    elif comp and n_sub > 1 and len(set(map(repr, td.decoded_values_all_subsets))) > 1:
        cnt('messages:compressed-subsets-differ')

    dq = DataQuerent(NodePathParser())
    direct = {}
    for e in exprs:
        try:
            r = dq.query(msg, e)
            direct[e] = (r.subset_indices(), r.all_values())
        except RecursionError:
            direct[e] = 'err:other'
        except Exception as ex:  # noqa
            direct[e] = core.err_tag(ex)

    qinfo = []
    levels_of = {}
    for (sel, body), e in zip(queries, exprs):
        d = direct[e]
        blanks = (rng.choice(BLANKS), rng.choice(BLANKS))
        hi = rng.choice(HIGH_LEVELS)
        hi_how = rng.choice([by_argument, by_pragma])
        runs = {}
        for lv in LEVELS:
            for how in (by_argument, by_pragma):
                script, arg = how(e, lv, blanks)
                runs[(lv, how.__name__)] = run_level(script, arg, msg)
        script, arg = hi_how(e, hi, blanks)
        runs[(hi, 'high')] = run_level(script, arg, msg)
        info = {'q': e, 'err': d if isinstance(d, str) else None, 'n_sel': 0 if isinstance(d, str) else len(d[0]),
                'reordered': False, 'differing': False}
        qinfo.append(info)
        if not isinstance(d, str):
            selx = K16.select_subsets(K16.parse_path(e).subset_slice, n_sub)
            if isinstance(selx, str):
                raise core.MachineryError('selector of %r designates %s but the query is answered' % (e, selx))
            flats = [repr(py_flat(x)) for x in d[1]]
            info['reordered'] = selx != sorted(selx)
            info['differing'] = len(set(flats)) > 1
            info['all_differ'] = len(flats) > 1 and len(set(flats)) == len(flats)
            info['nonempty'] = any(py_flat(x) for x in d[1])
            info['has_empty_subset'] = any(not py_flat(x) for x in d[1]) and info['nonempty']
            info['nested'] = any(isinstance(y, list) for x in d[1] for y in x)
        tags = sorted(set(st for st, _ in runs.values()))
        # (c) the script fails exactly when the query fails, in the same family
        if isinstance(d, str):
            if tags != [d]:
                finding('violation', {'kind': 'execution-differs'},
                        'the query raises %s, the scripts "x = ${%s}" at levels 0,1,2,4,%d end with %s' % (d, e, hi, tags), e)
            continue
        if tags != ['ok']:
            bad = [(k, st) for k, (st, _) in sorted(runs.items()) if st != 'ok'][0]
            finding('violation', {'kind': 'execution-failed'},
                    'the script "x = ${%s}" at level %d (%s) fails with %s although the query itself is answered' % (e, bad[0][0], bad[0][1], bad[1]), e)
            continue
        vals = {lv: runs[(lv, 'by_argument')][1]['x'] for lv in LEVELS}
        byp = {lv: runs[(lv, 'by_pragma')][1]['x'] for lv in LEVELS}
        high = runs[(hi, 'high')][1]['x']
        idx, nested = d
        sig = why = None
        # (a) the laws on the implementation's own outputs
        bad = law_check(vals)
        if bad:
            sig, why = {'kind': 'nest-level-law'}, bad + ': level 4 %s, level 2 %s, level 1 %s, level 0 %s' % (
                show(vals[4]), show(vals[2]), show(vals[1]), show(vals[0]))
        elif not all(V.strict_equal(vals[lv], byp[lv]) for lv in LEVELS):
            lv = [lv for lv in LEVELS if not V.strict_equal(vals[lv], byp[lv])][0]
            sig, why = {'kind': 'pragma-vs-argument'}, 'level %d by pragma gives %s, by argument %s' % (lv, show(byp[lv]), show(vals[lv]))
        elif not V.strict_equal(high, vals[4]):
            sig, why = {'kind': 'nest-level-law', 'level': 'high'}, 'level %d gives %s, level 4 %s' % (hi, show(high), show(vals[4]))
        # (b) level 4 against the C16 query result, in the selector's order
        elif not V.strict_equal(vals[4], nested):
            sig, why = {'kind': 'nest-level-law', 'level': 4}, 'level 4 %s is not the query result as it is %s' % (show(vals[4]), show(nested))
        else:
            if idx != selx:
                sig, why = {'kind': 'selector-order'}, 'the result lists the subsets %s, the selector designates %s' % (idx, selx)
            else:
                d0 = direct.get(body)
                if sel and d0 is not None and not isinstance(d0, str):
                    by = dict(zip(d0[0], d0[1]))
                    want = [by[i] for i in selx]
                    for lv in (4, 2, 1, 0):
                        if not V.strict_equal(vals[lv], level_values(want, lv)):
                            sig = {'kind': 'selector-order', 'level': lv}
                            why = 'level %d is %s; the query without selector, restricted to the subsets %s in this order, gives %s' % (
                                lv, show(vals[lv]), selx, show(level_values(want, lv)))
                            break
        if sig:
            finding('violation', sig, why, e)
            continue
        levels_of[e] = dict(vals, high=high)

    # -- scripts with several queries
    mq = MetadataQuerent(MetadataExprParser())
    ok_exprs = [e for e in exprs if e in levels_of]
    n_scripts = task.get('n_scripts', 0) if ok_exprs else 0
    sinfo = []
    for _ in range(n_scripts):
        k = rng.randint(2, 6)
        chosen = [rng.choice(ok_exprs) if rng.random() < 0.75 else rng.choice(MD_EXPRS) for _ in range(k)]
        if not any(not c.startswith('%') for c in chosen):
            chosen[rng.randrange(k)] = rng.choice(ok_exprs)
        for i in range(1, k):
            if rng.random() < 0.3:
                chosen[i] = chosen[rng.randrange(i)]
        arg = rng.choice([None, None, 0, 1, 2, 4, rng.choice(HIGH_LEVELS)])
        prag = rng.choice([None, 0, 1, 2, 4, 4, rng.choice(HIGH_LEVELS)])
        lines = []
        for i, e in enumerate(chosen):
            lines.append('y%d = ${%s%s%s}' % (i, rng.choice(BLANKS), e, rng.choice(BLANKS)))
            if rng.random() < 0.2:
                lines.append("s%d = '${%s}' # ${%s}" % (i, rng.choice(exprs), rng.choice(exprs)))
        lines.append('fn = PBK_FILENAME')
        script = rng.choice(['\n', '\n', '; ']).join(lines) if not any("'" in l for l in lines) else '\n'.join(lines)
        if prag is not None:
            script = '#$ %s = %d\n' % (KEY, prag) + script
        level = arg if arg is not None else (prag if prag is not None else 1)
        st, out = run_level(script, arg, msg)
        sinfo.append({'script': script, 'arg': arg, 'n': k})
        cnt('scripts:level-%s' % ('high' if level >= 3 and level != 4 else level))
        if st != 'ok':
            finding('violation', {'kind': 'execution-failed'},
                    'the script %r (argument %r) fails with %s although every query in it is answered' % (script, arg, st), None, script, {'arg': arg})
            continue
        distinct = []
        for e in chosen:
            if e.strip() not in distinct:
                distinct.append(e.strip())
        want_names = ['PBK_%d' % i for i in range(len(distinct))] + ['PBK_BUFR_MESSAGE', 'PBK_FILENAME']
        got_names = [n for n in out if n.startswith('PBK_')]
        bad = None
        if got_names != want_names:
            bad = 'bound names %r, expected %r' % (got_names, want_names)
        elif out['PBK_BUFR_MESSAGE'] is not msg or out['PBK_FILENAME'] != name or out['fn'] != name:
            bad = 'message / file name not bound'
        else:
            for i, e in enumerate(distinct):
                try:
                    want = mq.query(msg, e) if e.startswith('%') else level_values(direct[e][1], level)
                except Exception as ex:  # noqa
                    bad = 'the metadata query %r raises %r' % (e, ex)
                    break
                if not V.strict_equal(out['PBK_%d' % i], want):
                    bad = 'variable PBK_%d is %s, the result of %r at level %d is %s' % (i, show(out['PBK_%d' % i]), e, level, show(want))
                    break
            for i, e in enumerate(chosen):
                if bad is None and not V.strict_equal(out['y%d' % i], out['PBK_%d' % distinct.index(e.strip())]):
                    bad = 'y%d did not receive the value of its expression %r' % (i, e)
            for n, v in out.items():
                if bad is None and n[0] == 's' and n[1:].isdigit() and not (isinstance(v, str) and v.startswith('${')):
                    bad = 'quoted ${...} was touched: %r' % (v,)
        if bad:
            finding('violation', {'kind': 'bindings'}, '%s; script %r, argument %r' % (bad, script, arg), None, script, {'arg': arg})

    # -- the model: `query` gives the per-subset values in the order of pySlice sel n
    model_rows = []
    if task.get('model', True) and exprs:
        if task.get('corpus'):
            key = msg.table_group_key
            tb, tdd = tables_io.read_group(key.wmo_tables_sn, key.local_tables_sn, key.tables_root_dir)
            treq = tables_io.tables_request(tb, tdd)
        else:
            treq = K16.group_treq()
        mr = core.Driver().batch([treq, {'op': 'query', 'ids': task['ids'], 'compressed': comp, 'n': n_sub, 'bits': C.data_bits(b),
                                         'paths': exprs}], timeout=1200)[1]
        if mr.get('wire') != 'ok':
            finding('corr', {'kind': 'correspondence', 'stage': 'wire'}, 'implementation wires, model: %s' % mr.get('wire'))
        else:
            for e, m in zip(exprs, mr['res']):
                d = direct[e]
                if m.get('parse') != 'ok':
                    if d != 'err:' + m['parse']['err']:
                        finding('corr', {'kind': 'correspondence', 'stage': 'parse'},
                                'model does not parse %r (%s), implementation: %s' % (e, m.get('parse'), K16.show(d)), e)
                    continue
                q = K16.model_result(m['q'])
                if comp and q == ([], []) and d == 'err:lib:query':
                    # finding F16c of C16 on a tree without its fix (notes/C16_fix_empty_selection_compressed.diff): compressed
                    # data, a selector that designates no subset, a path that raises; the model is the fixed code
                    cnt('model:F16c-empty-selection-on-compressed(known finding of C16)')
                    continue
                if not K16.same_result(d, q):
                    finding('corr', {'kind': 'correspondence', 'stage': 'query'}, 'implementation %s, model %s' % (K16.show(d), K16.show(q)), e)
                    continue
                cnt('model:query-agrees')
                if e in levels_of and not isinstance(q, str) and sum(len(py_flat(x)) for x in q[1]) <= 3000:
                    model_rows.append((e, q[1], levels_of[e]))
    return {'findings': findings, 'queries': qinfo, 'scripts': sinfo, 'counts': counts, 'n_subsets': n_sub, 'compressed': comp,
            'model_rows': model_rows}


# ---------------------------------------------------------------------------------------------
def build_graded(drv, treq, ids, factors, n, comp, rng):
    """a message over `ids` with `n` subsets: 001001 takes a different value in every subset, the delayed
    replications the counts `factors(rng)` draws subset by subset (compressed: the counts of the first subset
    for all).  The values are generated subset by subset (never copied from the first subset)."""
    per = [factors(rng) for _ in range(n)]
    for _ in range(20):
        if comp or n < 2 or any(p != per[0] for p in per):
            break
        per = [factors(rng) for _ in range(n)]
    if comp:
        per = [per[0]] * n
    force = {}
    for p in per:
        for k, v in p.items():
            force.setdefault(k, []).extend(v)
    n1001 = sum(1 for i in ids if i == 1001)
    start = rng.randrange(1, 60)
    force[1001] = [(start + k) % 126 for k in range(n * n1001 * 4)]
    r = drv.batch([treq, {'op': 'gen-data', 'ids': ids, 'n': n, 'shared': False, 'rnd': C.rnd_bits(rng, 12000),
                          'force': [[k, v] for k, v in sorted(force.items())]}])[1]
    if 'err' in r:
        return None, 'gen:' + r['err']
    st, b, _ = C.impl_encode(C.make_message_json(ids, P.py_inputs(r['vals']), comp))
    if st != 'ok':
        return None, 'encode:' + st
    return b, r['vals']


def build_tasks(ctx, drv):
    quick = ctx.tier == 'quick'
    treq = K16.group_treq()
    seed0 = 'C18exec:%s' % ctx.seed
    tasks = []  # (task, tag)

    def add(b, ids, tag, budget, name=None, corpus=False, n_scripts=None):
        tasks.append((dict(b=b, ids=ids, seed='%s:%d' % (seed0, len(tasks)), budget=budget, name=name, corpus=corpus,
                           n_scripts=(3 if quick else 8) if n_scripts is None else n_scripts, model=True,
                           max_values=5000 if quick else 30000), tag))

    # -- graded replication counts, a different value in every subset
    rng = ctx.rng('exec-graded')
    for ids, factors in GRADED:
        for comp in (False, True):
            for _ in range(2 if quick else 4):
                n = rng.randint(3, 7)
                b, vals = build_graded(drv, treq, ids, factors, n, comp, rng)
                if b is None:
                    ctx.count('exec-gen:graded-not-built:' + vals)
                    continue
                add(b, ids, 'graded', 36 if quick else 90)
    # -- the shapes of C09 / C16 (attributes on factors, chained attributes, 221, zero counts, marker operators)
    rng = ctx.rng('exec-shapes')
    shapes = [s for s in list(K9.SHAPES) + K16.EXTRA_SHAPES if not K16.excluded(s[0])]
    if quick:
        shapes = rng.sample(shapes, 16)
    for ids, forced, tag in shapes:
        for comp in ((rng.random() < 0.5,) if quick else (False, True)):
            b, vals = K9.build_message(drv, treq, ids, forced, rng.randint(3, 6), comp, rng)
            if b is None:
                ctx.count('exec-gen:shape-not-built')
                continue
            add(b, ids, 'shape:' + tag, 24 if quick else 80)
    # -- the generated pipeline, up to 7 subsets
    rng = ctx.rng('exec-generated')
    n_gen = 60 if quick else 900
    cases = []
    for level in (0, 1, 2):
        cases += P.gen_cases(rng, n_gen // 3, level=level, max_subsets=7)
    for c in cases:
        if c.n == 1:
            c.n = rng.randint(2, 7)
    cases = P.gen_values(drv, treq, cases, rng)
    for c in cases:
        if K16.excluded(c.ids):
            ctx.count('exec-gen:excluded-wiring-open-finding')
            continue
        st, b, _ = C.impl_encode(C.make_message_json(c.ids, P.py_inputs(c.valss), c.comp, edition=c.edition))
        if st != 'ok':
            ctx.count('exec-gen:encoder-refused')
            continue
        add(b, c.ids, 'generated', 20 if quick else 32)
    # -- files
    for fn in (FILES_QUICK if quick else FILES_THOROUGH):
        path = os.path.join(core.REPO, 'tests', 'data', fn)
        if not os.path.exists(path):
            ctx.count('exec-gen:file-missing')
            continue
        raw = K9.corpus_item(path)
        try:
            _, _, ids = P.parse_section3(raw)
        except Exception:  # noqa
            ctx.count('exec-gen:file-unparsable')
            continue
        if K16.excluded(ids):
            continue
        add(raw, ids, 'file', 30 if quick else 100, name=fn, corpus=True)
    return tasks


def report(ctx, task, f, tag):
    rep = {'message_hex': task['b'].hex() if len(task['b']) < 20000 else None, 'file': task.get('name'), 'ids': task['ids'],
           'query': f['query'], 'script': f['script'], 'extra': f['extra'], 'corpus': bool(task.get('corpus')), 'exec_generated': True}
    where = task.get('name') or 'ids %s' % (task['ids'][:30],)
    if f['query'] is not None:
        what = '%s (%s), query %r: %s' % (where, tag, f['query'], f['why'])
    else:
        what = '%s (%s): %s' % (where, tag, f['why'])
    if f['kind'] == 'violation':
        ctx.violation(what, rep, signature=f['sig'])
    else:
        ctx.corr_breaks.append({'where': where, 'query': f['query'], 'why': f['why'][:400], 'sig': f['sig']})


def run_exec_generated(ctx):
    drv = ctx.driver
    tasks = build_tasks(ctx, drv)
    pool = multiprocessing.Pool(min(15, os.cpu_count() or 2))
    try:
        order = sorted(range(len(tasks)), key=lambda i: -len(tasks[i][0]['b']))
        results = pool.map(exec_worker, [tasks[i][0] for i in order], chunksize=1)
    finally:
        pool.terminate()
    by = dict(zip(order, results))
    flat_reqs, flat_meta = [], []
    n_reordered_differing = n_neg_all_differ = 0
    for i, (task, tag) in enumerate(tasks):
        res = by[i]
        where = task.get('name') or task['ids']
        if 'harness_error' in res:
            raise core.MachineryError('execution part failed (%s): %s' % (where, res['harness_error']))
        if 'skip' in res:
            ctx.count('exec-gen:skipped:' + res['skip'])
            continue
        ctx.count('exec-gen:messages')
        ctx.count('exec-gen:messages:' + tag.split(':')[0])
        ctx.count('exec-gen:%s:%d-subsets' % ('compressed' if res['compressed'] else 'uncompressed', min(res['n_subsets'], 8)))
        for k, v in res['counts'].items():
            ctx.count('exec-gen:' + k, v)
        for q in res['queries']:
            nontrivial = q['err'] is None and q['n_sel'] > 1 and q.get('nonempty', False)
            ctx.case({'msg': where if isinstance(where, str) else task['b'].hex()[:64], 'q': q['q']}, nontrivial=nontrivial,
                     sample=nontrivial and q['reordered'] and q['differing'] and i % 9 == 0)
            ctx.count('exec-gen:queries')
            if q['err']:
                ctx.count('exec-gen:result:' + q['err'])
            else:
                ctx.count('exec-gen:result:%s' % ('values' if q.get('nonempty') else 'empty'))
                if q['n_sel'] == 0:
                    ctx.count('exec-gen:empty-selection')
                if q['reordered']:
                    ctx.count('exec-gen:reordering-selector')
                if q['reordered'] and q['differing']:
                    n_reordered_differing += 1
                    ctx.count('exec-gen:reordering-selector-on-differing-subsets:%s' % ('compressed' if res['compressed'] else 'uncompressed'))
                if q['reordered'] and q.get('all_differ'):
                    n_neg_all_differ += 1
                if q.get('has_empty_subset'):
                    ctx.count('exec-gen:some-selected-subset-without-value')
                if q.get('nested'):
                    ctx.count('exec-gen:nested-values')
        for s in res['scripts']:
            ctx.case({'msg': where if isinstance(where, str) else task['b'].hex()[:64], 'script': s['script'], 'arg': s['arg']}, nontrivial=True)
            ctx.count('exec-gen:scripts')
        done = set()
        for f in res['findings']:
            k = json.dumps(f['sig'], sort_keys=True)
            if k in done:
                continue
            done.add(k)
            report(ctx, task, f, tag)
        for e, mvals, impl_levels in res['model_rows']:
            for lv in LEVELS + [3]:
                flat_reqs.append({'op': 'flatten', 'level': lv, 'q': mvals})
                flat_meta.append((where, e, lv, impl_levels[lv] if lv != 3 else impl_levels['high']))
    # the model's flattenValues applied to the model's query result against the implementation's levels
    for (where, e, lv, impl_val), m in zip(flat_meta, drv.batch(flat_reqs)):
        ctx.traces += 1
        if not K16.same_nested(impl_val, m['res']):
            ctx.corr_breaks.append({'where': where, 'query': e, 'level': lv, 'impl': canon(impl_val), 'model': m['res']})
    ctx.count('exec-gen:model-levels-compared', len(flat_meta))
    ctx.notes.append('execution on generated messages: %d queries with a reordering selector on subsets whose results differ '
                     '(%d with pairwise different results)' % (n_reordered_differing, n_neg_all_differ))
    if n_reordered_differing < 20 and ctx.violations == 0:
        raise core.MachineryError('the generator of the execution part produced only %d queries with a reordering selector on '
                                  'subsets with different results' % n_reordered_differing)


def replay_exec(ctx, rp):
    if rp.get('message_hex'):
        b = bytes.fromhex(rp['message_hex'])
    else:
        b = K9.corpus_item(os.path.join(core.REPO, 'tests', 'data', rp['file']))
    queries = None
    if rp.get('query'):
        q = rp['query']
        sel = q[:q.index(']') + 1] if q.lstrip().startswith('@') else ''
        body = q[len(sel):].lstrip()
        queries = [(sel, body)] + ([('', body)] if sel else [])
    task = dict(b=b, ids=rp['ids'], seed='replay', budget=30, name=rp.get('file'), corpus=rp.get('corpus', False),
                n_scripts=0 if queries else 8, model=True, queries=queries, max_values=10 ** 9)
    res = exec_worker(task)
    print('replay: %s' % json.dumps(res.get('findings', res), default=repr)[:1500])
    for f in res.get('findings', []):
        report(ctx, task, f, 'replay')
    if rp.get('script'):
        from pybufrkit.decoder import Decoder
        msg = Decoder().process(b, file_path=rp.get('file') or 'generated', wire_template_data=True)
        st, out = run_level(rp['script'], (rp.get('extra') or {}).get('arg'), msg)
        print('replay: script ends with %s: %s' % (st, show({k: v for k, v in (out or {}).items() if k[0] in 'ysP' and k != 'PBK_BUFR_MESSAGE'})))
