"""
C18 — script preprocessing substitutes exactly the embedded queries.

Theorems: lean/BufrModel/Props/C18.lean (segment substitution theorem for scripts of any length,
name corollaries, metadata-only, nest-level laws, pragma precedence).
Tie: every string of length <= 6 (quick) / <= 7 (thorough) over the 9-symbol alphabet
``a ' " # $ { } \\n space`` goes through process_embedded_query_expr and through the model
(enumerated by index on both sides, 16 processes); random and small exhaustive segment assemblies
(well-formed and malformed); pragma/argument combinations through ScriptRunner and the model;
nest-level flattening of real query results through ScriptRunner and the model's `flatten`;
execution on generated messages (harness/props/c18exec.py): uncompressed and compressed multi-subset
messages whose subsets differ in values and replication counts x the child / attribute / bare-id / `>`
queries of C16 x `@` selectors of every slice shape (negative steps, out of range, empty, step 0):
levels 0, 1, 2, 4 and one level >= 3 by argument and by pragma, the three laws on the implementation's
outputs, level 4 against DataQuerent's result, against the unselected query restricted to the selected
subsets in the selector's order, and against the model (`query` then `flatten`, Props/C18Query.lean);
scripts with several data / metadata queries.
Oracle: (a) an independent regex tokenizer + global substitution table computed in Python on every
closed script, (b) the Lean specification `Spec.expected` on segment lists, (c) the laws evaluated
on the implementation alone (level 1 = concatenation of level 2, level 0 = head of level 1 or None,
level 2 = per-subset flattening of level 4, argument > pragma > default, names bound =
substitutions + PBK_BUFR_MESSAGE + PBK_FILENAME, metadata-only <=> every expression starts with %).
"""
import itertools
import json
import multiprocessing
import os
import re

from harness import core

PROP = 'C18'
ALPHABET = 'a\'"#${}\n '

META = dict(
    text='Kernel-checked theorems over the model of script.py for scripts of any length and any number of segments: for every '
         'well-formed sequence of code / single-quoted / double-quoted / comment / ${expr} segments the character state machine '
         'returns the text with each embed replaced by PBK_<index of its trimmed expression in first-occurrence order> and every '
         'other character unchanged; a script is such a segment sequence exactly when the scan ends outside literals and embeds (so the theorem covers every closed script); same expression <=> same name, table keys = the distinct trimmed expressions, bound names '
         'pairwise distinct, metadata_only <=> every expression starts with % <=> every expression is dispatched to the metadata '
         'querent, level 1 = concat(level 2), level 0 = head(level 1) or None, level 2 = per-subset leaves of level 4, argument > '
         'pragma > default, a leading `#$` line sets the level it states whatever follows. Correspondence: all strings of length <= 6 (quick) / <= 7 (thorough) over 9 symbols, random and small '
         'exhaustive segment assemblies incl. malformed ones, Unicode whitespace / line-break classes, pragma x argument grids and '
         'ScriptRunner runs on decoded test messages at levels 0,1,2,4 by argument and by pragma, compared with the model; the laws '
         'are also evaluated on the implementation alone. Link to the query model (Props/C18Query.lean): the subsets of a successful '
         'query are the index list of its `@` selector in the selector\'s order (pySlice: descending for a negative step), entry k of '
         'level 4 is the answer for the k-th selected subset as it is and entry k of level 2 its leaves, levels 2/1/0 are '
         'allValuesFlat / its concatenation / its head. Execution part: generated uncompressed and compressed multi-subset messages '
         'whose subsets carry different values and replication counts (zero included) x child / attribute / bare-id / descendant '
         'queries x `@` selectors of every slice shape (negative steps, out of range, empty, step 0) at levels 0,1,2,4 and >= 3 by '
         'argument and by pragma: the three laws, level 4 = query result = unselected result restricted in the selector\'s order = '
         'model query, levels 0-2 = model flatten of the model query; a query that raises makes the script raise in the same family; '
         'scripts with several data and metadata queries bind every name to the single-query result at the level in force.',
    technique='Lean 4 theorems (induction over segment lists with a left-to-right table invariant; structural induction over '
              'nested values) + checked model/implementation correspondence (exhaustive by index + random)',
    note='compile()/exec of the processed code and ast.literal_eval beyond unsigned decimal literals are Python itself and not '
         'modelled; literals are escape-free as in the property (the state machine has no escape handling).')

SPACES = [' ', '\t', '\n', '\r', '\x0b', '\x0c', '\x1c', '\x1f', '\x85', '\xa0', '\u2003', '\u3000']


# ---------------------------------------------------------------------------------------------
# implementation side
def impl_pre(s):
    from pybufrkit.script import process_embedded_query_expr
    try:
        code, subs = process_embedded_query_expr(s)
    except Exception as e:  # never expected: shows up as a disagreement with oracle and model
        return '<raised %s>' % core.err_tag(e), []
    return code, [[k, v] for k, v in subs.items()]


def rep(code, subs):
    return code + ''.join('|%s=%s' % (k, v) for k, v in subs)


# independent oracle: regex tokenizer (leftmost alternation), then a global table
TOKEN = re.compile(r"'[^']*'|\"[^\"]*\"|#[^\n]*(?:\n|\Z)|\$\{[^}]*\}|\$|[^'\"#$]+", re.S)


def oracle_pre(s):
    """(code, subs) the property demands, or None when `s` is not a closed script (unterminated
    literal or embed)"""
    pos = 0
    toks = []
    while pos < len(s):
        m = TOKEN.match(s, pos)
        if not m:
            return None  # a quote that is never closed
        t = m.group(0)
        if t == '$' and s[pos + 1:pos + 2] == '{':
            return None  # ${ that is never closed
        toks.append(t)
        pos = m.end()
    exprs = [t[2:-1].strip() for t in toks if t.startswith('${')]
    table = []
    for e in exprs:
        if e not in table:
            table.append(e)
    out = []
    for t in toks:
        out.append('PBK_%d' % table.index(t[2:-1].strip()) if t.startswith('${') else t)
    return ''.join(out), [[e, 'PBK_%d' % i] for i, e in enumerate(table)]


def nth_string(length, i):
    out = []
    n = len(ALPHABET)
    for _ in range(length):
        out.append(ALPHABET[i % n])
        i //= n
    return ''.join(reversed(out))


def enum_chunk(args):
    length, lo, hi = args
    drv = core.Driver()
    resp = drv.batch([{'op': 'script-enum', 'alphabet': ALPHABET, 'len': length, 'from': lo, 'to': hi}])[0]
    model = resp['res'].split(';') if hi > lo else []
    mclosed = resp['closed']
    corr, prop = [], []
    closed = with_embed = 0
    for k, i in enumerate(range(lo, hi)):
        s = nth_string(length, i)
        code, subs = impl_pre(s)
        r = rep(code, subs)
        exp = oracle_pre(s)
        if (exp is not None) != (mclosed[k] == 'C'):
            raise core.MachineryError('the oracle tokenizer and the model (closedScript) disagree on whether %r is closed' % s)
        if exp is not None:
            closed += 1
            if exp[1]:
                with_embed += 1
            if r != rep(*exp) and len(prop) < 20:
                prop.append((s, r, rep(*exp)))
        if r != model[k] and len(corr) < 20:
            corr.append((s, r, model[k]))
    return {'n': hi - lo, 'closed': closed, 'with_embed': with_embed, 'corr': corr, 'prop': prop}


# ---------------------------------------------------------------------------------------------
# segments
CODE_POOL = ['a', ' ', '\n', 'x = ', ' + ', '$', '{', '}', '$a', 'a$', '{}', 'f(', ')', '', '$$', '}{', 'print', '\\', ';']
LIT_POOL = ['', 'a', '${x}', '#', ' # ${ y } ', '\n', '$', '{', '}', '\\', "its", 'PBK_0']
COMMENT_POOL = ['', ' c', '${x}', " '", ' " ${z}', '#', '$ data_values_nest_level = 2', '$', "it's"]
EXPR_POOL = ['', 'a', ' a', 'a ', '  a\t', '%length', ' %n_subsets ', '001001', '/301001/001002[::2]', '@[0] > 020011', 'a b',
             '${', "'", '"', '#', '\n', 'a\n', '{', '$', '%', '1001', '\xa0a ', 'PBK_0']


def gen_seg(rng, malformed=False):
    k = rng.choice(['code', 'code', 'sq', 'dq', 'comment', 'embed', 'embed', 'embed'])
    if k == 'code':
        s = ''.join(rng.choice(CODE_POOL) for _ in range(rng.choice([1, 1, 2, 3])))
        if malformed and rng.random() < 0.5:
            s += rng.choice(["'", '"', '#', '${', '${a', "'${b}"])
        return ['code', s]
    if k in ('sq', 'dq'):
        s = ''.join(rng.choice(LIT_POOL + (['"'] if k == 'sq' else ["'"])) for _ in range(rng.choice([1, 1, 2])))
        if malformed and rng.random() < 0.5:
            s += "'" if k == 'sq' else '"'
        return [k, s]
    if k == 'comment':
        s = ''.join(rng.choice(COMMENT_POOL) for _ in range(rng.choice([1, 1, 2])))
        nl = True
        if malformed and rng.random() < 0.5:
            if rng.random() < 0.5:
                s += '\n' + rng.choice(COMMENT_POOL)
            else:
                nl = False
        return ['comment', s, nl]
    e = rng.choice(EXPR_POOL)
    if rng.random() < 0.4:
        e = rng.choice(SPACES) * rng.randint(0, 2) + e + rng.choice(SPACES) * rng.randint(0, 2)
    if malformed and rng.random() < 0.4:
        e += '}' + rng.choice(['', 'a', '}'])
    return ['embed', e]


def gen_segs(rng, malformed=False):
    n = rng.choice([1, 2, 3, 5, 8, 13, 20, 30])
    segs = [gen_seg(rng, malformed and rng.random() < 0.3) for _ in range(n)]
    # repeated expressions: copy earlier embeds, with different surrounding blanks
    embeds = [s for s in segs if s[0] == 'embed']
    for i, s in enumerate(segs):
        if s[0] == 'embed' and embeds and rng.random() < 0.4:
            e = rng.choice(embeds)[1].strip()
            segs[i] = ['embed', rng.choice(['', ' ', '\t ', '\n']) + e + rng.choice(['', ' ', '  '])]
    if not malformed and rng.random() < 0.3:
        segs.append(['comment', rng.choice(COMMENT_POOL), False])
    return segs


def py_render(seg):
    k = seg[0]
    if k == 'code':
        return seg[1]
    if k == 'sq':
        return "'" + seg[1] + "'"
    if k == 'dq':
        return '"' + seg[1] + '"'
    if k == 'comment':
        return '#' + seg[1] + ('\n' if seg[2] else '')
    return '${' + seg[1] + '}'


def mutate_text(rng, s):
    if not s:
        return rng.choice(ALPHABET)
    i = rng.randrange(len(s) + 1)
    c = rng.choice(ALPHABET + '\\\t')
    k = rng.random()
    if k < 0.34:
        return s[:i] + c + s[i:]
    if k < 0.67 and i < len(s):
        return s[:i] + s[i + 1:]
    i = min(i, len(s) - 1)
    return s[:i] + c + s[i + 1:]


def fails(s):
    exp = oracle_pre(s)
    if exp is None:
        return False
    code, subs = impl_pre(s)
    return [code, subs] != [exp[0], exp[1]]


def shrink_string(s):
    """greedy chunk deletion while the implementation still disagrees with the oracle on a closed script"""
    if not fails(s):
        return s
    n = max(1, len(s) // 2)
    while n >= 1:
        i = 0
        while i < len(s):
            t = s[:i] + s[i + n:]
            if fails(t):
                s = t
            else:
                i += n
        n //= 2
    return s


def pre_signature(s, impl, expected):
    """structural signature of a disagreement between implementation and specification"""
    if impl[1] != expected[1]:
        return {'kind': 'substitution-table'}
    return {'kind': 'code-string'}


def check_segs(ctx, seg_lists, label):
    resp = ctx.driver.batch([{'op': 'script-segs', 'segs': segs} for segs in seg_lists])
    for segs, m in zip(seg_lists, resp):
        text = ''.join(py_render(s) for s in segs)
        if text != m['text']:
            raise core.MachineryError('assemble differs between harness and Spec for %r' % (segs,))
        code, subs = impl_pre(text)
        n_embed = sum(1 for s in segs if s[0] == 'embed')
        ctx.case({'segs': segs}, nontrivial=bool(m['wf']) and n_embed > 0, sample=(ctx.evaluations % 397 == 0))
        ctx.traces += 1
        ctx.count('%s:%s' % (label, 'wf' if m['wf'] else 'not-wf'))
        exp = oracle_pre(text)
        bad = None
        if m['wf']:
            if exp is None:
                raise core.MachineryError('Spec.wfList holds but the regex oracle calls %r open' % text)
            if [code, subs] != [m['exp_code'], m['exp_subs']]:
                bad = (m['exp_code'], m['exp_subs'], 'Lean specification')
        if bad is None and exp is not None and [code, subs] != [exp[0], exp[1]]:
            bad = (exp[0], exp[1], 'regex oracle')
        if bad:
            small = shrink_string(text)
            if small != text and fails(small):
                sc, ss = impl_pre(small)
                so = oracle_pre(small)
                ctx.violation('preprocessing of %r (shrunk): implementation gives %r %r, the property demands %r %r' % (small, sc, ss, so[0], so[1]),
                              {'string': small, 'from': text, 'impl': [sc, ss], 'expected': [so[0], so[1]]},
                              signature=pre_signature(small, [sc, ss], so))
            else:
                ctx.violation('preprocessing of %r: implementation gives %r %r, %s demands %r %r' % (text, code, subs, bad[2], bad[0], bad[1]),
                              {'string': text, 'segs': segs, 'impl': [code, subs], 'expected': [bad[0], bad[1]]},
                              signature=pre_signature(text, [code, subs], bad))
        elif [code, subs] != [m['code'], m['subs']]:
            ctx.corr_breaks.append({'string': text, 'impl': [code, subs], 'model': [m['code'], m['subs']]})


def check_strings(ctx, strings, label):
    resp = ctx.driver.batch([{'op': 'script', 's': s} for s in strings])
    for s, m in zip(strings, resp):
        code, subs = impl_pre(s)
        exp = oracle_pre(s)
        ctx.case({'s': s}, nontrivial=exp is not None and bool(subs), sample=(ctx.evaluations % 397 == 0))
        ctx.traces += 1
        ctx.count('%s:%s' % (label, 'closed' if exp is not None else 'open'))
        if (exp is not None) != m['closed']:
            raise core.MachineryError('the oracle tokenizer and the model (closedScript) disagree on whether %r is closed' % s)
        if exp is not None and [code, subs] != [exp[0], exp[1]]:
            small = shrink_string(s)
            sc, ss = impl_pre(small)
            so = oracle_pre(small)
            ctx.violation('preprocessing of %r: implementation gives %r %r, the property demands %r %r' % (small, sc, ss, so[0], so[1]),
                          {'string': small, 'from': s, 'impl': [sc, ss], 'expected': [so[0], so[1]]},
                          signature=pre_signature(small, [sc, ss], so))
        elif [code, subs] != [m['code'], m['subs']]:
            ctx.corr_breaks.append({'string': s, 'impl': [code, subs], 'model': [m['code'], m['subs']]})


# ---------------------------------------------------------------------------------------------
# runner attributes: pragma, argument, metadata_only, bound names
KEY = 'data_values_nest_level'


def impl_runner(s, arg):
    from pybufrkit.script import ScriptRunner
    try:
        r = ScriptRunner(s, data_values_nest_level=arg)
    except Exception as e:  # the generated bodies are valid Python: only the pragma can fail
        return {'level': core.err_tag(e)}
    return {'level': r.pragma[KEY], 'metadata_only': r.metadata_only,
            'names': list(r.substitutions.values()) + ['PBK_BUFR_MESSAGE', 'PBK_FILENAME']}


def impl_pragma_only(s):
    """process_pragma without compile(): for code that is not Python"""
    from pybufrkit.script import ScriptRunner, process_embedded_query_expr
    r = ScriptRunner.__new__(ScriptRunner)
    r.code_string, r.substitutions = process_embedded_query_expr(s)
    r.pragma = {KEY: 1}
    try:
        r.process_pragma()
    except Exception as e:
        return core.err_tag(e)
    return r.pragma[KEY]


def pragma_cases(rng, n):
    """(script, arg, expected level or None when the pragma is deliberately malformed / quirky)"""
    out = []
    bodies = ['x = 1', 'x = ${001001}', 'a = ${%length}\nb = ${ %length }', "s = '${x}' # ${y}\nz = ${%edition}", '', '# c\nx = 2']
    for _ in range(n):
        lines = []
        exp = None
        npl = rng.choice([0, 1, 1, 1, 2, 3])
        ok = True
        for _i in range(npl):
            assigns = []
            for _j in range(rng.choice([1, 1, 1, 2, 3])):
                k = rng.random()
                sp = lambda: rng.choice(['', ' ', '  ', '\t'])
                if k < 0.6:
                    lv = rng.choice([0, 1, 2, 4, 4, 3, 5, 10, 0])
                    assigns.append('%s%s%s=%s%d%s' % (sp(), KEY, sp(), sp(), lv, sp()))
                    exp = lv
                elif k < 0.8:
                    assigns.append('%sother_key%s=%s%s' % (sp(), sp(), sp(), rng.choice(['1', 'abc', '', '[1, 2]'.replace(',', ';')])))
                else:
                    ok = False
                    assigns.append(rng.choice(['', 'x', 'a=b=c', KEY + '=abc', KEY + '=', KEY + '=01', KEY + ' 4', '=', KEY + '=1 2']))
            first = rng.choice(['#$ ', '#$ ', '#$ ', '#$\t', '#$x']) if rng.random() < 0.9 else '#$'
            if first == '#$':
                ok = False
            lines.append(first + ','.join(assigns))
        body = rng.choice(bodies)
        if rng.random() < 0.3:
            # a pragma that comes too late is not a pragma
            body = body + '\n#$ %s = 2' % KEY if body else 'y = 0\n#$ %s = 2' % KEY
        script = '\n'.join(lines + [body])
        arg = rng.choice([None, None, 0, 1, 2, 4])
        out.append((script, arg, (exp if ok else 'unspecified')))
    return out


def check_runners(ctx, cases, label):
    resp = ctx.driver.batch([{'op': 'script', 's': s, 'arg': a} for s, a, _ in cases])
    for (s, a, exp), m in zip(cases, resp):
        r = impl_runner(s, a)
        mm = {k: m[k] for k in ('level', 'metadata_only', 'names') if k in m}
        ctx.case({'s': s, 'arg': a}, nontrivial=s.startswith('#$') or a is not None, sample=(ctx.evaluations % 397 == 0))
        ctx.traces += 1
        ctx.count(label + (':arg' if a is not None else ':noarg') + (':pragma' if s.startswith('#$') else ':nopragma'))
        bad = None
        if exp != 'unspecified':
            want = a if a is not None else (exp if exp is not None else 1)
            if r['level'] != want:
                bad = 'nest level %r, expected %r (argument %r, pragma %r, default 1)' % (r['level'], want, a, exp)
        if bad is None and not isinstance(r['level'], str):
            code, subs = impl_pre(s)
            want_md = all(k.startswith('%') for k, _ in subs)
            if r['metadata_only'] != want_md:
                bad = 'metadata_only is %r but the expressions are %r' % (r['metadata_only'], [k for k, _ in subs])
            elif r['names'][:-2] != [v for _, v in subs] or len(set(r['names'])) != len(r['names']):
                bad = 'bound names %r' % (r['names'],)
        if bad:
            ctx.violation('ScriptRunner(%r, data_values_nest_level=%r): %s' % (s, a, bad), {'script': s, 'arg': a, 'impl': r, 'model': mm},
                          signature={'kind': 'runner', 'what': bad.split(' ')[0]})
        elif r != mm:
            ctx.corr_breaks.append({'script': s, 'arg': a, 'impl': r, 'model': mm})


# ---------------------------------------------------------------------------------------------
# execution on decoded messages
MESSAGE_FILES = ['contrived.bufr', '207003.bufr', 'profiler_european.bufr', 'g2nd_208.bufr']
MESSAGE_FILES_THOROUGH = MESSAGE_FILES + ['b002_95.bufr', 'ISMD01_OKPR.bufr', 'uegabe.bufr', 'jaso_214.bufr']
LEVELS = [0, 1, 2, 4]
MD_EXPRS = ['%length', '%edition', '%n_subsets', '%originating_centre', '%is_compressed', '%1.length', '%master_table_number']


def py_flat(v):
    out = []
    for x in v:
        if isinstance(x, list):
            out += py_flat(x)
        else:
            out.append(x)
    return out


def canon(v):
    """values -> comparable / JSON-able (bytes and floats by repr)"""
    if isinstance(v, list):
        return [canon(x) for x in v]
    if isinstance(v, (bytes, float)):
        return repr(v)
    return v


def label_leaves(v, table):
    if isinstance(v, list):
        return [label_leaves(x, table) for x in v]
    table.append(v)
    return 'v%d' % (len(table) - 1)


def unlabel(v, table):
    if isinstance(v, list):
        return [unlabel(x, table) for x in v]
    if v is None:
        return None
    return table[int(v[1:])]


def queries_for(rng, msg, n):
    ids = []
    for d in msg.template_data.value.decoded_descriptors_all_subsets[0]:
        s = str(d)
        if s not in ids:
            ids.append(s)
    top = ['%06d' % x for x in msg.unexpanded_descriptors.value]
    qs = []
    for _ in range(n):
        i = rng.choice(ids)
        form = rng.choice(['%s', '%s', '>%s', '/%s', '@[0] > %s', '@[-1]>%s', '@[::2] > %s', '%s[0]', '%s[::2]', '%s[-1]', '/%s > ' + i, '@[5] > %s',
                           '@[::-1] > %s', '@[-1::-2]>%s', '@[3:0:-1] %s', '@[:-3:-1]/%s'])
        q = form % (rng.choice(top) if form.startswith('/%s >') else i)
        qs.append(q)
    qs.append('999999')
    return qs


def law_check(vals):
    """the nest-level laws on the implementation's own results; vals: level -> value"""
    l0, l1, l2, l4 = vals[0], vals[1], vals[2], vals[4]
    if not isinstance(l2, list) or not all(isinstance(x, list) for x in l2):
        return 'level 2 is not a list of lists'
    if l1 != [x for sub in l2 for x in sub]:
        return 'level 1 is not the concatenation of level 2'
    if l0 != (l1[0] if len(l1) > 0 else None) or (len(l1) > 0 and type(l0) is not type(l1[0])):
        return 'level 0 is not the first element of level 1 (or None)'
    if not isinstance(l4, list) or len(l4) != len(l2) or any(py_flat(a) != b for a, b in zip(l4, l2)):
        return 'level 2 is not the per-subset flattening of level 4'
    return None


def run_exec(ctx, rng):
    from pybufrkit.decoder import Decoder
    from pybufrkit.script import ScriptRunner
    from pybufrkit.dataquery import DataQuerent, NodePathParser, QueryResult
    from pybufrkit.mdquery import MetadataQuerent, MetadataExprParser
    from pybufrkit.errors import PyBufrKitError
    dec = Decoder()
    dq = DataQuerent(NodePathParser())
    mq = MetadataQuerent(MetadataExprParser())
    files = MESSAGE_FILES if ctx.tier == 'quick' else MESSAGE_FILES_THOROUGH
    nq = 14 if ctx.tier == 'quick' else 60
    flat_reqs, flat_meta = [], []
    for fn in files:
        raw = open(os.path.join(core.REPO, 'tests', 'data', fn), 'rb').read()
        msg = dec.process(raw, file_path=fn, wire_template_data=True)
        info = dec.process(raw, file_path=fn, info_only=True)
        for q in queries_for(rng, msg, nq):
            try:
                direct = dq.query(msg, q)
            except (PyBufrKitError, IndexError):  # rejected expression / subset index out of range: C15, C16
                ctx.count('exec:query-rejected')
                continue
            nested = list(direct.results.values())
            vals, by_pragma = {}, {}
            try:
                for lv in LEVELS:
                    vals[lv] = ScriptRunner('x = ${ %s }' % q, data_values_nest_level=lv).run(msg)['x']
                    by_pragma[lv] = ScriptRunner('#$ %s = %d\nx = ${%s}' % (KEY, lv, q)).run(msg)['x']
            except Exception as e:
                ctx.case({'file': fn, 'query': q}, nontrivial=True)
                ctx.violation('%s: the script "x = ${%s}" fails although the query itself is answered: %r' % (fn, q, e),
                              {'file': fn, 'query': q, 'error': repr(e)}, signature={'kind': 'execution-failed'})
                continue
            nontrivial = any(isinstance(x, list) for sub in nested for x in sub) or len(nested) > 1
            ctx.case({'file': fn, 'query': q}, nontrivial=nontrivial, sample=(ctx.evaluations % 97 == 0))
            ctx.count('exec:' + fn)
            sig = None
            bad = law_check(vals)
            if bad:
                sig = {'kind': 'nest-level-law'}
            elif canon(vals) != canon(by_pragma):
                bad, sig = 'levels given by pragma and by argument give different values', {'kind': 'pragma-vs-argument'}
            elif canon(vals[4]) != canon(nested):
                bad, sig = 'level 4 is not the query result as it is', {'kind': 'nest-level-law', 'level': 4}
            if bad:
                ctx.violation('%s, query %r: %s' % (fn, q, bad), {'file': fn, 'query': q, 'values': canon(vals), 'by_pragma': canon(by_pragma)},
                              signature=sig)
                continue
            # the model's flatten on the same nested values (leaves labelled by position)
            table = []
            labelled = label_leaves(nested, table)
            for lv in LEVELS:
                flat_reqs.append({'op': 'flatten', 'level': lv, 'q': labelled})
                flat_meta.append((fn, q, lv, table, vals[lv]))
        # bound variables: mixed metadata/data script
        for _ in range(3 if ctx.tier == 'quick' else 12):
            exprs = [rng.choice(MD_EXPRS + queries_for(rng, msg, 3)) for _ in range(rng.randint(1, 5))]
            lv = rng.choice(LEVELS)
            script = '\n'.join('y%d = ${%s%s%s}' % (i, rng.choice(['', ' ']), e, rng.choice(['', ' ', '\t'])) for i, e in enumerate(exprs))
            script += "\ns = '${not an expr}' # ${neither}\nfn = PBK_FILENAME\nm = PBK_BUFR_MESSAGE"
            try:
                for e in exprs:
                    (mq if e.startswith('%') else dq).query(msg, e)
            except (PyBufrKitError, IndexError):
                ctx.count('exec:script-query-rejected')
                continue
            try:
                runner = ScriptRunner(script, data_values_nest_level=lv)
                variables = runner.prepare_variables(msg)
                out = runner.run(msg)
            except Exception as e:
                ctx.case({'file': fn, 'script': script, 'level': lv}, nontrivial=True)
                ctx.violation('%s: script %r fails although every query in it is answered: %r' % (fn, script, e),
                              {'file': fn, 'script': script, 'level': lv, 'error': repr(e)}, signature={'kind': 'execution-failed'})
                continue
            model = ctx.driver.batch([{'op': 'script', 's': script, 'arg': lv}])[0]
            ctx.case({'file': fn, 'script': script, 'level': lv}, nontrivial=True)
            ctx.traces += 1
            ctx.count('exec:bindings')
            distinct = []
            for e in exprs:
                if e.strip() not in distinct:
                    distinct.append(e.strip())
            bad = None
            want_names = ['PBK_%d' % i for i in range(len(distinct))] + ['PBK_BUFR_MESSAGE', 'PBK_FILENAME']
            if list(variables.keys()) != want_names:
                bad = 'bound names %r, expected %r' % (list(variables.keys()), want_names)
            elif variables['PBK_BUFR_MESSAGE'] is not msg or variables['PBK_FILENAME'] != fn or out['fn'] != fn or out['m'] is not msg:
                bad = 'message / file name not bound'
            elif out['s'] != '${not an expr}':
                bad = 'quoted ${...} was touched'
            else:
                for i, e in enumerate(distinct):
                    if e.startswith('%'):
                        want = mq.query(msg, e)
                    else:
                        nested = list(dq.query(msg, e).results.values())
                        l2 = [py_flat(x) for x in nested]
                        l1 = [x for sub in l2 for x in sub]
                        want = {0: (l1[0] if l1 else None), 1: l1, 2: l2, 4: nested}[lv]
                    if canon(variables['PBK_%d' % i]) != canon(want):
                        bad = 'variable PBK_%d is not the result of %r at level %d' % (i, e, lv)
                        break
                for i, e in enumerate(exprs):
                    if bad is None and canon(out['y%d' % i]) != canon(variables['PBK_%d' % distinct.index(e.strip())]):
                        bad = 'y%d did not receive the value of its expression' % i
            if bad:
                ctx.violation('%s: %s; script %r' % (fn, bad, script), {'file': fn, 'script': script, 'level': lv},
                              signature={'kind': 'bindings'})
            elif model.get('names') != list(variables.keys()) or model.get('level') != lv:
                ctx.corr_breaks.append({'script': script, 'impl': list(variables.keys()), 'model': model})
        # metadata-only: a script whose expressions all start with % runs on the info-only message
        for _ in range(2 if ctx.tier == 'quick' else 8):
            exprs = [rng.choice(MD_EXPRS) for _ in range(rng.randint(1, 4))]
            script = '\n'.join('y%d = ${%s%s}' % (i, rng.choice(['', ' ', '\n']), e) for i, e in enumerate(exprs))
            try:
                runner = ScriptRunner(script)
                mixed = ScriptRunner(script + '\nz = ${%06d}' % msg.unexpanded_descriptors.value[0])
            except Exception as e:
                ctx.violation('%s: ScriptRunner(%r) fails: %r' % (fn, script, e), {'file': fn, 'script': script, 'error': repr(e)},
                              signature={'kind': 'execution-failed'})
                continue
            ctx.case({'file': fn, 'script': script, 'md': True}, nontrivial=True)
            ctx.count('exec:metadata-only')
            bad = None
            if runner.metadata_only is not True or mixed.metadata_only is not False:
                bad = 'metadata_only is %r for %r and %r with a data query added' % (runner.metadata_only, exprs, mixed.metadata_only)
            else:
                try:
                    a, b = runner.run(info), runner.run(msg)
                    if any(canon(a['y%d' % i]) != canon(b['y%d' % i]) for i in range(len(exprs))):
                        bad = 'metadata-only script gives different values on the info-only message'
                except Exception as e:
                    bad = 'metadata-only script fails on the info-only message: %r' % (e,)
            if bad:
                ctx.violation('%s: %s' % (fn, bad), {'file': fn, 'script': script}, signature={'kind': 'metadata-only'})
    resp = ctx.driver.batch(flat_reqs)
    for (fn, q, lv, table, impl_val), m in zip(flat_meta, resp):
        ctx.traces += 1
        if canon(unlabel(m['res'], table)) != canon(impl_val):
            ctx.corr_breaks.append({'file': fn, 'query': q, 'level': lv, 'impl': canon(impl_val), 'model': canon(unlabel(m['res'], table))})


def synthetic_flatten(ctx, rng):
    """flatten_data_values on synthetic QueryResults (deeper / emptier nestings than the files give)"""
    from pybufrkit.script import ScriptRunner
    from pybufrkit.dataquery import QueryResult

    def gen_val(depth):
        if depth == 0 or rng.random() < 0.45:
            return rng.choice([0, 1, -7, None, 2.5, b'ab', 'v%d' % rng.randrange(50)])
        return [gen_val(depth - 1) for _ in range(rng.choice([0, 1, 2, 3]))]

    n = 300 if ctx.tier == 'quick' else 5000
    reqs, meta = [], []
    for _ in range(n):
        nsub = rng.choice([0, 1, 1, 2, 3, 6])
        nested = [[gen_val(rng.choice([0, 1, 2, 4])) for _ in range(rng.choice([0, 1, 2, 4]))] for _ in range(nsub)]
        qr = QueryResult()
        for i, vs in enumerate(nested):
            qr.add_subset(i * 2, vs)
        vals = {lv: ScriptRunner('x = 1', data_values_nest_level=lv).flatten_data_values(qr) for lv in LEVELS + [3, 7]}
        ctx.case({'nested': canon(nested)}, nontrivial=nsub > 0, sample=(ctx.evaluations % 397 == 0))
        ctx.count('flatten:synthetic')
        bad = law_check(vals)
        if bad is None and (canon(vals[3]) != canon(nested) or canon(vals[7]) != canon(nested) or canon(vals[4]) != canon(nested)):
            bad = 'a level other than 0, 1, 2 does not return the values as they are'
        if bad:
            ctx.violation('flatten_data_values on %r: %s' % (canon(nested), bad), {'nested': canon(nested), 'values': canon(vals)},
                          signature={'kind': 'nest-level-law'})
            continue
        table = []
        labelled = label_leaves(nested, table)
        for lv in LEVELS + [3]:
            reqs.append({'op': 'flatten', 'level': lv, 'q': labelled})
            meta.append((nested, lv, table, vals[lv]))
    for (nested, lv, table, impl_val), m in zip(meta, ctx.driver.batch(reqs)):
        ctx.traces += 1
        if canon(unlabel(m['res'], table)) != canon(impl_val):
            ctx.corr_breaks.append({'nested': canon(nested), 'level': lv, 'impl': canon(impl_val), 'model': canon(unlabel(m['res'], table))})


# ---------------------------------------------------------------------------------------------
def char_classes(ctx):
    """str.strip() / str.splitlines() character classes of the model against Python, code points < 0x3100"""
    cps = [i for i in range(0x3100) if not (0xd800 <= i < 0xe000) and chr(i) not in "}'\"#$"]
    strip_cases = ['${%sa%s}' % (chr(i), chr(i)) for i in cps]
    check_strings(ctx, strip_cases, 'char-class:strip')
    line_cases = ['#$ %s=2%s#$ %s=4' % (KEY, chr(i), KEY) for i in cps]
    resp = ctx.driver.batch([{'op': 'script', 's': s} for s in line_cases])
    for s, m in zip(line_cases, resp):
        r = impl_pragma_only(s)
        ctx.case({'s': s}, nontrivial=False)
        ctx.traces += 1
        ctx.count('char-class:lines')
        if r != m['level']:
            ctx.corr_breaks.append({'string': s, 'impl': r, 'model': m['level']})


def run(ctx):
    ctx.corr_breaks = []
    if os.environ.get('VERIF_C18_PARTS') == 'exec':
        # diagnosis only (notes/C18_exec_mutations.py): the execution part on generated messages alone
        from harness.props import c18exec
        ctx.rule = 'diagnosis run: execution part on generated messages only'
        c18exec.run_exec_generated(ctx)
        if ctx.corr_breaks and ctx.violations == 0:
            b = ctx.corr_breaks[0]
            ctx.violation('correspondence model<->script.py broken on %d cases; first %s' % (len(ctx.corr_breaks), json.dumps(b, default=repr)[:300]),
                          {'correspondence': 'script', 'first': b}, signature={'kind': 'correspondence'}, no_failing_input=True)
        return
    maxlen = 6 if ctx.tier == 'quick' else 7
    ctx.rule = ('exhaustive: all strings of length 0..%d over %r by index on both sides; all segment lists of length <= %d over a 14-segment '
                'pool; random segment assemblies (<= 30 segments, repeated expressions with different blanks, Unicode blanks) well-formed '
                'and malformed, each with single-character mutations; pragma x argument grid; ScriptRunner on decoded test files at levels '
                '0,1,2,4 by argument and by pragma; synthetic nested query results; generated multi-subset messages (graded replication '
                'counts, C09/C16 shapes, template generator levels 0-2, files) x existing paths with slices x `@` selectors of every slice '
                'shape x levels 0,1,2,4,>=3 by argument and pragma, and scripts with several queries. Non-trivial: closed scripts with at least one embed / '
                'scripts with a pragma or a level argument / query results with more than one subset or a nested value / generated: more than one selected subset and at least one value.'
                % (maxlen, ALPHABET, 3 if ctx.tier == 'quick' else 4))
    cdir = os.path.join(core.VERIF, 'corpus', PROP)
    if os.path.isdir(cdir):
        strings = []
        for f in sorted(os.listdir(cdir)):
            strings += json.load(open(os.path.join(cdir, f)))['strings']
        check_strings(ctx, strings, 'corpus')
    # the repo's own test scripts
    check_strings(ctx, ['length = ${%length}; v = ${001001}', 'length = ${%length}  # length = ${%length}\nsomething = ${001001}',
                        'length = ${%length}\nanother_length = ${%length}', 'print("The length is", ${%length})\na = ${%originating_centre}',
                        "a = '${001001}' + \"${%length}\" + str(${ 001001 }) # it's ${001001}\nb = ${001001 }"], 'examples')
    # 1. exhaustive strings
    tasks = []
    for L in range(0, maxlen + 1):
        total = len(ALPHABET) ** L
        step = 30000
        for lo in range(0, total, step):
            tasks.append((L, lo, min(total, lo + step)))
    with multiprocessing.Pool(min(16, os.cpu_count() or 1)) as pool:
        results = pool.map(enum_chunk, tasks, chunksize=1)
    n_enum = n_closed_embed = 0
    for (L, lo, hi), res in zip(tasks, results):
        n_enum += res['n']
        n_closed_embed += res['with_embed']
        ctx.evaluations += res['n']
        ctx.traces += res['n']
        ctx.count('enumerated:len%d' % L, res['n'])
        ctx.count('enumerated:closed', res['closed'])
        ctx.count('enumerated:closed-with-embed', res['with_embed'])
        for s, impl, exp in res['prop']:
            i, e = impl_pre(s), oracle_pre(s)
            ctx.violation('preprocessing of %r: implementation gives %r, the property demands %r' % (s, impl, exp),
                          {'string': s, 'impl': list(i), 'expected': list(e)}, signature=pre_signature(s, list(i), list(e)))
        for s, impl, model in res['corr']:
            if not any(s == p[0] for p in res['prop']):
                ctx.corr_breaks.append({'string': s, 'impl': impl, 'model': model})
    ctx.exhaustive = True
    ctx.extra_nontrivial = n_closed_embed
    ctx.notes.append('enumerated strings: %d (closed with at least one embed: %d)' % (n_enum, n_closed_embed))
    # 2. exhaustive small segment lists
    pool = [['code', 'a'], ['code', '$'], ['code', '{'], ['code', ' '], ['sq', '${a}'], ['dq', "'#"], ['comment', "${a}'", True],
            ['comment', '"', False], ['embed', 'a'], ['embed', ' a '], ['embed', '%b'], ['embed', ''], ['embed', '\t%b\n'], ['embed', '#"']]
    lists = []
    for n in range(0, (3 if ctx.tier == 'quick' else 4) + 1):
        lists += [list(t) for t in itertools.product(pool, repeat=n)]
    check_segs(ctx, lists, 'segment-lists')
    # 3. random segment assemblies
    rng = ctx.rng('segments')
    n = 3000 if ctx.tier == 'quick' else 60000
    good = [gen_segs(rng) for _ in range(n)]
    check_segs(ctx, good, 'random')
    bad = [gen_segs(rng, malformed=True) for _ in range(n // 3)]
    check_segs(ctx, bad, 'random-malformed')
    muts = []
    for segs in good[: n // 2]:
        text = ''.join(py_render(s) for s in segs)
        muts.append(mutate_text(rng, text))
    check_strings(ctx, muts, 'mutated')
    # 4. character classes
    char_classes(ctx)
    # 5. runner attributes
    rng = ctx.rng('pragma')
    grid = []
    for lv in [0, 1, 2, 4]:
        for arg in [None, 0, 1, 2, 4]:
            grid.append(('#$ %s = %d\nx = ${001001}' % (KEY, lv), arg, lv))
    for arg in [None, 0, 1, 2, 4]:
        grid.append(('x = ${%length}', arg, None))
    check_runners(ctx, grid, 'grid')
    check_runners(ctx, pragma_cases(rng, 600 if ctx.tier == 'quick' else 10000), 'random')
    # 6. execution
    run_exec(ctx, ctx.rng('exec'))
    synthetic_flatten(ctx, ctx.rng('flatten'))
    # 7. execution on generated multi-subset messages x the queries of C16 x selectors of every shape (harness/props/c18exec.py)
    from harness.props import c18exec
    c18exec.run_exec_generated(ctx)
    if ctx.corr_breaks and ctx.violations == 0:
        b = ctx.corr_breaks[0]
        ctx.violation('correspondence model<->script.py broken on %d cases although the property holds on them; first %s'
                      % (len(ctx.corr_breaks), json.dumps(b, default=repr)[:300]), {'correspondence': 'script', 'first': b},
                      signature={'kind': 'correspondence'}, no_failing_input=True)
    ctx.assumptions = ['compile()/exec of the processed code are Python itself (not modelled)',
                       'ast.literal_eval is modelled on unsigned decimal literals only; other pragma values are not generated for the comparison',
                       'literals are escape-free (the state machine treats a backslash as an ordinary character)',
                       'the substitutions dict iterates in insertion order (Python >= 3.7)']


def replay(ctx, path):
    body = json.load(open(path))
    rp = body['replay']
    ctx.corr_breaks = []
    if 'string' in rp:
        check_strings(ctx, [rp['string']], 'replay')
        print(json.dumps({'impl': impl_pre(rp['string']), 'expected': oracle_pre(rp['string'])}))
    elif rp.get('exec_generated'):
        from harness.props import c18exec
        c18exec.replay_exec(ctx, rp)
    elif 'arg' in rp:
        check_runners(ctx, [(rp['script'], rp['arg'], 'unspecified')], 'replay')
        print(json.dumps({'impl': impl_runner(rp['script'], rp['arg'])}))
    else:
        run_exec(ctx, ctx.rng('exec'))
        synthetic_flatten(ctx, ctx.rng('flatten'))
