"""
C09 on the SERIALISED path — what `pybufrkit decode [-j] [-a]` writes and `pybufrkit encode [-j] [-a]` reads back.

Theorems: lean/BufrModel/Props/C09Cli.lean over View/JsonText.lean (bytes -> JSON text -> bytes is the identity for every
octet string: latin-1 both ways, `json.dumps` escaping inverted by `json.loads`; the field code written from the JSON text
is the field code written from the bytes; latin-1 is the only serialiser with that property; UTF-8 "when valid" is refuted).
Tie (driver op `jsontext`): for every character value met, the literal the COMMAND LINE wrote for it in the flat JSON
and the nested JSON text, `json.dumps(value, **JSON_DUMPS_KWARGS)`, `json.loads` of it and the bits
`BitWriter.write_bytes(text, k)` writes (k = field width, wider, narrower) against the model; `json.dumps` / `json.loads`
of arbitrary strings and hostile literal texts against `jsonStringLiteral` / `parseStringLiteral`.
Oracle (the statement of C09 on the serialised forms, harness/cli_io.py `pipeline`): for every message the four outputs
of `main()` (argparse + commands.command_decode), read back the way command_encode reads them, carry the data of the
flat JSON file, and `encode` from each of them (file or stdin) gives the bytes of the plain re-encode.
Glue (harness/cli_io.py `glue`): encode --preamble / --append / overwrite, split, decode -m / several files, info
[-t|-c|-m], subset, query [-j [-n]], script [-f|-] against the API calls they wrap; a sample through real processes and
pipes (`python -m pybufrkit ... | python -m pybufrkit ...`).
Inputs: messages with character fields 001015 / 001019 / 001026 / 205YYY / 208YYY-resized / section 2 local bytes, plain, under
fixed and delayed replication, with associated fields, compressed (all equal / different / missing) or not, 1-3 subsets,
whose octets sweep all 256 values and cover valid 2-/3-/4-byte UTF-8, invalid UTF-8, the missing pattern, NULs, quotes /
backslashes / control characters, blanks; a sample of the other C09 streams; sample files.
"""
import json
import os
import shutil
import tempfile

from harness import core
from harness import coder_io as C
from harness import cli_io

PROP = 'C09'

WIDTH = {1015: 20, 1019: 32, 1026: 8}
CLASSES = ['sweep', 'utf8-2', 'utf8-3', 'utf8-4', 'utf8-mix', 'utf8-invalid', 'missing', 'near-missing', 'nul', 'escapes',
           'blanks', 'tricky', 'ascii']
TRICKY = [b"it's", b'say "hi"', b'both \' and "', b" b'x", b' b"x', b'a = b', b'caf\xe9 \xff\xfe', b'a\\n\\x00b', b'-> A', b'# --- 1',
          b'<<<<<<', b'######', b'3', b"x' ", b'x" ', b"'", b'"', b'\x00\x01\x7f', b'None', b'(1, [2])', b"\\'", b' = ', b'\\u00e9', b'\\',
          b'"\\', b'\\"', b'null', b'@@0@@', b'\xc3\xbc', b'Z\xc3\xbcrich', b'K\xc3\xb8benhavn', b'\xe2\x82\xac 5', b'\xf0\x9f\x98\x80',
          b'\r\n', b'\x85', b'\xe2\x80\xa8', b'\x1c\x1d\x1e', b'\x0b\x0c']
INVALID = [b'\x80', b'\xbf', b'\xc0\x80', b'\xc1\xbf', b'\xed\xa0\x80', b'\xed\xbf\xbf', b'\xf5\x80\x80\x80', b'\xf4\x90\x80\x80', b'\xc3(',
           b'\xe2\x82', b'\xe2(\xa1', b'\xf0\x9f\x98', b'\xe0\x80\x80', b'\xf0\x80\x80\x80', b'\xfe', b'\xff', b'\xc3', b'\xe2', b'\xf0']
_sweep = [0]


def utf8_char(rng, nbytes):
    lo, hi = {1: (0x20, 0x7e), 2: (0x80, 0x7ff), 3: (0x800, 0xffff), 4: (0x10000, 0x10ffff)}[nbytes]
    while True:
        cp = rng.choice([lo, hi, rng.randint(lo, hi), rng.randint(lo, hi)])
        if not 0xd800 <= cp <= 0xdfff:
            return chr(cp).encode('utf-8')


def utf8_fill(rng, n, sizes):
    """n octets of valid UTF-8 built from sequences of the given sizes (ASCII where nothing else fits)"""
    out = b''
    while len(out) < n:
        room = n - len(out)
        fit = [s for s in sizes if s <= room]
        out += utf8_char(rng, rng.choice(fit)) if fit and rng.random() < 0.8 else (b' ' if rng.random() < 0.5 else utf8_char(rng, 1))
    return out


def char_value(rng, n, cls):
    """n octets of the given class"""
    if n == 0:
        return b''
    if cls == 'sweep':
        off = _sweep[0]
        _sweep[0] = (off + n) % 256
        return bytes((off + i) % 256 for i in range(n))
    if cls in ('utf8-2', 'utf8-3', 'utf8-4'):
        return utf8_fill(rng, n, [int(cls[-1])])
    if cls == 'utf8-mix':
        return utf8_fill(rng, n, [1, 2, 3, 4])
    if cls == 'utf8-invalid':
        bad = rng.choice(INVALID)[:n]
        rest = utf8_fill(rng, n - len(bad), [1, 2]) if n > len(bad) else b''
        k = rng.choice([0, len(rest), rng.randint(0, len(rest))])
        # cut only at a character boundary of `rest` so that the invalid part stays the only invalid part
        while 0 < k < len(rest) and 0x80 <= rest[k] <= 0xbf:
            k -= 1
        return (rest[:k] + bad + rest[k:])[:n]
    if cls == 'missing':
        return b'\xff' * n
    if cls == 'near-missing':
        v = bytearray(b'\xff' * n)
        v[rng.randrange(n)] = rng.choice([0xfe, 0x7f, 0x00, 0x20, 0xc3])
        return bytes(v)
    if cls == 'nul':
        k = rng.choice(['all', 'trail', 'lead', 'mid'])
        if k == 'all':
            return b'\x00' * n
        s = utf8_fill(rng, n, [1])
        m = rng.randint(1, n)
        return {'trail': s[:n - m] + b'\x00' * m, 'lead': b'\x00' * m + s[m:], 'mid': s[:n // 2] + b'\x00' + s[n // 2 + 1:]}[k][:n]
    if cls == 'escapes':
        return bytes(rng.choice(b'"\'\\/\b\f\n\r\t\x1b\x7f\x00\x1f ab{}[],:') for _ in range(n))
    if cls == 'blanks':
        k = rng.choice(['all', 'trail', 'lead'])
        s = utf8_fill(rng, n, [1]).replace(b' ', b'x')
        m = rng.randint(1, n)
        return {'all': b' ' * n, 'trail': s[:n - m] + b' ' * m, 'lead': b' ' * m + s[m:]}[k][:n]
    if cls == 'tricky':
        s = rng.choice(TRICKY)
        return (s + b' ' * n)[:n]
    return bytes(rng.randint(0x20, 0x7e) for _ in range(n))


SHAPES = ['plain', '205', '208', 'fixrep', 'delrep', 'assoc', 'sec2', 'plain', '205', '208']


def make_case(rng, idx):
    """-> dict(ids, valss (encoder input, text one character per byte), comp, n, shape, classes, sec2)"""
    shape = SHAPES[idx % len(SHAPES)]
    comp = (idx // len(SHAPES)) % 3 == 1
    n = 1 + (idx // 3) % 3
    classes = []

    def ch(width, cls=None):
        cls = cls or CLASSES[(idx + len(classes)) % len(CLASSES)] if rng.random() < 0.7 else rng.choice(CLASSES)
        classes.append(cls)
        return ('c', width, cls)

    def num(lo, hi):
        return ('n', lo, hi)
    y = rng.choice([1, 2, 3, 5, 8, 13, 20, 33, 64, 255]) if idx % 7 else rng.randint(1, 255)
    if comp:
        y = min(y, 63)   # a compressed character column carries its width in 6 bits
    sec2 = None
    if shape in ('plain', 'sec2'):
        ids = [1001, 1015, 1019, 1026, 2001]
        slots = [num(0, 126), ch(20), ch(32), ch(8), num(0, 2)]
        if shape == 'sec2':
            sec2 = char_value(rng, rng.choice([1, 4, 17, 40]), rng.choice(CLASSES))
    elif shape == '205':
        ids = [1015, 205000 + y, 1026, 205001, 1001]
        slots = [ch(20), ch(y), ch(8), ch(1), num(0, 126)]
    elif shape == '208':
        y = min(y, 64)
        ids = [208000 + y, 1015, 1026, 208000, 1019]
        slots = [ch(y), ch(y), ch(32)]
    elif shape == 'fixrep':
        ids = [102002, 1015, 1026, 1001]
        slots = [ch(20), ch(8), ch(20), ch(8), num(0, 126)]
    elif shape == 'delrep':
        ids = [102000, 31001, 1015, 1026, 1001]
        slots = None
    else:  # assoc
        ids = [204003, 31021, 1015, 1026, 204000, 1015]
        slots = [num(1, 1), num(0, 6), ch(20), num(0, 6), ch(8), ch(20)]
    valss = []
    count = rng.randint(0, 3)
    for k in range(n):
        if slots is None:
            if not comp:
                count = rng.randint(0, 3)
            sl = [num(count, count)] + [ch(20), ch(8)] * count + [num(0, 126)]
        else:
            sl = slots
        vals = []
        for j, s in enumerate(sl):
            if s[0] == 'n':
                vals.append(rng.randint(s[1], s[2]) if rng.random() < 0.9 or s[1] == s[2] else None)
            else:
                mode = rng.random()
                if comp and k > 0 and mode < 0.35:
                    vals.append(valss[0][j] if j < len(valss[0]) and isinstance(valss[0][j], (str, type(None))) else None)  # all-equal column
                elif mode > 0.93:
                    vals.append(None)
                else:
                    vals.append(char_value(rng, s[1], s[2] if k == 0 or rng.random() < 0.5 else rng.choice(CLASSES)).decode('latin-1'))
        valss.append(vals)
    if comp and shape in ('assoc', 'delrep'):
        # structural values must agree between the subsets of compressed data
        for vals in valss[1:]:
            vals[0] = valss[0][0]
    return {'ids': ids, 'valss': valss, 'comp': comp, 'n': n, 'shape': shape, 'classes': classes, 'sec2': sec2, 'idx': idx}


def build(case):
    js = C.make_message_json(case['ids'], case['valss'], case['comp'], edition=(3, 4, 4, 2)[case['idx'] % 4],
                             sec2=case['sec2'].decode('latin-1') if case['sec2'] is not None else None)
    st, b, _ = C.impl_encode(js)
    return b if st == 'ok' else None


# ---------------------------------------------------------------------------------------------
_workdir = [None]
# stages of cli_io.pipeline that state what the MODEL says about the text (the others state the property)
MODEL_STAGES = ('ascii', 'text', 'literal', 'subprocess-text')


def workdir(base=None):
    """a scratch directory of this process (below `base`, which the parent removes at the end of the run)"""
    if _workdir[0] is None or not os.path.isdir(_workdir[0]):
        if base and os.path.isdir(base):
            _workdir[0] = os.path.join(base, 'p%d' % os.getpid())
            os.makedirs(_workdir[0], exist_ok=True)
        else:
            _workdir[0] = tempfile.mkdtemp(prefix='c09cli_')
    return _workdir[0]


def pipeline_worker(args):
    b, opts = args
    try:
        opts = dict(opts)
        r = cli_io.pipeline(b, workdir(opts.pop('base', None)), **opts)
        if r.get('decode') == 'ok':
            from pybufrkit.decoder import Decoder
            from pybufrkit.renderer import FlatJsonRenderer
            vals = cli_io.char_values(FlatJsonRenderer().render(Decoder().process(b, wire_template_data=False)))
            seen = set()
            uniq = [v for v in vals if not (v in seen or seen.add(v))]
            r['layer'] = cli_io.impl_text_layer(uniq[:400])
            r['n_char_values'] = len(vals)
            cover = set()
            for v in uniq:
                cover.update(v)
            r['octets'] = sorted(cover)
            r['classes'] = sorted({classify(v) for v in uniq})
        return r
    except Exception:  # noqa
        import traceback
        return {'harness_error': traceback.format_exc()[-1500:]}


def glue_worker(args):
    msgs, opts = args
    try:
        opts = dict(opts)
        base = opts.pop('base', None)
        d = tempfile.mkdtemp(prefix='c09glue_', dir=base if base and os.path.isdir(base) else None)
        try:
            if opts.pop('subprocess', False):
                opts['runner'] = cli_io.run_subprocess
            return cli_io.glue(msgs, d, **opts)
        finally:
            shutil.rmtree(d, ignore_errors=True)
    except Exception:  # noqa
        import traceback
        return {'harness_error': traceback.format_exc()[-1500:]}


def classify(v):
    """what kind of octet string a decoded character value is (for the evidence)"""
    if all(0x20 <= x <= 0x7e for x in v):
        return 'chars:ascii'
    try:
        s = v.decode('utf-8')
        if all(ord(c) < 0x80 for c in s):
            return 'chars:ascii+control'
        m = max(len(c.encode('utf-8')) for c in s)
        return 'chars:valid-utf8-%d-byte' % m
    except UnicodeDecodeError:
        return 'chars:invalid-utf8'


# ---------------------------------------------------------------------------------------------
def report(ctx, kind, stage, why, b, extra=None):
    sig = {'kind': kind, 'stage': 'cli:' + stage.split(':')[-1], 'format': stage.split(':')[0]}
    rep = {'cli': True, 'message_hex': b.hex() if b is not None else None, 'why': why, 'stage': stage}
    rep.update(extra or {})
    ctx.violation('%s cli %s: %s' % (kind, stage, why), rep, signature=sig)


def check_layer(ctx, drv, layers, no_failing_input=False):
    """model vs implementation on the text layer of every distinct character value: literal, json.loads, field bits"""
    uniq = {}
    for it in layers:
        uniq.setdefault((it['hex'], it['k']), it)
    items = sorted(uniq.values(), key=lambda it: (it['hex'], it['k']))
    if not items:
        return
    res = drv.batch([{'op': 'jsontext', 'items': [[it['hex'], it['k']] for it in items]}])[0]['items']
    for it, m in zip(items, res):
        ctx.traces += 1
        why = None
        if it['lit'] != m['lit']:
            why = 'json.dumps(%r, **JSON_DUMPS_KWARGS) = %s, model (latin-1, C09_json_text_bytes_roundtrip): %s%s' % (
                bytes.fromhex(it['hex']), it['lit'][:100], m['lit'][:100],
                ' - the implementation writes what the refuted "UTF-8 when valid" serialiser writes (C09_utf8_when_valid_loses_roundtrip)' if it['lit'] == m['utf8'] else '')
        elif it['back'] is None or bytes(it['back']).hex() != m['back']:
            why = 'json.loads(%s) = %r, model %s' % (it['lit'][:100], it['back'], m['back'])
        elif it['field'] != m['field'] or m['field'] != m['field_direct']:
            why = 'write_bytes(<text read from JSON>, %d) writes %s, model fieldCode %s' % (it['k'], it['field'], m['field'])
        elif it.get('repr') != m.get('repr') or it.get('repr_back') != m.get('repr_back') or m.get('repr_back') != it['hex']:
            why = 'repr(%r) = %s, ast.literal_eval of it %s; model (C09_bytes_repr_roundtrip) %s, read back %s' % (
                bytes.fromhex(it['hex']), it.get('repr'), it.get('repr_back'), m.get('repr'), m.get('repr_back'))
        if why:
            ctx.violation('correspondence cli text-layer: ' + why, {'cli': True, 'layer': it, 'model': m, 'why': why},
                          signature={'kind': 'correspondence', 'stage': 'cli:text-layer'}, no_failing_input=no_failing_input)
            return


def check_strings(ctx, drv):
    """json.dumps / json.loads of arbitrary strings and literal texts against jsonStringLiteral / parseStringLiteral"""
    rng = ctx.rng('cli-strings')
    n = 300 if ctx.tier == 'quick' else 5000
    strings = [list(range(i, i + 32)) for i in range(0, 256, 32)]  # all of latin-1
    for _ in range(n):
        k = rng.randint(0, 12)
        s = []
        for _ in range(k):
            r = rng.random()
            cp = (rng.randint(0, 0x7f) if r < 0.4 else rng.randint(0x80, 0xff) if r < 0.6 else rng.randint(0x100, 0xffff) if r < 0.8
                  else rng.randint(0x10000, 0x10ffff))
            if 0xd800 <= cp <= 0xdfff:
                cp = 0xe000
            s.append(cp)
        strings.append(s)
    lits = []
    pieces = ['a', 'é', 'b c', '\\"', '\\\\', '\\/', '\\b', '\\f', '\\n', '\\r', '\\t', '\\u00e9', '\\u00E9', '\\ud83d\\ude00', '\\ud83d', '\\ude00', '\\ud83dx', '\\u12',
              '\\x41', '\\', 'a', ' ', '\t', '\n', '\x7f', 'é', '€', '"', '\\u+1a2', '\\u 123', '\\u1_23', '\\ud83d\\u0041', '\\U0041', '\\u0000', '/']
    for _ in range(n):
        body = ''.join(rng.choice(pieces) for _ in range(rng.randint(0, 5)))
        lits.append(rng.choice(['"'] * 9 + ['']) + body + rng.choice(['"'] * 9 + ['']))
    res = drv.batch([{'op': 'jsontext', 'strings': strings, 'lits': lits}])[0]
    for s, m in zip(strings, res['strings']):
        ctx.traces += 1
        text = ''.join(map(chr, s))
        lit = json.dumps(text)
        back = json.loads(lit)
        if lit != m['lit'] or m['back'] != s or back != text:
            ctx.violation('correspondence cli json-string: json.dumps(%r) = %s, model %s; read back %r / model %s' % (text, lit, m['lit'], back, m['back']),
                          {'cli': True, 'string': s, 'model': m}, signature={'kind': 'correspondence', 'stage': 'cli:json-string'}, no_failing_input=True)
            return
    agree = refused = 0
    for lit, m in zip(lits, res['lits']):
        ctx.traces += 1
        try:
            v = json.loads(lit)
            if not isinstance(v, str):
                v = None
        except ValueError:
            v = None
        # outside the model by construction (documented in View/JsonText.lean): a lone surrogate escape (no Lean Char), and the
        # forms of int(esc, 16) that are not four hexadecimal digits
        if lit != lit.strip(' \t\n\r') or v is not None and (any(0xd800 <= ord(c) <= 0xdfff for c in v) or any(x in lit for x in ('\\u+', '\\u ', '_'))):
            ctx.count('cli:json-literal-outside-model')
            continue
        if (None if v is None else [ord(c) for c in v]) != m:
            ctx.violation('correspondence cli json-literal: json.loads(%r) = %r, model %s' % (lit, v, m), {'cli': True, 'literal': lit, 'model': m},
                          signature={'kind': 'correspondence', 'stage': 'cli:json-literal'}, no_failing_input=True)
            return
        if v is None:
            refused += 1
        else:
            agree += 1
    ctx.count('cli:json-strings', len(strings))
    ctx.count('cli:json-literals-accepted', agree)
    ctx.count('cli:json-literals-refused', refused)


def run_cli(ctx, drv, pool, extra_messages=()):
    """`extra_messages`: [(tag, bytes)] sampled from the other C09 streams / sample files by the caller"""
    base = tempfile.mkdtemp(prefix='c09cli_')
    try:
        return _run_cli(ctx, drv, pool, extra_messages, base)
    finally:
        shutil.rmtree(base, ignore_errors=True)


def _run_cli(ctx, drv, pool, extra_messages, base):
    rng = ctx.rng('cli')
    quick = ctx.tier == 'quick'
    _workdir[0] = None
    workdir(base)    # the parent's own scratch directory (shrinking) lives below `base` too
    n_cases = 160 if quick else 3000
    n_sub = 3 if quick else 24       # messages whose four pipelines also run through real processes
    _sweep[0] = 0
    cases = []
    for i in range(n_cases):
        c = make_case(rng, i)
        b = build(c)
        if b is None:
            ctx.count('cli:encoder-refused')
            continue
        c['b'] = b
        cases.append(c)
    jobs = [(c['b'], {'subprocess_too': k < n_sub, 'via': None, 'base': base}) for k, c in enumerate(cases)]
    jobs += [(b, {'base': base}) for _, b in extra_messages]
    tags = ['chars:' + c['shape'] for c in cases] + [t for t, _ in extra_messages]
    # the slow ones (real processes) first
    results = pool.map(pipeline_worker, jobs, chunksize=1)
    layers = []
    octets = set()
    reported = False
    model_problem = None
    for (b, _), tag, r in zip(jobs, tags, results):
        if 'harness_error' in r:
            raise core.MachineryError('cli pipeline failed: ' + r['harness_error'])
        if r.get('decode') != 'ok':
            ctx.count('cli:skipped:' + str(r.get('decode')))
            continue
        ctx.case({'cli': tag, 'message': core.chash(b.hex())}, nontrivial=r.get('n_char_values', 0) > 0, sample=False)
        ctx.count('cli:messages')
        ctx.count('cli:stream:' + tag.split(':')[0] + (':' + tag.split(':')[1] if tag.startswith('chars:') else ''))
        ctx.count('cli:character-values', r.get('n_char_values', 0))
        for k, v in r['stats'].items():
            ctx.count('cli:' + k, v)
        for cl in r.get('classes', []):
            ctx.count('cli:' + cl)
        if not r.get('ref_is_input'):
            ctx.count('cli:re-encode-differs-from-input')
        octets.update(r.get('octets', []))
        layers += r.get('layer', [])
        # literal the command line wrote for a value vs json.dumps of the value alone
        by_hex = {}
        for it in r.get('layer', []):
            by_hex[it['hex']] = it['lit']
        for hx, lits in r['lits'].items():
            if hx in by_hex and lits != [by_hex[hx]]:
                r['problems'].append(('flat_json:literal', 'the command line wrote %s for %r, json.dumps(value, **JSON_DUMPS_KWARGS) gives %s' % (
                    lits, bytes.fromhex(hx), by_hex[hx])))
        for stage, why in r['problems']:
            if stage.split(':')[-1] in MODEL_STAGES:
                # a statement of the model about the text, not the property: reported after the run, as a violation with a
                # failing input only when the oracle found one too
                if model_problem is None:
                    model_problem = (stage, why, b, tag)
            elif not reported:
                small = shrink_chars(b, stage) if tag.startswith('chars:') else None
                report(ctx, 'oracle', stage, (small or (b, why))[1], (small or (b, why))[0], extra={'tag': tag})
                reported = True
    ctx.count('cli:octet-values-covered', len(octets))
    if model_problem is not None:
        stage, why, b, tag = model_problem
        ctx.violation('correspondence cli %s: %s' % (stage, why), {'cli': True, 'message_hex': b.hex(), 'why': why, 'stage': stage, 'tag': tag},
                      signature={'kind': 'correspondence', 'stage': 'cli:' + stage.split(':')[-1]}, no_failing_input=not reported)
    check_layer(ctx, drv, layers, no_failing_input=not reported)
    check_strings(ctx, drv)
    # -- the other sub-commands
    groups = []
    multi = [c for c in cases if c['n'] >= 2]
    for k in range(6 if quick else 60):
        a = multi[(k * 7) % len(multi)]
        others = [cases[(k * 11 + 3) % len(cases)], cases[(k * 13 + 5) % len(cases)]]
        groups.append(([a['b']] + [o['b'] for o in others], {'char_id': '001015' if 1015 in a['ids'] else '001026', 'light': False, 'base': base}))
    for k in range(1 if quick else 6):
        a = multi[(k * 5 + 1) % len(multi)]
        groups.append(([a['b'], cases[(k * 3 + 2) % len(cases)]['b']], {'char_id': '001015', 'light': True, 'subprocess': True, 'base': base}))
    for (msgs, opts), r in zip(groups, pool.map(glue_worker, groups, chunksize=1)):
        if 'harness_error' in r:
            raise core.MachineryError('cli glue failed: ' + r['harness_error'])
        ctx.case({'cli-glue': [core.chash(m.hex()) for m in msgs], 'opts': sorted(k for k in opts if k != 'base')}, nontrivial=True)
        ctx.count('cli:glue-groups' + (':subprocess' if opts.get('subprocess') else ''))
        for k, v in r['stats'].items():
            ctx.count('cli:glue-' + k, v)
        if r['problems']:
            stage, why = r['problems'][0]
            ctx.violation('oracle cli glue %s: %s' % (stage, why), {'cli': True, 'glue': [m.hex() for m in msgs], 'opts': {k: v for k, v in opts.items() if k != 'base'},
                                                                    'stage': stage, 'why': why},
                          signature={'kind': 'oracle', 'stage': 'cli:glue:' + stage.split(':')[0]})


def shrink_chars(b, stage):
    """smaller failing input for a message of the character stream: one subset, then blank out character values one by one
    while the same stage still fails.  -> (bytes, why) or None"""
    from pybufrkit.decoder import Decoder
    from pybufrkit.encoder import Encoder
    from pybufrkit.renderer import FlatJsonRenderer
    try:
        flat = FlatJsonRenderer().render(Decoder().process(b, wire_template_data=False))
    except Exception:  # noqa
        return None

    def fails(data):
        try:
            b2 = Encoder().process(json.loads(json.dumps(cli_io.as_text(data))), wire_template_data=False).serialized_bytes
        except Exception:  # noqa
            return None
        r = cli_io.pipeline(b2, workdir())
        for s, w in r.get('problems', []):
            if s == stage:
                return b2, w
        return None
    best = fails(flat)
    if best is None:
        return None
    data = json.loads(json.dumps(cli_io.as_text(flat)))
    subsets = data[-2][-1]
    budget = 40
    for i in range(len(subsets)):
        for j in range(len(subsets[i])):
            v = subsets[i][j]
            if isinstance(v, str) and v.strip(' ') and budget > 0:
                budget -= 1
                subsets[i][j] = ' ' * len(v)
                got = fails(data)
                if got is None:
                    subsets[i][j] = v
                else:
                    best = got
    return best


def replay_cli(ctx, rep):
    drv = ctx.driver
    if rep.get('message_hex'):
        b = bytes.fromhex(rep['message_hex'])
        r = cli_io.pipeline(b, workdir())
        print('replay: cli pipeline problems: %s' % (r.get('problems') or 'none'))
        r2 = pipeline_worker((b, {}))
        check_layer(ctx, drv, r2.get('layer', []))
        for stage, why in [p for p in r.get('problems', []) if p[0].split(':')[-1] not in MODEL_STAGES][:1]:
            report(ctx, 'oracle', stage, why, b)
        for stage, why in [p for p in r.get('problems', []) if p[0].split(':')[-1] in MODEL_STAGES][:1]:
            ctx.violation('correspondence cli %s: %s' % (stage, why), rep, signature={'kind': 'correspondence', 'stage': 'cli:' + stage.split(':')[-1]},
                          no_failing_input=True)
    elif rep.get('glue'):
        opts = dict(rep.get('opts') or {})
        r = glue_worker(([bytes.fromhex(h) for h in rep['glue']], opts))
        print('replay: cli glue problems: %s' % (r.get('problems') or 'none'))
        for stage, why in r.get('problems', [])[:1]:
            ctx.violation('oracle cli glue %s: %s' % (stage, why), rep, signature={'kind': 'oracle', 'stage': 'cli:glue:' + stage.split(':')[0]})
    elif rep.get('layer'):
        check_layer(ctx, drv, [rep['layer']])
    else:
        check_strings(ctx, drv)


# ---------------------------------------------------------------------------------------------
# `decode -m` with --filter / --continue-on-error / --ignore-value-expectation through pybufrkit.main() (cli_io.glue_stream):
# called from harness/props/c11.py (parts filter, prepbufr) and harness/props/c12.py (part damaged)
def run_stream_glue(ctx, parts, groups):
    rng = ctx.rng('cli-stream')
    base = tempfile.mkdtemp(prefix='c09cli_')
    try:
        for g in range(groups):
            msgs = []
            i = rng.randrange(10000)
            while len(msgs) < 4:
                b = build(make_case(rng, i))
                i += 1
                if b is not None:
                    ref = cli_io.reference(b)[2]
                    if isinstance(ref, bytes) and ref.count(b'BUFR') == 1:
                        msgs.append(ref)
            use = tuple(p for p in parts if p != 'prepbufr' or g == 0)
            r = cli_io.glue_stream(msgs, base, parts=use)
            ctx.case({'cli-stream': [core.chash(m.hex()) for m in msgs], 'parts': list(use)}, nontrivial=True)
            ctx.count('cli-stream:groups')
            for k, v in r['stats'].items():
                ctx.count('cli-stream:' + k, v)
            if r['problems']:
                stage, why = r['problems'][0]
                ctx.violation('oracle cli %s: %s' % (stage, why), {'cli_stream': [m.hex() for m in msgs], 'parts': list(use), 'stage': stage, 'why': why},
                              signature={'kind': 'oracle', 'stage': 'cli-stream:' + stage.split(':')[0]})
    finally:
        shutil.rmtree(base, ignore_errors=True)


def replay_stream_glue(ctx, rep):
    d = tempfile.mkdtemp(prefix='c09cli_')
    try:
        r = cli_io.glue_stream([bytes.fromhex(h) for h in rep['cli_stream']], d, parts=tuple(rep.get('parts') or ('filter', 'prepbufr', 'damaged')))
    finally:
        shutil.rmtree(d, ignore_errors=True)
    print('replay: cli stream problems: %s' % (r['problems'] or 'none'))
    for stage, why in r['problems'][:1]:
        ctx.violation('oracle cli %s: %s' % (stage, why), rep, signature={'kind': 'oracle', 'stage': 'cli-stream:' + stage.split(':')[0]})
