"""
C01 — decoding yields exactly the values FM-94 assigns to the bit stream.

Theorems: lean/BufrModel/Props/C01*.lean (C01.lean: one field; C01Flat.lean: flat FM-94 reading = build-then-walk;
C01Tables.lean: the result depends on the tables only through the definitions of the reachable descriptors).
Tie, all on ONE aged, re-used implementation Decoder per option set (harness/objs.py):
 (a) corpus: every sampled file of tests/data and tests/benchmark_data is decoded by the implementation and by the model
     over the table group that SECTION 1 names (worked out by the harness, tables_io.expected_sn; the group the decoder
     reports must be that one);
 (b) grammar: templates from the grammar of harness/coder_io.py over the default table group (elements, sequences, nested
     fixed / delayed replication, operators 201-208, 221, bitmap constructs 222-225/232/235-237), values from the model's
     generate mode, 1-4 subsets, compressed or not, editions 2-4; the message is encoded by the implementation AND
     re-assembled from the model encoder's bits, and each is decoded by both sides;
 (c) operator chains: 1-3 bit-map operators of all five kinds per template - define / recall (237000) / cancel (237255,
     235000) / re-define without cancelling - from harness/c01gen.py and (a share) from the chain generator of
     harness/props/c07.py (guarded import: names make_cases, FAMILIES), same pipeline as (b);
 (d) table-version families (harness/c01gen.py): one descriptor list under 2-3 of the bundled table groups (every master
     version and local table set found under pybufrkit/tables), templates preferring the ids whose definition differs between
     the groups; per member the values, bits and message come from the model over the member's own tables; the members are
     decoded by the same Decoder object one after the other, forwards then backwards, plain and with
     compiled_template_cache_max; each decode is compared with the model over the member's own tables.
Compared: labels, values (DESIGN 3.4 float rule), attribute links, error family.
Oracle: by the C01 theorems the model's decode is the FM-94 value assignment, so a disagreement on a
well-formed input is the failing input.
"""
import json
import os
import time

from harness import core, tables_io
from harness import coder_io as C
from harness import coderprops as P
from harness import msgs
from harness import objs
from harness import c01gen as G

PROP = 'C01'

META = dict(
    claimed=True,
    text='Kernel-checked theorems about the Lean model of the template walk and the decoder primitives (value formula '
         '(raw+ref)/10^scale under 201/202/203/207, missing iff all ones and width>1, unsigned code/flag/associated/skipped '
         'fields, bytes for character fields, labels; frame lemma; flat FM-94 reading = build-then-walk; the decode result depends '
         'on the table group only through the entries reachable from the descriptor list) for all templates and bit strings, plus '
         'model-vs-implementation correspondence, on one re-used Decoder object, on the corpus (tables taken from section 1), on '
         'generated messages of every construct the walk knows incl. chains of bit-map operators (define / recall / cancel / '
         're-define), and on families of one descriptor list under 2-3 of the bundled master/local table versions decoded '
         'consecutively in both orders (plain and compiled).',
    technique='Lean 4 theorems (structural induction over the template tree, bit arithmetic) + checked model/implementation correspondence',
    note='The model mirrors coder.py/decoder.py register by register; IEEE doubles are replaced by exact decimals and tied by a 2-ulp comparison.',
)


def report(ctx, c, why, b=None, stage='decode', stream=None):
    sig = {'stage': stage, 'features': sorted(P.classify(c.ids))}
    if stream and stream != 'grammar':
        sig['stream'] = stream
    rep = c.replay()
    rep['why'] = why
    if b is not None:
        rep['message_hex'] = b.hex()
    ctx.violation('%s: %s (ids %s)' % (stage, why, c.ids[:40]), rep, signature=sig)


_SHRUNK = set()


def as_mapping(resp):
    """the model records the links as the LIST of assignments, the implementation's `bitmap_links` is a dict (a later
    assignment to the same key wins): compare the final mapping"""
    for sub in (resp.get('subsets') or []):
        m = {}
        for a, o in sub['l']:
            m[a] = o
        sub['l'] = sorted([a, o] for a, o in m.items())
    return resp


def assemble(drv, pairs):
    """pairs: (message json with empty data, edition, data bits) -> message bytes put together by the MODEL (framing
    model of C04 around the model encoder's bits), None where the model refuses"""
    res = drv.batch([msgs.encode_req(js, ed, bits) for js, ed, bits in pairs])
    return [bytes.fromhex(r['hex']) if 'hex' in r else None for r in res]


def run_single(ctx, drv, treq, cases, stream, shrinkable=True):
    """cases with values, one table group (treq): encode by implementation and model, decode everything by both"""
    enc = P.run_encode(drv, treq, cases)
    items = []
    # whole messages assembled by the MODEL (framing model of C04 + the model encoder's data bits): the
    # decoder is then exercised independently of what the implementation's encoder accepts or produces
    todo = []
    for c, impl, model in enc:
        if impl[0] == 'ok':
            items.append((c, impl[1]))
        else:
            ctx.count('encoder-refused')
        if 'bits' in model:
            js = C.make_message_json(c.ids, [[] for _ in range(c.n)], c.comp, edition=c.edition)
            todo.append((c, (js, c.edition, model['bits'])))
    for (c, _), b in zip(todo, assemble(drv, [t for _, t in todo])):
        if b is not None:
            items.append((c, b))
            ctx.count('model-assembled')
    decoded = [(c, b, impl, as_mapping(model)) for c, b, impl, model in P.run_decode(drv, treq, items)]
    # the flat FM-94 reading (Spec.flatWalk; C01_flat_eq_tree) evaluated on every case next to the tree walk
    flat = drv.batch([treq] + [{'op': 'dec-data-flat', 'ids': c.ids, 'compressed': c.comp, 'n': c.n, 'bits': C.data_bits(b)}
                               for c, b in items])[1:]
    for (c, b, impl, model), fl in zip(decoded, flat):
        check_flat(ctx, c, b, model, as_mapping(fl))
    for c, b, impl, model in decoded:
        ctx.case({'ids': c.ids, 'n': c.n, 'compressed': c.comp, 'edition': c.edition}, nontrivial=P.nontrivial(c),
                 sample=len(ctx.samples) < 6)
        ctx.traces += 1
        ctx.count('stream:' + stream)
        ctx.count('compressed' if c.comp else 'uncompressed')
        ctx.count('edition-%d' % c.edition)
        for f in P.classify(c.ids) | G.chain_features(c.ids):
            ctx.count(f)
        if impl[0] != 'ok':
            ctx.count('decode-' + impl[0])
        why = P.compare_decode(impl, model)
        if why:
            small = c
            # shrinking costs driver runs: only for the first failure of each structural signature, a handful per run
            sigkey = (stream, tuple(sorted(P.classify(c.ids))))
            if shrinkable and type(c) is P.Case and sigkey not in _SHRUNK and len(_SHRUNK) < 6:
                _SHRUNK.add(sigkey)
                def still(c2):
                    cs = P.gen_values(drv, treq, [c2], ctx.rng('shrink'))
                    if not cs:
                        return False
                    e = P.run_encode(drv, treq, cs)[0]
                    if e[1][0] != 'ok':
                        return False
                    r = P.run_decode(drv, treq, [(c2, e[1][1])])[0]
                    return P.compare_decode(r[2], as_mapping(r[3])) is not None
                small = P.shrink(c, still)
            if small is not c:
                cs = P.gen_values(drv, treq, [small], ctx.rng('shrink'))
                e = P.run_encode(drv, treq, cs)[0]
                r = P.run_decode(drv, treq, [(small, e[1][1])])[0]
                report(ctx, small, P.compare_decode(r[2], as_mapping(r[3])) or why, e[1][1], stream=stream)
            else:
                report(ctx, c, why, b, stream=stream)


def check_flat(ctx, c, b, model, fl):
    if fl.get('wf') and (fl.get('subsets') != model.get('subsets') or fl.get('err') != model.get('err')):
        ctx.violation('the flat FM-94 reading and the tree walk of the model disagree (contradicts theorem C01_flat_eq_tree)',
                      {**c.replay(), 'message_hex': b.hex()}, signature={'stage': 'flat-vs-tree'}, no_failing_input=True)
    ctx.count('flat-reading-wf' if fl.get('wf') else 'flat-reading-not-wf')


def c07_chain_cases(ctx, drv, treq, rng, count):
    """a share of the messages comes from the operator-chain generator of the C07 check (bit-maps that differ between
    subsets, recalls after a run that stopped early, associated fields in force, all base families).  Coupled by
    name only; when the generator is not there (or no longer callable this way) the caller generates more chains
    of its own instead."""
    try:
        if os.environ.get('VERIF_C01_NO_C07'):      # self-test switch: the check must not depend on the other generator
            raise ImportError('switched off by VERIF_C01_NO_C07')
        from harness.props import c07
        make, fams = c07.make_cases, tuple(c07.FAMILIES)
    except Exception as e:  # noqa
        ctx.notes.append('operator-chain generator of harness/props/c07.py not available (%s: %s)' % (type(e).__name__, e))
        return None
    plans = []
    for _ in range(count):
        fam = rng.choice(fams)
        pl = {'family': fam, 'n': rng.choice([1, 1, 2, 3]), 'comp': rng.random() < 0.45, 'stream': 'random',
              'edition': rng.choice([4, 4, 3, 2]), 'steps': rng.choice([2, 2, 3, 3, 1])}
        if fam == 'long':
            pl['nmax'] = 40
        if rng.random() < 0.1:
            pl['assoc_open'] = True
        plans.append(pl)
    try:
        cases = make(drv, treq, rng, plans)
        for c in cases:
            c.ids, c.valss, c.n, c.comp, c.edition, c.replay()     # the interface this check relies on
        return cases
    except core.MachineryError:
        raise
    except Exception as e:  # noqa
        ctx.notes.append('operator-chain generator of harness/props/c07.py not usable (%s: %s)' % (type(e).__name__, e))
        return None


# -------------------------------------------------------------------------------------------------------------
# table-version families
COMPILED_MAX = 6      # small: the compiled-template cache of the re-used Decoder is evicted and refilled during a run


def prepare_families(ctx, drv, rng, fams):
    """values, bits and whole messages per member, all from the MODEL run over the member's own table group; the
    implementation's Encoder (one re-used object) encodes the members of a family one after the other as well"""
    members = [c for fam in fams for c in fam]
    rnd = {}
    for fam in fams:
        rnd[fam[0].fam] = C.rnd_bits(rng, 6000)
    res = G.batch_grouped(drv, [(c.group, {'op': 'gen-data', 'ids': c.ids, 'n': c.n, 'shared': c.comp, 'rnd': rnd[c.fam],
                                           'force': [[k, v * (1 if c.comp else c.n)] for k, v in c.forced]}) for c in members])
    live = []
    for c, r in zip(members, res):
        if 'err' in r:
            c.note = 'gen:' + r['err']
            ctx.count('family-member-without-values')
            continue
        c.valss = r['vals']
        live.append(c)
    res = G.batch_grouped(drv, [(c.group, {'op': 'enc-data', 'ids': c.ids, 'compressed': c.comp, 'vals': c.valss}) for c in live])
    todo = []
    for c, r in zip(live, res):
        if 'bits' in r:
            todo.append((c, (G.member_json(c, [[] for _ in range(c.n)]), c.edition, r['bits'])))
        else:
            ctx.count('family-member-model-encoder-refused')
    for (c, _), b in zip(todo, assemble(drv, [t for _, t in todo])):
        if b is not None:
            c.msgs.append(('model-assembled', b))
    for fam in fams:
        for c in fam:
            if c.valss is None:
                continue
            st, b, _ = C.impl_encode(G.member_json(c, P.py_inputs(c.valss)))
            if st == 'ok' and all(b != x for _, x in c.msgs):
                c.msgs.append(('implementation-encoded', b))
                ctx.count('family-message-implementation-encoded-differs-from-model-assembled')
    # expected values: the model over the member's own tables
    pairs, where = [], []
    for c in members:
        for k, (_, b) in enumerate(c.msgs):
            req = {'ids': c.ids, 'compressed': c.comp, 'n': c.n, 'bits': C.data_bits(b)}
            pairs.append((c.group, dict(req, op='dec-data')))
            pairs.append((c.group, dict(req, op='dec-data-flat')))
            where.append((c, k))
    res = G.batch_grouped(drv, pairs)
    for (c, k), dec, fl in zip(where, res[0::2], res[1::2]):
        if c.model is None:
            c.model = {}
        c.model[k] = as_mapping(dec)
        check_flat(ctx, c, c.msgs[k][1], c.model[k], as_mapping(fl))


def family_sequence(fam):
    """the order in which one Decoder object sees the messages of a family: members forwards, then backwards (every
    message twice, every pair of neighbouring table groups in both orders)"""
    live = [(c, k) for c in fam for k in range(len(c.msgs))]
    return live + live[::-1]


def run_families(ctx, drv, rng, count):
    fams = G.gen_families(rng, count)
    prepare_families(ctx, drv, rng, fams)
    for fam in fams:
        seq = family_sequence(fam)
        if not seq:
            continue
        ctx.count('families')
        ctx.count('family-of-%d-table-groups' % len(fam))
        if fam[0].n_variant:
            ctx.count('families-with-a-descriptor-defined-differently')
        if any(c.group.local for c in fam):
            ctx.count('families-with-local-tables')
        for c in fam:
            if c.msgs:
                ctx.case({'ids': c.ids, 'n': c.n, 'compressed': c.comp, 'edition': c.edition, 'tables': c.group.name},
                         nontrivial=P.nontrivial(c), sample=len(ctx.samples) < 6)
                ctx.count('table-group:' + ('local' if c.group.local else 'v%d' % c.group.version))
                for f in P.classify(c.ids) | G.chain_features(c.ids):
                    ctx.count(f)
        for variant, compiled in (('plain', None), ('compiled', COMPILED_MAX)):
            for pos, (c, k) in enumerate(seq):
                b = c.msgs[k][1]
                impl = C.impl_decode(b, compiled)
                ctx.traces += 1
                ctx.count('family-decodes-' + variant)
                if impl[0] != 'ok':
                    ctx.count('decode-' + impl[0])
                why = P.compare_decode(impl, c.model[k])
                if why:
                    report_family(ctx, fam, seq, pos, variant, why)
                    break


def report_family(ctx, fam, seq, pos, variant, why):
    c, k = seq[pos]
    before = [m.group.name for m, _ in seq[:pos]]
    sig = {'stage': 'family-decode', 'variant': variant, 'features': sorted(P.classify(c.ids)), 'first-of-family': pos == 0}
    rep = {'why': why, 'ids': c.ids, 'variant': variant, 'failing_position': pos,
           'sequence': [{'tables': list(m.group.key), 'name': m.group.name, 'source': m.msgs[j][0], 'n_subsets': m.n, 'compressed': m.comp,
                         'edition': m.edition, 'message_hex': m.msgs[j][1].hex()} for m, j in seq[:pos + 1]]}
    ctx.violation('family (same descriptors under table groups %s), %s decoder, message under %s decoded after %s: %s (ids %s)' % (
        [m.group.name for m in fam], variant, c.group.name, before or 'nothing of this family', why, c.ids[:40]), rep, signature=sig)


def run(ctx):
    drv = ctx.driver
    rng = ctx.rng('main')
    ctx.rule = 'generated case: template has a replication, sequence or operator and at least one non-missing value; corpus file: decodes'
    quick = ctx.tier == 'quick'
    # (a) corpus
    files = P.corpus_files(ctx.tier, ctx.rng('corpus'), quick_n=45)
    for path in files:
        why, info = P.corpus_decode(drv, path)
        if 'skipped' in info:
            ctx.count('corpus-skipped:' + info['skipped'])
            continue
        ctx.case({'file': path.split('/')[-1], **info}, nontrivial=True, sample=len(ctx.samples) < 2)
        ctx.traces += 1
        ctx.count('corpus-files')
        for f in info['features']:
            ctx.count('corpus:' + f)
        if why:
            ctx.violation('corpus file %s: %s' % (path.split('/')[-1], why), {'file': path, 'why': why},
                          signature={'stage': 'corpus', 'file': path.split('/')[-1]})
    t_b = time.time()
    treq = tables_io.group_request()
    # (b) generated over the default table group: the grammar of coder_io.TemplateGen
    count = 560 if quick else 10000
    chunk = 280
    done = 0
    while done < count:
        cases = P.gen_cases(rng, min(chunk, count - done), level=2)
        for c in cases:
            c.idx += done
        done += len(cases)
        run_single(ctx, drv, treq, P.gen_values(drv, treq, cases, rng), 'grammar')
    t_c = time.time()
    # (c) operator chains: bit-maps defined, recalled, cancelled, re-defined (own generator + the one of the C07 check)
    rc = ctx.rng('chains')
    n_own, n_c07 = (150, 150) if quick else (2500, 2500)
    for off in range(0, n_c07, 300):
        cases = c07_chain_cases(ctx, drv, treq, rc, min(300, n_c07 - off))
        if cases is None:
            n_own += n_c07 - off
            ctx.count('c07-chain-generator-unavailable')
            break
        run_single(ctx, drv, treq, cases, 'chains-c07', shrinkable=False)
    for off in range(0, n_own, 300):
        cases = G.gen_chain_cases(rc, min(300, n_own - off))
        for c in cases:
            c.idx += off
        run_single(ctx, drv, treq, P.gen_values(drv, treq, cases, rc), 'chains')
    # (d) the same descriptors under several table groups, one Decoder object
    t_d = time.time()
    rf = ctx.rng('families')
    n_fam = 150 if quick else 2000
    for off in range(0, n_fam, 120):
        run_families(ctx, drv, rf, min(120, n_fam - off))
    ctx.notes.append('wall: corpus %.1fs, grammar %.1fs, chains %.1fs, families %.1fs' % (t_b - ctx.t0, t_c - t_b, t_d - t_c, time.time() - t_d))
    ctx.notes.append('implementation objects: %s (harness/objs.py: one aged Decoder/Encoder per option set, re-used for every case)' % objs.policy())


def replay_family(ctx, rep):
    """the recorded sequence on one re-used Decoder object, then the failing message alone on a new object"""
    drv = ctx.driver
    u = G.universe()
    seq = rep['sequence']
    groups = [u.group(*e['tables']) for e in seq]
    ids = rep['ids']
    res = G.batch_grouped(drv, [(g, {'op': 'dec-data', 'ids': ids, 'compressed': e['compressed'], 'n': e['n_subsets'],
                                     'bits': C.data_bits(bytes.fromhex(e['message_hex']))}) for g, e in zip(groups, seq)])
    compiled = COMPILED_MAX if rep.get('variant') == 'compiled' else None
    whys = []
    for e, g, model in zip(seq, groups, res):
        why = P.compare_decode(C.impl_decode(bytes.fromhex(e['message_hex']), compiled), as_mapping(model))
        whys.append(why)
        print('replay, re-used decoder: message under %s (%s): %s' % (g.name, e['source'], why or 'agrees with the model'))
    old = os.environ.get('VERIF_OBJECTS')
    os.environ['VERIF_OBJECTS'] = 'fresh'
    try:
        alone = P.compare_decode(C.impl_decode(bytes.fromhex(seq[-1]['message_hex']), compiled), as_mapping(res[-1]))
    finally:
        if old is None:
            del os.environ['VERIF_OBJECTS']
        else:
            os.environ['VERIF_OBJECTS'] = old
    print('replay, new decoder, last message alone: %s' % (alone or 'agrees with the model'))
    if any(whys) or alone:
        kind = 'fails on a new Decoder as well' if alone else 'fails only after the earlier messages on the same Decoder object (history dependent)'
        ctx.violation('family replay: %s; %s' % (next(w for w in whys + [alone] if w), kind), rep,
                      signature={'stage': 'family-decode', 'variant': rep.get('variant')})


def replay(ctx, path):
    with open(path) as f:
        body = json.load(f)
    rep = body['replay']
    drv = ctx.driver
    if 'file' in rep:
        why, info = P.corpus_decode(drv, rep['file'])
        print('replay corpus file:', why or 'agrees')
        if why:
            ctx.violation('corpus file: ' + why, rep, signature={'stage': 'corpus'})
        return
    if 'sequence' in rep:
        return replay_family(ctx, rep)
    c = P.Case([rep['ids']], rep.get('forced', []), rep['n_subsets'], rep['compressed'], rep.get('edition', 4))
    c.valss = rep['values']
    treq = tables_io.group_request()
    b = bytes.fromhex(rep['message_hex'])
    r = P.run_decode(drv, treq, [(c, b)])[0]
    why = P.compare_decode(r[2], as_mapping(r[3]))
    print('replay:', why or 'implementation and model agree')
    if why:
        report(ctx, c, why, b)
