"""
C01 — decoding yields exactly the values FM-94 assigns to the bit stream.

Theorems: lean/BufrModel/Props/C01*.lean.
Tie: (a) corpus: every sampled file of tests/data and tests/benchmark_data is decoded by the
implementation and by the model (with the table group the implementation selected streamed to the
driver); (b) generated: templates from the grammar of harness/coder_io.py (elements, sequences, nested
fixed / delayed replication, operators 201-208, 221, bitmap constructs 222-225/232/235-237), values
from the model's generate mode, 1-4 subsets, compressed or not, editions 2-4; the message is encoded by
the implementation AND re-assembled from the model encoder's bits, and each is decoded by both sides.
Compared: labels, values (DESIGN 3.4 float rule), attribute links, error family.
Oracle: by the C01 theorems the model's decode is the FM-94 value assignment, so a disagreement on a
well-formed input is the failing input.
"""
import json

from harness import core, tables_io
from harness import coder_io as C
from harness import coderprops as P
from harness import msgs

PROP = 'C01'

META = dict(
    claimed=True,
    text='Kernel-checked theorems about the Lean model of the template walk and the decoder primitives (value formula '
         '(raw+ref)/10^scale under 201/202/203/207, missing iff all ones and width>1, unsigned code/flag/associated/skipped '
         'fields, bytes for character fields, labels; frame lemma) for all templates and bit strings, plus model-vs-'
         'implementation correspondence on the corpus and on generated messages of every construct the walk knows.',
    technique='Lean 4 theorems (structural induction over the template tree, bit arithmetic) + checked model/implementation correspondence',
    note='The model mirrors coder.py/decoder.py register by register; IEEE doubles are replaced by exact decimals and tied by a 2-ulp comparison.',
)


def report(ctx, c, why, b=None, stage='decode'):
    sig = {'stage': stage, 'features': sorted(P.classify(c.ids))}
    rep = c.replay()
    rep['why'] = why
    if b is not None:
        rep['message_hex'] = b.hex()
    ctx.violation('%s: %s (ids %s)' % (stage, why, c.ids[:40]), rep, signature=sig)


def run(ctx):
    drv = ctx.driver
    rng = ctx.rng('main')
    ctx.rule = 'generated case: template has a replication, sequence or operator and at least one non-missing value; corpus file: decodes'
    # (a) corpus
    files = P.corpus_files(ctx.tier, ctx.rng('corpus'), quick_n=45)
    for path in files:
        why, info = P.corpus_decode(drv, path)
        if 'skipped' in info:
            ctx.count('corpus-skipped:' + info['skipped'])
            continue
        ctx.case({'file': path.split('/')[-1], **info}, nontrivial=True, sample=len(ctx.samples) < 2)
        ctx.traces += 1
        ctx.count('corpus-files')
        for f in info['features']:
            ctx.count('corpus:' + f)
        if why:
            ctx.violation('corpus file %s: %s' % (path.split('/')[-1], why), {'file': path, 'why': why},
                          signature={'stage': 'corpus', 'file': path.split('/')[-1]})
    # (b) generated
    count = 700 if ctx.tier == 'quick' else 12000
    treq = tables_io.group_request()
    chunk = 350
    done = 0
    while done < count:
        cases = P.gen_cases(rng, min(chunk, count - done), level=2)
        for c in cases:
            c.idx += done
        done += len(cases)
        cases = P.gen_values(drv, treq, cases, rng)
        enc = P.run_encode(drv, treq, cases)
        items = []
        # whole messages assembled by the MODEL (framing model of C04 + the model encoder's data bits): the
        # decoder is then exercised independently of what the implementation's encoder accepts or produces
        mreqs, mcases = [], []
        for c, impl, model in enc:
            if impl[0] == 'ok':
                items.append((c, impl[1]))
            else:
                ctx.count('encoder-refused')
            if 'bits' in model:
                js = C.make_message_json(c.ids, [[] for _ in range(c.n)], c.comp, edition=c.edition)
                mreqs.append(msgs.encode_req(js, c.edition, model['bits']))
                mcases.append(c)
        for c, r in zip(mcases, drv.batch(mreqs)):
            if 'hex' in r:
                items.append((c, bytes.fromhex(r['hex'])))
                ctx.count('model-assembled')
        for c, b, impl, model in P.run_decode(drv, treq, items):
            ctx.case({'ids': c.ids, 'n': c.n, 'compressed': c.comp, 'edition': c.edition}, nontrivial=P.nontrivial(c),
                     sample=len(ctx.samples) < 6)
            ctx.traces += 1
            ctx.count('compressed' if c.comp else 'uncompressed')
            ctx.count('edition-%d' % c.edition)
            for f in P.classify(c.ids):
                ctx.count(f)
            if impl[0] != 'ok':
                ctx.count('decode-' + impl[0])
            why = P.compare_decode(impl, model)
            if why:
                def still(c2, b=b):
                    cs = P.gen_values(drv, treq, [c2], ctx.rng('shrink'))
                    if not cs:
                        return False
                    e = P.run_encode(drv, treq, cs)[0]
                    if e[1][0] != 'ok':
                        return False
                    r = P.run_decode(drv, treq, [(c2, e[1][1])])[0]
                    return P.compare_decode(r[2], r[3]) is not None
                small = P.shrink(c, still)
                if small is not c:
                    cs = P.gen_values(drv, treq, [small], ctx.rng('shrink'))
                    e = P.run_encode(drv, treq, cs)[0]
                    r = P.run_decode(drv, treq, [(small, e[1][1])])[0]
                    report(ctx, small, P.compare_decode(r[2], r[3]) or why, e[1][1])
                else:
                    report(ctx, c, why, b)


def replay(ctx, path):
    with open(path) as f:
        body = json.load(f)
    rep = body['replay']
    drv = ctx.driver
    if 'file' in rep:
        why, info = P.corpus_decode(drv, rep['file'])
        print('replay corpus file:', why or 'agrees')
        if why:
            ctx.violation('corpus file: ' + why, rep, signature={'stage': 'corpus'})
        return
    c = P.Case([rep['ids']], rep.get('forced', []), rep['n_subsets'], rep['compressed'], rep.get('edition', 4))
    c.valss = rep['values']
    treq = tables_io.group_request()
    b = bytes.fromhex(rep['message_hex'])
    r = P.run_decode(drv, treq, [(c, b)])[0]
    why = P.compare_decode(r[2], r[3])
    print('replay:', why or 'implementation and model agree')
    if why:
        report(ctx, c, why, b)
