"""
C06 — subsets of an uncompressed message are decoded independently of each other.

Theorems: lean/BufrModel/Props/C06*.lean (frame lemma of the template walk; decoding s1..sn together =
decoding each alone, permutation, the encoder's bits of together = concatenation of alone; C06Wire.lean: the
node tree of a subset depends on the template and that subset's flat lists only).

Oracle ON THE IMPLEMENTATION (every generated case):
  * decode s1..sn together vs each si alone, position by position: values (exactly), labels, bitmap
    links, and the nested JSON of `NestedJsonRenderer` per subset.  "Alone" is built twice: by encoding the
    subset's values alone with the implementation's encoder, and by cutting the data section of the
    together-message at the bit boundaries the MODEL reports (`dec-subsets`: bits consumed per subset);
  * encoder: data bits of together = concatenation of the bits of each alone (labels / links the encoder
    reports likewise);
  * permutations: the subsets' bit strings concatenated in another order decode to the permuted
    result (all orders for n <= 4, random orders above) and the encoder given the reversed subsets
    produces the reversed bits.
COMPILED PATH (the property quantifies over the decoder / encoder AS CONFIGURED): every case is also run through
`Decoder(compiled_template_cache_max=K)` / `Encoder(compiled_template_cache_max=K)`, K rotating over 1, 2, 8 and 0
(long-lived objects: first use of a template = compile, every later use = the cached program; K = 0 compiles every
time): the compiled encoder on s1..sn together vs each si alone (status, reported labels / links, data bits of
together = the alone bit strings in a row), the compiled decoder on the together-message TWICE (first use, cached
program) vs on each alone message (values, labels, links position by position; fails together iff some subset
fails alone, with that subset's error family), and on the subsets in reverse order.  The messages are those of
the compiled encoder (encoder and decoder run the same program, so the subset boundaries agree whatever the
template) and - for templates in the class where the model proves compiled = interpreted (`compile` op: `closed`,
or `loose`) - also the messages of the plain encoder.
Correspondence: the together-message is decoded by the model (`dec-subsets`) and wired by the model (`wire`,
i.e. `wireAll`, about which Props/C06Wire.lean proves "subset by subset"); flat lists and node trees are compared.

Templates: the grammar of C01 (levels 0-2) with structure NOT shared between subsets (different
replication counts), plus families where state carried over would show: delayed replication before a
bitmap with different counts and bitmaps per subset (F4), bitmap reuse 236000/237000, 235000 / 237255,
203YYY defined in one subset only, 201/202/207/208 left open at the end, 204 left open, 221 count left
open, 206 pending at the end, 203 definition left open, QA-info status pending, templates ending inside
a bitmap definition, an associated-field / statistics meaning defined in one subset only, marker operators
processed while 201 / 202 / 207 / 208 is in force (`marker-under-*`; bitmaps differ per subset).
Plus the layout-varying bitmap templates of harness/c06gen.py (`layout`): several delayed replications of
DIFFERENT elements, nested replication, 205YYY / 206YYY / 204YYY items in front of 1..3 bitmap constructs
(222000 and the marker operators, 236000 / 237000 / 237255 / 235000 chains), with per-subset factors that
compensate each other (equal flat length and bitmap length, different arrangement), bitmaps of equal or
different length, equal / permuted / different bits, 2..5 subsets in shuffled order.
"""
import itertools
import json

from harness import core, tables_io, views_io
from harness import coder_io as C
from harness import coderprops as P
from harness import c06gen

PROP = 'C06'

META = dict(
    claimed=True,
    text='Kernel-checked theorems about the Lean model of the per-subset loop of decoder and encoder (every subset starts '
         'from the initial register set; frame lemma: a subset\'s walk consumes a prefix and is unaffected by what follows) '
         'and of the wiring pass (every subset is wired from the empty state): decoding the concatenation of n subset bit '
         'strings gives, position by position, what decoding each alone gives; permuting the subsets permutes the result; '
         'the encoder\'s bits and reports (labels, links) of together are those of each alone in a row, in any order; the node '
         'tree of subset i is a function of the template and the flat lists of subset i alone, and the message fails to wire '
         'iff some subset fails alone - for all templates of the model and any n; THE SAME ON THE COMPILED-TEMPLATE PATH '
         '(Props/C06Compiled.lean): executing ANY compiled program subset by subset equals executing it on each subset alone '
         '(decode and encode, any n, any order; no class hypothesis), for scopeClosed templates that is decoding each subset '
         'alone with the interpreted walk, and first use (compile) and later uses (cache) hand out the same program; plus the '
         'tie to pybufrkit: together-vs-alone oracle on the implementation (values, labels, links, nested JSON; alone = '
         're-encoded and = cut at the model\'s bit boundaries), encoder concatenation, all orders for n <= 4 / random orders '
         'above, EVERY CASE ALSO THROUGH Decoder/Encoder(compiled_template_cache_max = 1, 2, 8, 0) (first use = compile, '
         'second use = cached program, once more after the alone messages went through the same object, reverse order), '
         'model-vs-implementation correspondence of flat lists and node trees on the together-message, on templates with '
         'differing replication counts and bitmaps per subset, on templates that end inside an operator construct, on marker '
         'operators processed while 201/202/207/208 is in force, and on templates with several delayed replications of '
         'different elements in front of bitmap constructs whose per-subset factors compensate each other (equal flat length '
         'and bitmap length, different arrangement).',
    technique='Lean 4 theorems (frame lemma by mutual structural induction over the template walk; wiring per subset) + '
              'metamorphic oracle on the implementation + checked model/implementation correspondence',
    note='The mutable node objects of templatedata.py are modelled by value (View/Wire.lean): sharing of node objects '
         'between subsets is visible to the oracle (nested JSON together = alone) and to the node-tree correspondence, '
         'not to the theorems.',
)


# ---------------------------------------------------------------------------------------------
# implementation observations
def full_decode(b):
    """-> (status, subsets [{d, v, l}], nested: list per subset | error tag, node trees: list per subset | error tag)"""
    from pybufrkit.decoder import Decoder
    from pybufrkit.renderer import NestedJsonRenderer
    try:
        msg = Decoder().process(b, wire_template_data=False)
    except Exception as e:  # noqa
        return core.err_tag(e), None, None, None
    td = msg.template_data.value
    subs = []
    for i in range(msg.n_subsets.value):
        subs.append({'d': [str(d) for d in td.decoded_descriptors_all_subsets[i]],
                     'v': list(td.decoded_values_all_subsets[i]),
                     'l': sorted([a, o] for a, o in td.bitmap_links_all_subsets[i].items())})
    tree = None
    try:
        msg.wire()
        try:
            tree = [[views_io.node_canon(n) for n in td.decoded_nodes_all_subsets[i]] for i in range(msg.n_subsets.value)]
        except (views_io.AttrCycle, RecursionError):
            tree = 'err:other'
        nested = None
        for sec in NestedJsonRenderer().render(msg):
            for par in sec:
                if par['name'] == 'template_data':
                    nested = par['value']
        if nested is None:
            nested = 'err:no-template-data'
    except Exception as e:  # noqa
        nested = core.err_tag(e)
        if tree is None:
            tree = nested
    return 'ok', subs, nested, tree


def same_exact(x, y):
    return type(x) is type(y) and x == y


def subset_diff(x, y, wa, wb):
    if x['d'] != y['d']:
        k = next((k for k, (p, q) in enumerate(zip(x['d'], y['d'])) if p != q), min(len(x['d']), len(y['d'])))
        return 'labels differ at %d: %s %s, %s %s' % (k, wa, x['d'][k:k + 1], wb, y['d'][k:k + 1])
    if len(x['v']) != len(y['v']):
        return 'number of values differs: %s %d, %s %d' % (wa, len(x['v']), wb, len(y['v']))
    for k, (p, q) in enumerate(zip(x['v'], y['v'])):
        if not same_exact(p, q):
            return 'value differs at %d (%s): %s %r, %s %r' % (k, x['d'][k], wa, p, wb, q)
    if x['l'] != y['l']:
        return 'attribute links differ: %s %s, %s %s' % (wa, x['l'], wb, y['l'])
    return None


def compare_wire(oT, model):
    """node trees of the implementation (together) vs the model's `wireAll` ; None when they agree"""
    if oT[0] != 'ok' or 'err' in model:
        return None                     # the flat correspondence reports a decoding disagreement
    mw = model['wire']
    tree = oT[3]
    if isinstance(mw, dict):
        if tree != 'err:' + mw['err']:
            return 'wiring: implementation %s, model err:%s' % (tree if isinstance(tree, str) else 'ok', mw['err'])
        return None
    if isinstance(tree, str):
        return 'wiring: implementation %s, model ok' % tree
    if tree != mw:
        k = next((k for k, (a, m) in enumerate(zip(tree, mw)) if a != m), min(len(tree), len(mw)))
        return 'node tree differs in subset %d: implementation %s, model %s' % (
            k, json.dumps(tree[k:k + 1])[:200], json.dumps(mw[k:k + 1])[:200])
    return None


def nested_same(a, b):
    """structural equality with exact value types"""
    if isinstance(a, dict) and isinstance(b, dict):
        return a.keys() == b.keys() and all(nested_same(a[k], b[k]) for k in a)
    if isinstance(a, list) and isinstance(b, list):
        return len(a) == len(b) and all(nested_same(x, y) for x, y in zip(a, b))
    return same_exact(a, b)


# ---------------------------------------------------------------------------------------------
# templates where carried-over state would show
class Families(object):
    def __init__(self, rng):
        self.rng = rng
        self.tg = C.TemplateGen(rng, level=2)

    def num(self):
        return self.rng.choice(self.tg.numeric)

    def plain(self):
        return self.tg.element_plain()[0]

    def high(self):
        """an element of class >= 10 (221YYY suppresses it)"""
        while True:
            e = self.plain()
            if e // 1000 >= 10 and e // 1000 not in (31, 33):
                return e

    def bitmap(self, rng, avail, delayed=True):
        """(ids of `101000 031002 031031`, forced) for a bitmap of 1..avail bits"""
        nb = rng.randint(1, max(1, min(avail, 7)))
        bits = [rng.randint(0, 1) for _ in range(nb)]
        return nb, bits, bits.count(0)

    def make(self, idx):
        """-> Case with .fps = per-subset forced values {id: [..]} and .note = family"""
        rng = self.rng
        fam = rng.choice(['f4', 'f4', 'reuse', 'reuse', 'cancel', 'open-op', 'open-op', 'open-204', 'open-221', 'open-206',
                          'open-203', 'refval-one-subset', 'qa-pending', 'in-bitmap', 'in-bitmap', 'meaning-one-subset',
                          'stats-meaning-one-subset'])
        n = rng.randint(2, 5)
        q = rng.choice(self.tg.class33)
        fps = [dict() for _ in range(n)]
        if fam == 'f4':
            a, b2 = self.plain(), self.plain()
            tail = [self.plain() for _ in range(rng.randint(0, 2))]
            ids = [101000, 31001, a, b2, 222000, 101000, 31001, 31031] + tail + [101000, 31001, q]
            for f in fps:
                c = rng.randint(0, 3)
                nb, bits, z = self.bitmap(rng, c + 2)
                f[31001] = [c, nb, z]
                f[31031] = bits
        elif fam == 'reuse':
            k = rng.randint(1, 4)
            els = [self.plain() for _ in range(k)]
            ids = [101000, 31001, els[0]] + els[1:] + [222000, 236000, 101000, 31002, 31031, 101000, 31002, q]
            second = rng.choice([223, 224, 232])
            ids += [second * 1000, 237000] + ([8023] if second == 224 else []) + [101000, 31002, second * 1000 + 255]
            if rng.random() < 0.5:
                ids.append(237255)
            if rng.random() < 0.4:
                ids.append(235000)
            if rng.random() < 0.5:
                ids.append(self.plain())
            for f in fps:
                c = rng.randint(0, 3)
                nb, bits, z = self.bitmap(rng, c + k)      # factor + c copies + (k - 1) others
                f[31001] = [c]
                f[31002] = [nb, z, z]
                f[31031] = bits
        elif fam == 'cancel':
            k = rng.randint(1, 3)
            els = [self.plain() for _ in range(k)]
            els2 = [self.plain() for _ in range(rng.randint(1, 3))]
            ids = els + [222000, 101000, 31002, 31031, 101000, 31002, q, 235000] + els2 + \
                  [223000, 101000, 31002, 31031, 101000, 31002, 223255]
            if rng.random() < 0.5:
                ids.append(235000)
            for f in fps:
                nb, bits, z = self.bitmap(rng, k)
                nb2, bits2, z2 = self.bitmap(rng, len(els2))
                f[31002] = [nb, z, nb2, z2]
                f[31031] = bits + bits2
        elif fam == 'open-op':
            op = rng.choice([201, 202, 207, 208])
            if op == 208:
                s1, s2 = rng.choice(self.tg.string), rng.choice(self.tg.string)
                ids = [s1, self.plain(), 208000 + rng.randint(1, 12), s2]
            else:
                y = {201: rng.choice([129, 130, 126, 120, 135]), 202: rng.choice([129, 130, 127]), 207: rng.randint(1, 3)}[op]
                ids = [self.num(), self.plain(), op * 1000 + y, self.num()]
                if rng.random() < 0.3:
                    ids += [101000, 31001, self.num()]
        elif fam == 'open-204':
            ids = [self.plain(), self.num(), 204000 + rng.randint(1, 8), 31021, self.plain()]
            if rng.random() < 0.3:
                ids += [204000 + rng.randint(1, 4), 31021, self.plain()]
        elif fam == 'open-221':
            ids = [self.high(), self.high(), 221000 + rng.randint(2, 6), self.high()]
        elif fam == 'open-206':
            ids = [self.plain(), self.plain(), 206000 + rng.randint(1, 24)]
            if rng.random() < 0.5:
                ids = [101000, 31001] + ids[:1] + ids[1:]
        elif fam == 'open-203':
            ids = [self.num(), self.plain(), 203000 + rng.randint(2, 12), self.num()]
        elif fam == 'refval-one-subset':
            e = self.num()
            ids = [103000, 31001, 203000 + rng.randint(2, 12), e, 203255, e, self.plain()]
            if rng.random() < 0.5:
                ids += [e]
        elif fam == 'qa-pending':
            k = rng.randint(1, 3)
            els = [self.plain() for _ in range(k)]
            ids = [q] + els + [222000, 101000, 31002, 31031, 101000, 31002, q]
            for f in fps:
                nb, bits, z = self.bitmap(rng, k + 1)
                if z == 0:
                    bits[0], z = 0, 1
                f[31002] = [nb, z]
                f[31031] = bits
        elif fam == 'in-bitmap':
            k = rng.randint(1, 4)
            els = [self.plain() for _ in range(k)]
            op = rng.choice([222, 223, 224, 225, 232])
            v = rng.choice(['indicator', 'counting-fixed', 'counting-delayed', 'waiting'])
            # 031031 as ordinary leading elements: a definition state carried over would start counting them
            lead = [31031] * rng.choice([0, 1, 2, 2])
            if v == 'indicator':
                ids = lead + els + [op * 1000]
            elif v == 'waiting':
                ids = lead + els + [op * 1000, 236000]
            elif v == 'counting-fixed':
                ids = lead + els + [op * 1000, 101000 + rng.randint(1, k), 31031]
            else:
                ids = lead + els + [op * 1000, 101000, 31002, 31031]
                for f in fps:
                    nb, bits, z = self.bitmap(rng, k)
                    f[31002] = [nb]
                    f[31031] = [rng.randint(0, 1) for _ in lead] + bits
        elif fam == 'meaning-one-subset':
            ids = [204000 + rng.randint(1, 8), 101000, 31001, 31021, self.num(), self.plain(), 204000]
            for f in fps:
                f[31001] = [rng.choice([0, 1, 1, 2])]
            fps[0][31001] = [1]
        elif fam == 'stats-meaning-one-subset':
            k = rng.randint(1, 3)
            els = [self.num() for _ in range(k)]
            op, mean = rng.choice([(224, 8023), (225, 8024)])
            ids = els + [op * 1000, 101000, 31002, 31031, 101000, 31001, mean, 101000, 31002, op * 1000 + 255]
            for i, f in enumerate(fps):
                nb, bits, z = self.bitmap(rng, k)
                f[31002] = [nb, z]
                f[31031] = bits
                f[31001] = [1 if i == 0 else rng.choice([0, 1])]
        else:
            raise AssertionError(fam)
        c = P.Case([ids], [], n, False, rng.choice([4, 4, 3]), idx)
        c.note = fam
        return c, fps


class MarkerOpGen(object):
    """marker operators (22X255 / 232255) processed while 201 / 202 / 207 / 208 is IN FORCE, with bitmaps that differ per
    subset: the compiled path re-creates the operator registers for every marker statement (`state_properties`), the
    interpreted path carries them in the state; both have to start every subset afresh"""

    def __init__(self, rng):
        self.rng = rng
        self.tg = C.TemplateGen(rng, level=2)

    def make(self, idx):
        rng, tg = self.rng, self.tg
        op = rng.choice([201, 201, 202, 207, 208, '201+202'])
        k = rng.randint(1, 3)
        if op == 208:
            els = [rng.choice(tg.string) for _ in range(k)]
            opens, closes = [208000 + rng.randint(1, 12)], [208000]
        else:
            els = [rng.choice(tg.numeric) for _ in range(k)]
            if op == 201:
                opens, closes = [201000 + rng.choice([129, 130, 126, 135])], [201000]
            elif op == 202:
                opens, closes = [202000 + rng.choice([129, 130, 127])], [202000]
            elif op == 207:
                opens, closes = [207000 + rng.randint(1, 3)], [207000]
            else:
                opens, closes = [201000 + rng.choice([129, 130]), 202000 + rng.choice([129, 127])], [202000, 201000]
        m = rng.choice([223, 224, 225, 232]) if op != 208 else rng.choice([223, 232])
        lead = [tg.element_plain()[0] for _ in range(rng.randint(0, 2))]
        if rng.random() < 0.5:
            ids = lead + opens + els          # the elements are under the operator as well
        else:
            ids = lead + els + opens          # only the markers are
        n = rng.randint(2, 4)
        fps = [dict() for _ in range(n)]
        mean = {224: [8023], 225: [8024]}.get(m, [])
        if op in (201, 208):
            # bitmap length and number of markers by delayed replication: both differ per subset
            ids += [m * 1000, 101000, 31002, 31031] + mean + [101000, 31002, m * 1000 + 255]
            for f in fps:
                nb = rng.randint(1, k + len(lead))
                bits = [rng.randint(0, 1) for _ in range(nb)]
                f[31002] = [nb, bits.count(0)]
                f[31031] = bits
        else:
            # a scale change in force would apply to a delayed replication factor too (the count becomes a float and is
            # refused): fixed replication, the same number of zero bits in other positions per subset
            nb = rng.randint(1, k + len(lead))
            z = rng.randint(1, nb)
            ids += [m * 1000, 101000 + nb, 31031] + mean + [101000 + z, m * 1000 + 255]
            for f in fps:
                bits = [0] * z + [1] * (nb - z)
                rng.shuffle(bits)
                f[31031] = bits
        if rng.random() < 0.6:
            ids += closes
        if rng.random() < 0.5:
            ids += [rng.choice(tg.numeric)]
        c = P.Case([ids], [], n, False, rng.choice([4, 4, 3]), idx)
        c.note = 'marker-under-%s' % op
        return c, fps


def gen_values(drv, treq, pairs, rng):
    """pairs: (case, fps | None).  fills case.valss through the model's generate mode (structure not shared)"""
    reqs = [treq]
    for c, fps in pairs:
        if fps is None:
            forced = [[k, v * c.n] for k, v in c.forced]
        else:
            keys = sorted(set(k for f in fps for k in f))
            forced = [[k, [x for f in fps for x in f.get(k, [])]] for k in keys]
        reqs.append({'op': 'gen-data', 'ids': c.ids, 'n': c.n, 'shared': False, 'rnd': C.rnd_bits(rng, 6000), 'force': forced})
    res = drv.batch(reqs)[1:]
    out = []
    for (c, fps), r in zip(pairs, res):
        if 'err' in r:
            c.valss = None
            c.note += ' gen:' + r['err']
            continue
        c.valss = r['vals']
        out.append(c)
    return out



# ---------------------------------------------------------------------------------------------
# the compiled path
COMPILED_KS = (1, 2, 8, 0)      # cache limits of CompiledTemplateManager: eviction after 1 / 2 templates, everything kept, nothing kept


def k_of(c):
    return COMPILED_KS[c.idx % len(COMPILED_KS)]


def concat_matches(whole, parts):
    """is `whole` (data bits incl. padding) = parts[0][:L0] ++ parts[1][:L1] ++ ... ++ zero padding (< 16 bits), where every
    L_k drops only trailing zero bits (< 16: the padding of the alone message) of parts[k]?"""
    memo = {}

    def rec(pos, k):
        key = (pos, k)
        if key in memo:
            return memo[key]
        if k == len(parts):
            rest = whole[pos:]
            r = set(rest) <= {'0'} and len(rest) < 16
        else:
            p = parts[k]
            lo = max(len(p.rstrip('0')), len(p) - 15, 0)
            r = False
            for ln in range(len(p), lo - 1, -1):
                if whole[pos:pos + ln] == p[:ln] and rec(pos + ln, k + 1):
                    r = True
                    break
        memo[key] = r
        return r
    return rec(0, 0)


def together_alone_diff(dT, dA):
    """compiled decoder: observation of the together-message vs the observations of the alone messages"""
    bad = [k for k, d in enumerate(dA) if d[0] != 'ok']
    if dT[0] != 'ok':
        if not bad:
            return 'together fails to decode (%s), every subset alone decodes' % dT[0]
        if dT[0] != dA[bad[0]][0]:
            return 'together fails with %s, the first subset that fails alone (%d) with %s' % (dT[0], bad[0], dA[bad[0]][0])
        return None
    if bad:
        return 'subset %d alone fails to decode (%s), together decodes' % (bad[0], dA[bad[0]][0])
    if len(dT[1]) != len(dA):
        return 'number of subsets differs'
    for k in range(len(dA)):
        why = subset_diff(dT[1][k], dA[k][1][0], 'together', 'alone')
        if why:
            return 'subset %d: %s' % (k, why)
    return None


def compiled_stage(c, K, t, alone, strict, info):
    """The oracle once more with Encoder / Decoder(compiled_template_cache_max=K).  t / alone: what the plain encoder gave
    for s1..sn together / each alone (None when not computed).  -> problems"""
    probs = []
    n = c.n
    tagK = 'compiled_template_cache_max=%d' % K
    encT = encode_msg(c, c.valss, K)                      # first use of the template by this encoder: compile
    encA = [encode_msg(c, [vs], K) for vs in c.valss]     # later uses: the cached program (K >= 1)
    refused = [k for k, a in enumerate(encA) if a[0] != 'ok']
    msgs = None
    if encT[0] != 'ok' and not refused:
        probs.append(('compiled-encode', '%s: together refused (%s) although every subset alone is encoded' % (tagK, encT[0]), {}))
    elif encT[0] == 'ok' and refused:
        probs.append(('compiled-encode', '%s: subset %d alone is refused (%s) although together is encoded' % (tagK, refused[0], encA[refused[0]][0]), {}))
    elif encT[0] == 'ok':
        msgs = (encT[1], [a[1] for a in encA])
        for k in range(n):
            if encT[2][k] != encA[k][2][0]:
                probs.append(('compiled-encoder-together-vs-alone', '%s: labels / links the encoder reports for subset %d differ: together %s, alone %s' % (
                    tagK, k, json.dumps(encT[2][k])[:160], json.dumps(encA[k][2][0])[:160]), {'message_hex': encT[1].hex()}))
                break
        if not concat_matches(C.data_bits(encT[1]), [C.data_bits(b) for b in msgs[1]]):
            probs.append(('compiled-encoder-together-vs-alone', '%s: data bits of together are not the bits of each subset alone in a row' % tagK,
                          {'message_hex': encT[1].hex(), 'alone_hex': [b.hex() for b in msgs[1]]}))
    pairs = []
    if msgs:
        pairs.append(('messages of the compiled encoder', msgs))
    if strict and t is not None and t[0] == 'ok' and alone and all(a[0] == 'ok' for a in alone):
        pm = (t[1], [a[1] for a in alone])
        if pm != msgs:
            pairs.append(('messages of the plain encoder', pm))
            info['compiled_plain_messages'] = True
    dA0 = None
    for what, (bT, bAs) in pairs:
        d1 = C.impl_decode(bT, K)
        d2 = C.impl_decode(bT, K)
        dA = [C.impl_decode(b, K) for b in bAs]
        d3 = C.impl_decode(bT, K)                          # and once more after the alone messages went through the same decoder
        info['compiled_decodes'] = info.get('compiled_decodes', 0) + 3 + len(bAs)
        if dA0 is None:
            dA0 = dA
        for tag, d in (('first decode', d1), ('second decode', d2), ('decode after the alone messages', d3)):
            why = together_alone_diff(d, dA)
            if why:
                probs.append(('compiled-together-vs-alone', '%s, %s, %s: %s' % (tagK, what, tag, why),
                              {'message_hex': bT.hex(), 'alone_hex': [b.hex() for b in bAs]}))
                break
    if msgs and n > 1:
        encR = encode_msg(c, c.valss[::-1], K)
        if encR[0] != 'ok':
            probs.append(('compiled-permutation', '%s: the subsets in reverse order are refused (%s)' % (tagK, encR[0]), {}))
        else:
            if not concat_matches(C.data_bits(encR[1]), [C.data_bits(b) for b in msgs[1][::-1]]):
                probs.append(('compiled-permutation', '%s: encoding the subsets in reverse order does not give the reversed bit strings' % tagK,
                              {'message_hex': encR[1].hex()}))
            dR = C.impl_decode(encR[1], K)
            info['compiled_decodes'] = info.get('compiled_decodes', 0) + 1
            why = together_alone_diff(dR, dA0[::-1])
            if why:
                probs.append(('compiled-permutation', '%s: reverse order: %s' % (tagK, why), {'message_hex': encR[1].hex()}))
    info['compiled'] = K
    return probs

# ---------------------------------------------------------------------------------------------
# the oracle
def perms_for(n, rng, quick):
    ident = tuple(range(n))
    if n <= 4:
        ps = [p for p in itertools.permutations(range(n)) if p != ident]
    else:
        ps = set()
        ps.add(tuple(reversed(ident)))
        while len(ps) < 4:
            p = list(ident)
            rng.shuffle(p)
            if tuple(p) != ident:
                ps.add(tuple(p))
        ps = sorted(ps)
    return ps


def encode_msg(c, valss, compiled=None):
    js = C.make_message_json(c.ids, P.py_inputs(valss), False, edition=c.edition)
    return C.impl_encode(js, compiled)


def set_n_subsets(b, n):
    """message bytes with the number of subsets in section 3 replaced"""
    pos, _ = C.locate_sections(b)[3]
    return b[:pos + 4] + n.to_bytes(2, 'big') + b[pos + 6:]


def strip_pad(bits, used):
    """(bits[:used], ok) ; ok = the rest is zero padding of less than 16 bits"""
    rest = bits[used:]
    return bits[:used], (len(bits) >= used and set(rest) <= {'0'} and len(rest) < 16)


def evaluate(drv, treq, cases, rng, quick=True, ks=None):
    """-> list of (case, problems [(stage, why, extra)], info).  ks: cache limits of the compiled path to run (default: one
    per case, rotating with the case index)"""
    out = []
    together = [encode_msg(c, c.valss) for c in cases]
    reqs = [treq]
    slot, cslot = {}, {}
    for i, (c, t) in enumerate(zip(cases, together)):
        cslot[i] = len(reqs)
        reqs.append({'op': 'compile', 'ids': c.ids})
        if t[0] == 'ok':
            slot[i] = len(reqs)
            reqs.append({'op': 'dec-subsets', 'ids': c.ids, 'n': c.n, 'bits': C.data_bits(t[1])})
            reqs.append({'op': 'wire', 'ids': c.ids, 'compressed': False, 'n': c.n, 'bits': C.data_bits(t[1])})
    res = drv.batch(reqs) if len(reqs) > 1 else []
    stash = {}
    for i, (c, t) in enumerate(zip(cases, together)):
        probs, info = [], {'enc': t[0]}
        out.append((c, probs, info))
        alone = stash[i] = []
        if t[0] != 'ok':
            # an input the encoder refuses as a whole: each subset alone must be refused somewhere as well
            alone.extend(encode_msg(c, [vs]) for vs in c.valss)
            if all(a[0] == 'ok' for a in alone):
                probs.append(('encode', 'together refused (%s) although every subset alone is encoded' % t[0], {}))
                # the decoder on the together-message the encoder should have produced: the alone bit strings in a row
                r1 = drv.batch([treq] + [{'op': 'dec-subsets', 'ids': c.ids, 'n': 1, 'bits': C.data_bits(a[1])} for a in alone])[1:]
                if all('consumed' in r for r in r1):
                    cat = ''.join(C.data_bits(a[1])[:r['consumed'][0]] for a, r in zip(alone, r1))
                    bT = C.replace_data(set_n_subsets(alone[0][1], c.n), cat)
                    oT = C.impl_decode(bT)
                    oA = [C.impl_decode(a[1]) for a in alone]
                    if all(o[0] == 'ok' for o in oA):
                        if oT[0] != 'ok':
                            probs.append(('together-vs-alone', 'the alone bit strings in a row fail to decode (%s), every subset alone decodes' % oT[0],
                                          {'message_hex': bT.hex(), 'alone_hex': [a[1].hex() for a in alone]}))
                        else:
                            for k in range(c.n):
                                why = subset_diff(oT[1][k], oA[k][1][0], 'together', 'alone')
                                if why:
                                    probs.append(('together-vs-alone', 'subset %d: %s' % (k, why), {'message_hex': bT.hex(), 'subset': k}))
                                    break
            continue
        bT = t[1]
        dataT = C.data_bits(bT)
        model = res[slot[i]]
        oT = full_decode(bT)
        info['dec'] = oT[0]
        # correspondence: model vs implementation on the together-message
        why = P.compare_decode((oT[0], oT[1], len(bT)), model)
        if why:
            probs.append(('decode-correspondence', why, {'message_hex': bT.hex()}))
        # correspondence of the wiring pass: model `wireAll` (Props/C06Wire.lean: subset by subset) vs the implementation's
        # node trees of the together-message
        why = compare_wire(oT, res[slot[i] + 1])
        info['wire_compared'] = why is None and oT[0] == 'ok'
        if why:
            probs.append(('wire-correspondence', why, {'message_hex': bT.hex()}))
        # alone, re-encoded
        alone.extend(encode_msg(c, [vs]) for vs in c.valss)
        if any(a[0] != 'ok' for a in alone):
            k = next(k for k, a in enumerate(alone) if a[0] != 'ok')
            probs.append(('encode', 'subset %d alone is refused (%s) although together is encoded' % (k, alone[k][0]), {}))
            continue
        oA = [full_decode(a[1]) for a in alone]
        if oT[0] != 'ok':
            if all(o[0] == 'ok' for o in oA):
                probs.insert(0, ('together-vs-alone', 'together fails to decode (%s), every subset alone decodes' % oT[0],
                                 {'message_hex': bT.hex(), 'alone_hex': [a[1].hex() for a in alone]}))
            continue
        for k in range(c.n):
            if oA[k][0] != 'ok':
                probs.insert(0, ('together-vs-alone', 'subset %d alone fails to decode (%s), together decodes' % (k, oA[k][0]),
                                 {'message_hex': bT.hex(), 'alone_hex': alone[k][1].hex()}))
                break
            why = subset_diff(oT[1][k], oA[k][1][0], 'together', 'alone')
            if why:
                probs.insert(0, ('together-vs-alone', 'subset %d: %s' % (k, why),
                                 {'message_hex': bT.hex(), 'alone_hex': alone[k][1].hex(), 'subset': k}))
                break
        # nested JSON
        nT = oT[2]
        nA = [o[2] for o in oA if o[0] == 'ok']
        if len(nA) == c.n:
            bad = [x for x in nA if isinstance(x, str)]
            info['wired'] = not bad
            if isinstance(nT, str) != bool(bad):
                probs.append(('hierarchy', 'nested JSON: together %s, alone %s' % (
                    nT if isinstance(nT, str) else 'ok', [x if isinstance(x, str) else 'ok' for x in nA]),
                    {'message_hex': bT.hex()}))
            elif bad:
                if nT not in bad:
                    probs.append(('hierarchy', 'nested JSON error family: together %s, alone %s' % (nT, bad), {'message_hex': bT.hex()}))
            else:
                for k in range(c.n):
                    if not nested_same(nT[k], nA[k][0]):
                        probs.append(('hierarchy', 'nested JSON of subset %d differs between together and alone' % k,
                                      {'message_hex': bT.hex(), 'alone_hex': alone[k][1].hex(), 'subset': k,
                                       'together_nested': nT[k], 'alone_nested': nA[k][0]}))
                        break
        # encoder: labels / links reported, bits of together = concatenation of alone
        for k in range(c.n):
            if t[2][k] != alone[k][2][0]:
                probs.append(('encoder-together-vs-alone', 'labels / links the encoder reports for subset %d differ' % k, {}))
                break
        if 'consumed' not in model:
            continue
        cons = model['consumed']
        cuts, pos = [], 0
        for k in range(c.n):
            cuts.append(dataT[pos:pos + cons[k]])
            pos += cons[k]
        _, okpad = strip_pad(dataT, pos)
        cat = []
        for k in range(c.n):
            part, ok = strip_pad(C.data_bits(alone[k][1]), cons[k])
            cat.append(part)
            okpad = okpad and ok
        if not okpad or ''.join(cat) != dataT[:pos]:
            k = next((k for k in range(c.n) if cat[k] != cuts[k]), -1)
            probs.append(('encoder-together-vs-alone', 'data bits of together are not the concatenation of the bits of each '
                          'subset alone (first difference in subset %d)' % k, {'message_hex': bT.hex()}))
            # the decoder all the same, on the message the encoder should have produced (the alone bit strings in a row)
            bC = C.replace_data(bT, ''.join(cat))
            oC = C.impl_decode(bC)
            if oC[0] != 'ok':
                probs.append(('together-vs-alone', 'the alone bit strings in a row fail to decode (%s), every subset alone decodes' % oC[0],
                              {'message_hex': bC.hex()}))
            else:
                for k in range(c.n):
                    why = subset_diff(oC[1][k], oA[k][1][0], 'alone bit strings in a row', 'alone')
                    if why:
                        probs.append(('together-vs-alone', 'subset %d: %s' % (k, why), {'message_hex': bC.hex(), 'subset': k}))
                        break
            continue
        # alone, cut at the model's boundaries (decoder on the very bits of the together-message)
        frame1 = alone[0][1]
        for k in range(c.n):
            ok_ = C.impl_decode(C.replace_data(frame1, cuts[k]))
            if ok_[0] != 'ok':
                probs.insert(0, ('together-vs-cut', 'the bits of subset %d alone fail to decode (%s)' % (k, ok_[0]), {'message_hex': bT.hex()}))
                break
            why = subset_diff(oT[1][k], ok_[1][0], 'together', 'cut out')
            if why:
                probs.insert(0, ('together-vs-cut', 'subset %d: %s' % (k, why), {'message_hex': bT.hex(), 'subset': k}))
                break
        # permutations
        perms = perms_for(c.n, rng, quick)
        info['perms'] = len(perms)
        for p in perms:
            bP = C.replace_data(bT, ''.join(cuts[j] for j in p))
            oP = C.impl_decode(bP)
            if oP[0] != 'ok':
                probs.append(('permutation', 'order %s fails to decode (%s)' % (list(p), oP[0]), {'message_hex': bT.hex(), 'order': list(p)}))
                break
            why = None
            for pos_, j in enumerate(p):
                why = subset_diff(oP[1][pos_], oT[1][j], 'permuted', 'original')
                if why:
                    why = 'order %s, position %d (subset %d): %s' % (list(p), pos_, j, why)
                    break
            if why:
                probs.append(('permutation', why, {'message_hex': bT.hex(), 'order': list(p)}))
                break
        # encoder on the reversed subsets
        rev = encode_msg(c, c.valss[::-1])
        if rev[0] != 'ok' or C.data_bits(rev[1])[:pos] != ''.join(cuts[::-1]):
            probs.append(('permutation', 'encoding the subsets in reverse order does not give the reversed bit strings (%s)' % rev[0],
                          {'message_hex': bT.hex()}))
    # the same subsets through the compiled-template path of encoder and decoder
    for i, (c, t) in enumerate(zip(cases, together)):
        _, probs, info = out[i]
        cr = res[cslot[i]]
        info['closed'] = 'closed' if cr.get('closed') else 'loose' if cr.get('loose') else 'open'
        for K in (ks if ks is not None else [k_of(c)]):
            probs.extend(compiled_stage(c, K, t, stash.get(i), info['closed'] != 'open', info))
    for _, probs, _ in out:
        probs.sort(key=lambda p: p[0].endswith('correspondence'))      # oracle failures first (stable)
    return out


def report(ctx, stage, why, c, extra=None):
    rep = c.replay()
    rep['why'] = why
    rep['stage'] = stage
    rep['family'] = c.note
    rep['compiled_cache_max'] = k_of(c)
    rep.update(extra or {})
    sig = {'stage': stage, 'features': sorted(P.classify(c.ids))}
    # a model/implementation disagreement with the oracle passing is not by itself a failing input of the property
    ctx.violation('%s: %s (ids %s, %d subsets)' % (stage, why, c.ids[:30], c.n), rep, signature=sig,
                  no_failing_input=stage.endswith('correspondence'))


def fails(drv, treq, c, stage, rng):
    r = evaluate(drv, treq, [c], rng)[0]
    return any(p[0] == stage for p in r[1])


def shrink_subsets(c, still):
    best = c
    budget = 25
    changed = True
    while changed and best.n > 1 and budget > 0:
        changed = False
        for k in range(best.n - 1, -1, -1):
            budget -= 1
            if budget <= 0:
                break
            c2 = P.Case(best.parts, best.forced, best.n - 1, False, best.edition, best.idx)
            c2.valss = best.valss[:k] + best.valss[k + 1:]
            c2.note = best.note
            if c2.n >= 1 and still(c2):
                best = c2
                changed = True
                break
    return best


def _eval_chunk(args):
    cases, seed, k = args
    drv = core.Driver()
    return evaluate(drv, tables_io.group_request(), cases, core.rng_for(PROP, seed, 'chunk-%d' % k))


def evaluate_all(ctx, drv, treq, cases, rng):
    """quick: in-process; thorough: the oracle runs in worker processes (it is independent per case)"""
    if ctx.tier == 'quick' or len(cases) < 40:
        return evaluate(drv, treq, cases, rng, True)
    import multiprocessing
    size = 25
    chunks = [(cases[i:i + size], ctx.seed, i) for i in range(0, len(cases), size)]
    with multiprocessing.Pool(min(12, len(chunks))) as pool:
        out = []
        for part in pool.map(_eval_chunk, chunks):
            out.extend(part)
    return out


def process(ctx, drv, treq, cases, rng, tag):
    for c, probs, info in evaluate_all(ctx, drv, treq, cases, rng):
        counts = sorted(set(len(vs) for vs in c.valss))
        ctx.case({'ids': c.ids, 'n': c.n, 'values': c.valss if len(json.dumps(c.valss)) < 1200 else core.chash(c.valss)},
                 nontrivial=(c.n >= 2 and info.get('dec') == 'ok'), sample=len(ctx.samples) < 4)
        ctx.count(tag)
        ctx.count('subsets-%d' % c.n)
        if tag in ('family', 'marker-op'):
            ctx.count('family:' + c.note.split(' ')[0])
        if tag == 'layout':
            for tok in c.note.split(' ')[1:]:
                ctx.count('layout:' + tok)
        if len(counts) > 1:
            ctx.count('subsets-of-different-length')
        if info.get('enc') != 'ok':
            ctx.count('encoder-refused')
        if info.get('dec'):
            ctx.traces += 1
            ctx.count('decode-' + info['dec'])
        if info.get('wire_compared'):
            ctx.count('node-trees-compared-with-model')
        if 'compiled' in info:
            ctx.count('compiled:cache-max-%d' % info['compiled'])
            ctx.count('compiled:template-%s' % info.get('closed'))
            ctx.count('compiled:decodes', info.get('compiled_decodes', 0))
            ctx.traces += info.get('compiled_decodes', 0)
            if info.get('compiled_plain_messages'):
                ctx.count('compiled:plain-encoder-messages-differ-from-compiled-encoder')
        if 'wired' in info:
            ctx.count('nested-json-' + ('compared' if info['wired'] else 'wiring-fails-both-ways'))
        ctx.count('orders-checked', info.get('perms', 0))
        for f in P.classify(c.ids):
            ctx.count(f)
        if probs:
            stage, why, extra = probs[0]
            ctx.shrinks = getattr(ctx, 'shrinks', 0) + 1
            if ctx.shrinks > 3:     # shrinking re-runs the oracle many times: only the first few failing cases are shrunk
                report(ctx, stage, why, c, extra)
                continue
            small = shrink_subsets(c, lambda c2: fails(drv, treq, c2, stage, ctx.rng('shrink')))
            if small is not c:
                r = evaluate(drv, treq, [small], ctx.rng('shrink'))[0]
                pr = [p for p in r[1] if p[0] == stage]
                if pr:
                    report(ctx, stage, pr[0][1], small, pr[0][2])
                    continue
            report(ctx, stage, why, c, extra)


def witness_cases():
    """always run: the F4 witness of DESIGN.md section 7 (two subsets with 2 and 1 repetitions)"""
    ids = [101000, 31001, 1001, 1002, 222000, 101000, 31001, 31031, 1031, 1032, 101000, 31001, 33007]
    c = P.Case([ids], [], 2, False, 4, 0)
    c.note = 'witness-f4'
    fps = [{31001: [2, 3, 1], 31031: [0, 1, 1]}, {31001: [1, 2, 1], 31031: [1, 0]}]
    return [(c, fps)]


def preset_cases():
    """hand-valued: a bitmap defined inside a delayed replication and re-used (237000) after it.  The subset with
    zero repetitions has no bitmap to recall and is refused on its own; after the subset that defines one it must be
    refused as well (bitmapped descriptors of the previous subset must not be recalled)."""
    ids = [1001, 1002, 104000, 31001, 222000, 236000, 101002, 31031, 223000, 237000, 101001, 223255]
    a = [11, 22, 1, 0, 0, 0, 1, 0, 0, 5]
    b = [33, 44, 0, 0, 0, 6]
    out = []
    for k, valss in enumerate(([a, b], [a, b, a], [a, a, b])):
        c = P.Case([ids], [], len(valss), False, 4, k)
        c.valss = valss
        c.note = 'preset-stale-bitmap'
        out.append(c)
    return out


def run(ctx):
    drv = ctx.driver
    treq = tables_io.group_request()
    quick = ctx.tier == 'quick'
    ctx.rule = 'at least two subsets and the together-message decodes'
    total = 800 if quick else 20000
    n_family = total // 2
    rng = ctx.rng('main')
    fam = Families(rng)
    done = 0
    first = True
    while done < total:
        m = min(200 if quick else 1000, total - done)
        pairs = witness_cases() if first else []
        first = False
        tags = {}
        for i in range(m):
            if done + i < n_family:
                c, fps = fam.make(done + i)
                pairs.append((c, fps))
                tags[id(c)] = 'family'
        k = m - len([1 for p in pairs if id(p[0]) in tags])
        if k > 0:
            for level in (1, 2, 2):
                for c in P.gen_cases(rng, (k + 2) // 3, level=level, max_subsets=5, compressed=False):
                    if c.n < 2:
                        c.n = 2
                    c.idx = done + len(pairs)
                    c.note = 'grammar-level%d' % level
                    pairs.append((c, None))
        done += m
        cases = gen_values(drv, treq, pairs, rng)
        ctx.count('values-not-generated', len(pairs) - len(cases))
        fcases = [c for c in cases if id(c) in tags or c.note.startswith('witness')]
        if done == m:
            fcases = preset_cases() + fcases
        gcases = [c for c in cases if not (id(c) in tags or c.note.startswith('witness'))]
        process(ctx, drv, treq, fcases, rng, 'family')
        process(ctx, drv, treq, gcases, rng, 'grammar')
    # layout-varying bitmap templates (own random stream: the cases above do not depend on this part)
    lrng = ctx.rng('layout')
    lg = c06gen.LayoutGen(lrng)
    n_layout = 250 if quick else 6000
    done = 0
    while done < n_layout:
        m = min(125 if quick else 1000, n_layout - done)
        pairs = [lg.make(done + i) for i in range(m)]
        done += m
        cases = gen_values(drv, treq, pairs, lrng)
        ctx.count('values-not-generated', len(pairs) - len(cases))
        process(ctx, drv, treq, cases, lrng, 'layout')
    # marker operators under an operator in force (own random stream)
    mrng = ctx.rng('marker-op')
    mg = MarkerOpGen(mrng)
    pairs = [mg.make(i) for i in range(60 if quick else 1500)]
    cases = gen_values(drv, treq, pairs, mrng)
    ctx.count('values-not-generated', len(pairs) - len(cases))
    process(ctx, drv, treq, cases, mrng, 'marker-op')


def replay(ctx, path):
    with open(path) as f:
        body = json.load(f)
    rep = body['replay']
    if 'undischarged' in rep:
        print(json.dumps(rep, default=repr)[:3000])
        return
    c = P.Case([rep['ids']], rep.get('forced', []), rep['n_subsets'], False, rep.get('edition', 4), rep.get('case_index', 0))
    c.valss = rep['values']
    c.note = rep.get('family', '')
    treq = tables_io.group_request()
    ks = [rep['compiled_cache_max']] + [k for k in COMPILED_KS if k != rep['compiled_cache_max']] if 'compiled_cache_max' in rep else None
    r = evaluate(ctx.driver, treq, [c], ctx.rng('replay'), ks=ks)[0]
    for stage, why, extra in r[1]:
        print('replay: %s: %s' % (stage, why))
    if not r[1]:
        print('replay: together = alone (values, labels, links, nested JSON), encoder bits concatenate, all orders agree; compiled path likewise')
    else:
        report(ctx, r[1][0][0], r[1][0][1], c, r[1][0][2])
