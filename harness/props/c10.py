"""
C10 — subsetting keeps exactly the selected subsets and nothing else changes.

Theorems: lean/BufrModel/Props/C10.lean (any number of sections / parameters / subsets / indices).
Tie: `BufrMessage.subset(I)` and the model's `subset` (driver op `subset`) are run on the same decoded
messages (sample corpus + synthesised multi-subset messages, compressed and not) and the same index
collections; the nested encoder inputs (or error families) are compared exactly.
Oracle (implementation alone): Decoder().process(Encoder().process(msg.subset(I)).serialized_bytes)
has n_subsets = #distinct indices, subset i carries the values of the i-th smallest selected index
(all-ones == missing per field width), every other parameter but the lengths is unchanged, the
source message renders the same before and after, out-of-range collections are refused with a
PyBufrKitError; the `pybufrkit subset` command is exercised through a subprocess.
Histories (harness/c10hist.py): the same comparison and the same oracle over sequences of operations on ONE message object
with one Encoder/Decoder - several subset() calls before any result is encoded, results encoded in another order / twice,
results changed by the caller, refused calls and source renderings / re-encodings in between, subsets of subsets.
"""
import copy
import glob
import hashlib
import json
import logging
import multiprocessing
import os
import random
import subprocess
import tempfile
import time

from harness import core
from harness import c10hist

PROP = 'C10'
# histories per source message: on the object that served the single calls ('used..', same task) and on a freshly decoded
# object ('fresh..', a task of its own so that a slow message is spread over two processes)
HISTORIES = {'quick': {'used': ['used'], 'fresh': ['fresh']}, 'thorough': {'used': ['used', 'used-b'], 'fresh': ['fresh', 'fresh-b']}}

META = dict(
    text='Kernel-checked theorems over the model of BufrMessage.subset for every message shape (any number of sections, '
         'parameters, subsets) and every index collection: for non-empty in-range collections the result is the encoder input '
         'whose template data are the rows at the sorted distinct indices in increasing order, whose n_subsets is the number of '
         'distinct indices and whose every other parameter (descriptors, compression flag, identification) is the source value; '
         'any index < 0 or >= n is refused with a library error; selecting all indices gives the message\'s own data; '
         'subsetting a subset equals subsetting the source with the composed indices; the source is only read; and '
         '(C10_reencode_decode, composing with the walk-level round trips of C03/C05) for selected rows that the checked '
         'encoder accepts, compressed or not, the decoder reads back from the encoder\'s bits exactly as many subsets as there '
         'are distinct indices, the i-th being value for value the canonical form of the source subset with the i-th smallest '
         'index. Correspondence: subset() vs the model on sample files (compressed and not) and synthesised 2..8-subset messages x '
         'index collections (single, full, first/last, reversed, repeats, random, out of range by one on each side, negative), '
         'exact comparison, each result consumed at once AND within operation histories on one message object with one '
         'Encoder/Decoder (several subset() calls - equal and different collections, refused ones in between, subsets of '
         'subsets - before any result is encoded; results encoded in another order, twice, after the caller changed other '
         'results; the source rendered / re-encoded before, between and after): every result, as returned and as it is at the '
         'end of the history, equals the model\'s pure function of (message, indices). The re-encode/decode part of the property '
         '(values of the i-th smallest index modulo all-ones = missing, metadata unchanged, source unchanged, refusal) is '
         'evaluated directly on the implementation for every encode of every history, incl. the CLI command.',
    technique='Lean 4 theorems (induction over parameter lists, sorted-distinct uniqueness, composition with the coder round-trip '
              'theorems) + checked model/implementation correspondence over single calls and operation histories + '
              'implementation-level oracle through Encoder/Decoder',
    note='C10_reencode_decode is stated for the walk-level coder model (data section; hypothesis: the checked encoder accepts the '
         'selected rows); the section framing around it (C04) and the float layer are not part of it. Aliasing is modelled by '
         'value: what sharing of lists between results / source could break is observed through the histories.')

QUICK_MAX_BYTES = 30000
QUICK_FILES = 40

_state = {}


# ---------------------------------------------------------------------------------------------
def _impl():
    """Lazily built per process: decoder with field recording, encoder, renderer."""
    if 'dec' in _state:
        return _state
    logging.disable(logging.CRITICAL)
    from pybufrkit.decoder import Decoder
    from pybufrkit.encoder import Encoder
    from pybufrkit.renderer import FlatJsonRenderer
    from pybufrkit.descriptors import ElementDescriptor

    class FieldDecoder(Decoder):
        """Decoder that also records, per decoded value, how the field was coded (kind, width, scale, reference)."""

        def __init__(self, *a, **k):
            super(FieldDecoder, self).__init__(*a, **k)
            self.c10_fields = {}

        def _rec(self, state, info):
            self.c10_fields.setdefault(id(state.decoded_values), []).append(info)

        def process_numeric(self, state, bit_reader, descriptor, nbits, scale_powered, refval):
            self._rec(state, ('num', nbits, scale_powered, refval, type(descriptor) is ElementDescriptor, descriptor.id))
            return super(FieldDecoder, self).process_numeric(state, bit_reader, descriptor, nbits, scale_powered, refval)

        def process_codeflag(self, state, bit_reader, descriptor, nbits):
            self._rec(state, ('code', nbits, 1, 0, type(descriptor) is ElementDescriptor, descriptor.id))
            return super(FieldDecoder, self).process_codeflag(state, bit_reader, descriptor, nbits)

        def process_string(self, state, bit_reader, descriptor, nbytes):
            self._rec(state, ('str', nbytes, 1, 0, type(descriptor) is ElementDescriptor, descriptor.id))
            return super(FieldDecoder, self).process_string(state, bit_reader, descriptor, nbytes)

        def process_new_refval(self, state, bit_reader, descriptor, nbits):
            self._rec(state, ('refval', nbits, 1, 0, False, descriptor.id))
            return super(FieldDecoder, self).process_new_refval(state, bit_reader, descriptor, nbits)

        def process_constant(self, state, bit_reader, descriptor, value):
            self._rec(state, ('const', 0, 1, 0, False, descriptor.id))
            return super(FieldDecoder, self).process_constant(state, bit_reader, descriptor, value)

        def decode_with_fields(self, data):
            self.c10_fields = {}
            m = self.process(data, wire_template_data=False)
            rows = m.template_data.value.decoded_values_all_subsets
            if m.is_compressed.value:
                f0 = self.c10_fields.get(id(rows[0]), []) if rows else []
                fields = [f0 for _ in rows]
            else:
                fields = [self.c10_fields.get(id(r), []) for r in rows]
            self.c10_fields = {}
            return m, fields

    _state['dec'] = FieldDecoder()
    _state['enc'] = Encoder()
    _state['render'] = FlatJsonRenderer()
    return _state


def canon_val(v):
    if isinstance(v, bool) or v is None:
        return v
    if isinstance(v, int):
        return v
    if isinstance(v, float):
        return 'f:' + repr(v)
    if isinstance(v, bytes):
        return 'b:' + v.hex()
    if isinstance(v, str):
        return 's:' + v
    if isinstance(v, (list, tuple)):
        return [canon_val(x) for x in v]
    return 'o:' + type(v).__name__


def cell_token(v):
    if v is None:
        return 'n'
    if isinstance(v, bool):
        return 't' if v else 'u'
    if isinstance(v, int):
        return 'i%d' % v
    if isinstance(v, float):
        return 'f' + repr(v)
    if isinstance(v, bytes):
        return 'b' + v.hex()
    if isinstance(v, str):
        return 's' + v
    return 'o' + repr(v)


class Interner(object):
    def __init__(self):
        self.ids = {}

    def row(self, r):
        ids = self.ids
        out = []
        for v in r:
            t = cell_token(v)
            k = ids.get(t)
            if k is None:
                k = ids[t] = len(ids)
            out.append(k)
        return out


def msg_for_model(m, interner):
    secs = []
    for section in m.sections:
        ps = []
        for p in section:
            if p.type == 'template_data':
                val = [interner.row(r) for r in p.value.decoded_values_all_subsets]
            else:
                val = canon_val(p.value)
            ps.append({'name': p.name, 'type': p.type, 'value': val})
        secs.append(ps)
    return secs


def canon_input(m, data, interner):
    """Canonical form of what subset() returned, positions typed by the source message's parameters."""
    out = []
    if not isinstance(data, list) or len(data) != len(m.sections):
        return 'shape'
    for section, sd in zip(m.sections, data):
        if not isinstance(sd, list) or len(sd) != len(list(section)):
            return 'shape'
        row = []
        for p, v in zip(section, sd):
            if p.type == 'template_data':
                row.append([interner.row(r) for r in v])
            else:
                row.append(canon_val(v))
        out.append(row)
    if len(out) != len(data):
        return 'shape'
    return out


def render_hash(st, m):
    data = st['render'].render(m)
    h = hashlib.sha256()
    for sec in data:
        for v in sec:
            h.update(repr(v).encode())
            h.update(b'|')
        h.update(b'#')
    return h.hexdigest()


# ---------------------------------------------------------------------------------------------
# index collections
def collections(rng, n, tier):
    """[(label, indices)] for a message of n subsets (n >= 1)."""
    out = []
    add = lambda lab, I: out.append((lab, list(I)))
    k = rng.randrange(n)
    add('single', [k])
    add('first', [0])
    add('last', [n - 1])
    add('first-last', [0, n - 1] if rng.random() < 0.5 else [n - 1, 0])
    big = n > 300
    if not big or rng.random() < 0.25:
        add('full', range(n))
        if rng.random() < 0.6 or tier == 'thorough':
            add('reversed', range(n - 1, -1, -1))
    # random selections, any order
    for _ in range(2 if tier == 'quick' else 4):
        size = rng.choice([1, 2, 3, max(1, n // 2), max(1, n - 1)])
        size = min(size, n, 40)
        I = rng.sample(range(n), size)
        if rng.random() < 0.3:
            I.sort()
        add('random', I)
    # repeats
    a, b = rng.randrange(n), rng.randrange(n)
    add('repeats', [a, a, b])
    add('repeats', [0, 0])
    I = [rng.randrange(n) for _ in range(rng.randint(2, min(2 * n + 2, 24)))]
    I.append(rng.choice(I))
    rng.shuffle(I)
    add('repeats', I)
    if n > 1 and (not big or rng.random() < 0.3):
        I = list(range(n)) + [rng.randrange(n)]
        rng.shuffle(I)
        add('repeats-full', I)
    # refused
    add('oob-high', [n])
    add('oob-low', [-1])
    base = rng.sample(range(n), min(n, rng.randint(1, 3)))
    I = base + [n]
    rng.shuffle(I)
    add('oob-high', I)
    I = base + [-1]
    rng.shuffle(I)
    add('oob-low', I)
    add('oob-both', rng.sample([-1, n] + base, len(base) + 2))
    add('oob-far', [rng.choice([n + 1, n + rng.randint(2, 1000), -n, -n - 1, -rng.randint(2, 1000)])] + (base if rng.random() < 0.5 else []))
    add('negative', [-rng.randint(1, max(1, n))])
    return out


def in_range(I, n):
    return all(0 <= i < n for i in I)


# ---------------------------------------------------------------------------------------------
# synthesis of multi-subset messages
def all_ones_raw(nbits):
    return (1 << nbits) - 1


def synth_value(rng, f, base):
    kind, nbits, sp, refval, plain, did = f
    if not plain or (did // 1000) % 100 == 31:
        return base
    r = rng.random()
    if kind in ('num', 'code'):
        if nbits < 2 or nbits > 32:
            return base
        if r < 0.35:
            return base
        if r < 0.45:
            return None
        top = all_ones_raw(nbits) - 1
        if r < 0.55:
            raw = top
        elif r < 0.62:
            raw = 0
        elif r < 0.8 and base is not None:
            raw0 = int(round(base * sp)) - refval
            raw = min(top, max(0, raw0 + rng.choice([-2, -1, 1, 2, 3])))
        else:
            raw = rng.randint(0, top)
        v = raw
        if kind == 'num':
            if refval:
                v += refval
            if sp != 1:
                v /= sp
        return v
    if kind == 'str':
        if r < 0.5 or not isinstance(base, bytes):
            return base
        if r < 0.6:
            return None
        return bytes(rng.choice(b'ABCXYZ019 ') for _ in range(nbits))
    return base


def synthesise(st, base_bytes, seedstr):
    """Encoder input with 2..8 subsets derived from one subset of a decodable message; returns (bytes, spec) or None."""
    rng = random.Random(seedstr)
    m, fields = st['dec'].decode_with_fields(base_bytes)
    n0 = m.n_subsets.value
    if n0 < 1:
        return None
    k = rng.randrange(n0)
    row, frow = m.template_data.value.decoded_values_all_subsets[k], fields[k]
    if len(row) != len(frow) or len(row) > 3000:
        return None
    N = rng.randint(2, 8)
    compressed = rng.random() < 0.5
    rows = []
    for s in range(N):
        if s > 0 and rng.random() < 0.15:
            rows.append(list(rows[rng.randrange(s)]))  # an exact duplicate of an earlier subset
        else:
            rows.append([synth_value(rng, f, v) for f, v in zip(frow, row)])
    data = []
    for section in m.sections:
        sd = []
        for p in section:
            if p.type == 'template_data':
                sd.append(rows)
            elif p.name == 'n_subsets':
                sd.append(N)
            elif p.name == 'is_compressed':
                sd.append(compressed)
            else:
                sd.append(p.value)
        data.append(sd)
    b = st['enc'].process(data, wire_template_data=False).serialized_bytes
    return b, {'N': N, 'compressed': compressed, 'row': k}


# ---------------------------------------------------------------------------------------------
# the oracle on the implementation
def equivalent(orig, new, f):
    """orig (source value) vs new (re-decoded): equal, or `new` is missing and `orig` is the field's all-ones pattern."""
    if orig == new and type(orig) is type(new):
        return 'eq'
    if isinstance(orig, (int, float)) and isinstance(new, (int, float)) and not isinstance(orig, bool) and orig == new:
        return 'eq'
    kind, nbits, sp, refval = f[0], f[1], f[2], f[3]
    if new is None and orig is not None and kind in ('num', 'code') and nbits > 1:
        raw = int(round(orig * sp)) - refval if kind == 'num' else orig
        if raw == all_ones_raw(nbits):
            return 'allones'
    if kind == 'str' and isinstance(orig, bytes) and isinstance(new, bytes):
        if new == (orig + b' ' * nbits)[:nbits] and new != orig:
            return 'padding'
    return None


def raw_of(v, f):
    return int(round(v * f[2])) - f[3] if f[0] == 'num' else v


def allones_with_missing(rows0, fields0, sel):
    """Is there a numeric/code column whose selected values are the field's all-ones pattern in some subsets and missing in
    all the others?  (Only a compressed source can hold such a value: minimum + increment.)"""
    if not sel or sel[-1] >= len(rows0) or sel[-1] >= len(fields0) or any(len(rows0[i]) != len(fields0[i]) for i in sel):
        return False
    f0 = fields0[sel[0]]
    for c, f in enumerate(f0):
        if f[0] not in ('num', 'code') or f[1] < 2:
            continue
        col = [rows0[i][c] for i in sel if c < len(rows0[i])]
        if None in col and any(v is not None for v in col) and \
                all(v is None or raw_of(v, f) == all_ones_raw(f[1]) for v in col):
            return True
    return False


def check_case(st, m, rows0, fields0, meta0, n, I, oracle=True):
    """Evaluate the property on the implementation for one index collection.
    Returns (impl_result_raw_or_tag, problems, info); problems = list of (kind, text, signature extras)."""
    from pybufrkit.errors import PyBufrKitError
    problems = []
    info = {}
    passed = list(I)
    try:
        data = m.subset(passed)
    except Exception as e:
        tag = core.err_tag(e)
        if in_range(I, n) and I:
            problems.append(('subset-raises', 'subset(%r) of a %d-subset message raised %s' % (I[:12], n, type(e).__name__), {}))
        elif I and not core.is_lib(tag):
            problems.append(('refusal', 'out-of-range collection %r (n=%d) raised %s, not a PyBufrKitError' % (I[:12], n, type(e).__name__),
                             {'how': 'other-error'}))
        return tag, problems, info
    if passed != list(I):
        problems.append(('argument-modified', 'subset() changed the caller\'s index list %r into %r' % (list(I)[:12], passed[:12]), {}))
    if not in_range(I, n):
        problems.append(('refusal', 'out-of-range collection %r accepted for a %d-subset message' % (I[:12], n), {'how': 'accepted'}))
        return data, problems, info
    if not st.get('reencodable', True) or not oracle:
        return data, problems, info
    encode_decode_compare(st, data, rows0, fields0, meta0, n, bool(m.is_compressed.value), I, problems, info)
    return data, problems, info


def encode_decode_compare(st, data, rows0, fields0, meta0, n, compressed, I, problems, info):
    """The re-encode/decode half of the property for one encoder input `data` that subset(I) returned for a message with
    the value lists rows0 (per-row field codings fields0) and parameters meta0: Decoder(Encoder(data)) holds exactly the rows
    at the sorted distinct indices.  Appends to problems; returns (encoder's message, bytes, decoded message, its fields) or None."""
    sel = sorted(set(I))
    repeats = len(sel) != len(I)
    try:
        em = st['enc'].process(data, wire_template_data=False)
        nb = em.serialized_bytes
    except Exception as e:
        problems.append(('encode-raises', 'Encoder refused subset(%r) (n=%d, compressed=%s): %s' % (
            I[:12], n, compressed, type(e).__name__), {'repeats': repeats, 'exc': type(e).__name__}))
        return None
    try:
        m2, fields2 = st['dec'].decode_with_fields(nb)
    except Exception as e:
        problems.append(('decode-raises', 'result of subset(%r) (n=%d) does not decode: %s' % (I[:12], n, type(e).__name__),
                         {'repeats': repeats, 'exc': type(e).__name__,
                          'allones_with_missing': bool(compressed) and allones_with_missing(rows0, fields0, sel)}))
        return None
    info['reencoded'] = True
    if m2.n_subsets.value != len(sel):
        problems.append(('n_subsets', 'n_subsets=%r after subset(%r), %d distinct indices' % (m2.n_subsets.value, I[:12], len(sel)),
                         {'repeats': repeats}))
    rows2 = m2.template_data.value.decoded_values_all_subsets
    if sel and sel[-1] >= len(rows0):
        problems.append(('hypothesis', 'the message has n_subsets=%d but %d value lists (subset(%r))' % (n, len(rows0), I[:12]), {}))
    elif len(rows2) != len(sel):
        problems.append(('values', '%d value lists after subset(%r), %d distinct indices' % (len(rows2), I[:12], len(sel)), {'repeats': repeats}))
    else:
        n_allones = n_pad = 0
        for pos, (i, r2, f2) in enumerate(zip(sel, rows2, fields2)):
            r0 = rows0[i]
            if len(r0) != len(r2) or len(f2) != len(r2):
                problems.append(('values', 'subset %d of the result (source index %d) has %d values, source has %d' % (pos, i, len(r2), len(r0)), {}))
                break
            bad = None
            for c, (a, b, f) in enumerate(zip(r0, r2, f2)):
                e = equivalent(a, b, f)
                if e == 'eq':
                    continue
                if e == 'allones':
                    n_allones += 1
                elif e == 'padding':
                    n_pad += 1
                else:
                    bad = (c, a, b, f)
                    break
            if bad:
                problems.append(('values', 'subset %d of subset(%r) (source index %d): value %d is %r, source has %r (field %r)' % (
                    pos, I[:12], i, bad[0], bad[2], bad[1], bad[3][:4] + bad[3][5:]), {}))
                break
        info['allones'] = n_allones
        if n_pad:
            problems.append(('string-padding', '%d character values of subset(%r) come back right-padded with blanks to the field width '
                             '(source decoded them shorter: compressed increments narrower than the field)' % (n_pad, I[:12]), {}))
    meta2 = metadata(m2)
    if meta2 != meta0:
        diff = [(a[0], a[1], b[1]) for a, b in zip(meta0, meta2) if a != b][:4]
        problems.append(('metadata', 'parameters changed by subset(%r): %r' % (I[:12], diff if len(meta0) == len(meta2) else 'different parameter lists'), {}))
    return em, nb, m2, fields2


SKIP_META = ('length', 'section_length', 'n_subsets')


def metadata(m):
    out = []
    for si, section in enumerate(m.sections):
        for p in section:
            if p.type == 'template_data' or p.name in SKIP_META:
                continue
            out.append(('%d.%s' % (si, p.name), canon_val(p.value)))
    return out


# ---------------------------------------------------------------------------------------------
def run_source(task):
    """One source message: all its index collections on the implementation and on the model.  Runs in a worker."""
    src, seed, tier = task['src'], task['seed'], task['tier']
    st = _impl()
    res = {'src': src, 'cases': [], 'problems': [], 'skipped': None, 'part': task.get('part')}
    try:
        with open(os.path.join(core.REPO, src['file']), 'rb') as f:
            data = f.read()
        if src.get('synth'):
            try:
                r = synthesise(st, data, src['synth'])
            except Exception as e:
                res['skipped'] = 'synthesis failed: %s' % type(e).__name__
                return res
            if r is None:
                res['skipped'] = 'synthesis not applicable'
                return res
            data, spec = r
            res['spec'] = spec
        try:
            m, fields0 = st['dec'].decode_with_fields(data)
        except Exception as e:
            res['skipped'] = 'source does not decode: %s' % type(e).__name__
            return res
    except OSError as e:
        raise core.MachineryError(str(e))
    n = m.n_subsets.value
    res['n'] = n
    res['compressed'] = bool(m.is_compressed.value)
    if n < 1:
        res['skipped'] = 'no subsets'
        return res
    rows0 = copy.deepcopy(m.template_data.value.decoded_values_all_subsets)
    meta0 = metadata(m)
    before = render_hash(st, m)
    # precondition of the re-encode part: the message itself can be re-encoded and decoded
    reenc0 = None
    try:
        reenc0 = st['enc'].process(st['render'].render(m), wire_template_data=False).serialized_bytes
        st['dec'].process(reenc0, wire_template_data=False)
        st['reencodable'] = True
    except Exception as e:
        st['reencodable'] = False
        res['not_reencodable'] = type(e).__name__
    if render_hash(st, m) != before or m.template_data.value.decoded_values_all_subsets != rows0:
        # not a subset() call, but the same statement: rendering a message and encoding the rendering leaves the message alone
        res['problems'].append({'kind': 'source-modified', 'I': [], 'extra': {'by': 'reencode-source'},
                                'text': 'rendering the source message (flat JSON) and encoding the rendering changed the source message'})
        rows0 = copy.deepcopy(m.template_data.value.decoded_values_all_subsets)
        before = render_hash(st, m)
    only_hist = task.get('only_history')
    if 'only' in task:
        colls = [('replay', task['only'])]
    elif (only_hist and not only_hist['which'].startswith('used')) or task.get('part') == 'fresh':
        colls = []
    else:
        colls = collections(core.rng_for(PROP, seed, 'idx:' + json.dumps(src, sort_keys=True)), n, tier)
    interner = Interner()
    mm = msg_for_model(m, interner)
    impl_out = []
    seen = set()
    for lab, I in colls:
        # a one-subset message: every in-range collection selects the message itself; in the quick tier the encode/decode
        # oracle runs once without and once with repeats (subset(), refusal and the model comparison run for all)
        key = (len(I) != len(set(I))) if (n == 1 and tier == 'quick' and in_range(I, n) and 'only' not in task) else tuple(I) + (len(seen),)
        raw, problems, info = check_case(st, m, rows0, fields0, meta0, n, I, oracle=key not in seen)
        seen.add(key)
        if render_hash(st, m) != before or m.template_data.value.decoded_values_all_subsets != rows0:
            problems.append(('source-modified', 'the source message renders differently after subset(%r) + encode' % (I[:12],), {}))
            before = render_hash(st, m)
        co = raw if isinstance(raw, str) else canon_input(m, raw, interner)
        impl_out.append(co)
        res['cases'].append({'label': lab, 'I': I if len(I) <= 40 else I[:40] + ['...%d' % len(I)], 'nI': len(I),
                             'distinct': len(set(I)), 'ok': in_range(I, n), 'reencoded': info.get('reencoded', False),
                             'allones': info.get('allones', 0)})
        for kind, text, extra in problems:
            res['problems'].append({'kind': kind, 'text': text, 'I': I, 'extra': extra})
    # operation histories on one message object (a freshly decoded one; the one used above), see harness/c10hist.py
    hists = []
    res['histories'] = []
    if 'only' not in task:
        part = task.get('part')
        plan_for = HISTORIES[tier][part] if part else HISTORIES[tier]['fresh'] + HISTORIES[tier]['used']
        if part == 'used' and n == 1 and tier == 'quick':
            plan_for = []       # one subset: every in-range selection is the message itself; the fresh history covers it
        for which in ([only_hist['which']] if only_hist else plan_for):
            if which.startswith('fresh'):
                mh, fh = st['dec'].decode_with_fields(data)
            else:
                mh, fh = m, fields0
            if only_hist:
                ops = only_hist['ops']
            else:
                ops = c10hist.plan(core.rng_for(PROP, seed, 'hist:%s:%s' % (which, json.dumps(src, sort_keys=True))), n, tier)
            h = c10hist.execute(st, mh, fh, ops, reencodable=st['reencodable'], reenc0=reenc0 if st['reencodable'] else None)
            h['which'], h['ops'] = which, ops
            hists.append(h)
    # the model on the same message and collections
    outs = core.Driver().batch([{'op': 'subset', 'msg': mm, 'idxs': [I for _, I in colls]}] + [rq for h in hists for rq in h['requests']])
    out = outs[0]
    k = 1
    for h in hists:
        nreq = len(h['requests'])
        h['problems'] += c10hist.compare_model(h['expect'], outs[k:k + nreq])
        k += nreq
        for kind, text, extra, at in h['problems']:
            res['problems'].append({'kind': kind, 'text': 'history(%s) %s' % (h['which'], text), 'I': [], 'extra': extra,
                                    'hist': {'which': h['which'], 'ops': h['ops'], 'at': at}})
        res['histories'].append({'which': h['which'], 'stats': h['stats'], 'digest': c10hist.digest(h['ops'])[:400], 'nops': len(h['ops'])})
    if out['n'] != n:
        res['problems'].append({'kind': 'correspondence', 'text': 'model reads n_subsets=%r, implementation %r' % (out['n'], n), 'I': [], 'extra': {}})
    if not out.get('wf'):
        res['problems'].append({'kind': 'hypothesis', 'I': [], 'extra': {},
                                'text': 'decoded message does not satisfy the theorems\' hypotheses (integer n_subsets, one value list per subset)'})
    for (lab, I), a, b, s in zip(colls, impl_out, out['r'], out['sel']):
        tag_b = b if not isinstance(b, str) else b
        if a != tag_b:
            res['problems'].append({'kind': 'correspondence', 'I': I, 'extra': {},
                                    'text': 'subset(%r): implementation %s, model %s%s' % (I[:12], brief(a), brief(tag_b), first_diff(m, a, tag_b))})
        if s != sorted(set(I)):
            res['problems'].append({'kind': 'correspondence', 'I': I, 'extra': {'spec': True},
                                    'text': 'Spec.sortedDistinct(%r) = %r' % (I[:12], s[:12])})
    return res


def first_diff(m, a, b):
    """Where two encoder inputs differ first (section.parameter), for the report."""
    if isinstance(a, str) or isinstance(b, str):
        return ''
    try:
        for si, (section, sa, sb) in enumerate(zip(m.sections, a, b)):
            for p, va, vb in zip(section, sa, sb):
                if va != vb:
                    if p.type == 'template_data':
                        return '; first difference at %d.%s: %d vs %d value lists' % (si, p.name, len(va), len(vb)) if len(va) != len(vb) else \
                            '; first difference at %d.%s: value list %d' % (si, p.name, [x != y for x, y in zip(va, vb)].index(True))
                    return '; first difference at %d.%s: %r vs %r' % (si, p.name, va, vb)
    except Exception:
        pass
    return ''


def brief(x):
    if isinstance(x, str):
        return x
    try:
        return 'input(n_rows=%s, sha=%s)' % ([len(v) for sec in x for v in sec if isinstance(v, list) and v and isinstance(v[0], list)],
                                              core.chash(x)[:8])
    except Exception:
        return repr(x)[:80]


# ---------------------------------------------------------------------------------------------
def corpus_files(ctx):
    data = sorted(glob.glob(os.path.join(core.REPO, 'tests', 'data', '*.bufr')))
    bench = sorted(glob.glob(os.path.join(core.REPO, 'tests', 'benchmark_data', '*.bufr')))
    if ctx.tier == 'thorough':
        return data + bench
    rng = ctx.rng('files')
    small = [f for f in data if os.path.getsize(f) <= 60000]
    cand = [f for f in bench if os.path.getsize(f) <= QUICK_MAX_BYTES]
    rng.shuffle(cand)
    return small + sorted(cand[:max(0, QUICK_FILES - len(small))])


def rel(p):
    return os.path.relpath(p, core.REPO)


def cli_cases(ctx, files):
    """`pybufrkit subset` through a subprocess on three inputs."""
    st = _impl()
    env = dict(os.environ, PYTHONPATH=core.REPO)
    picked = []
    for f in files:
        try:
            m = st['dec'].process(open(f, 'rb').read(), wire_template_data=False)
        except Exception:
            continue
        n = m.n_subsets.value
        if n >= 3 and len([q for q in picked if q[1] == '0,2']) < 2:
            picked.append((f, '0,2', n, bool(m.is_compressed.value)))
        elif n == 2 and not any(p[1] == '1,0' for p in picked):
            picked.append((f, '1,0', n, bool(m.is_compressed.value)))
        if len(picked) >= 4:
            break
    if picked:
        picked.append((picked[0][0], '%d' % picked[0][2], picked[0][2], picked[0][3]))  # out of range by one
    for f, arg, n, comp in picked:
        I = [int(x) for x in arg.split(',')]
        with tempfile.TemporaryDirectory() as d:
            outp = os.path.join(d, 'out.bufr')
            p = subprocess.run(['/venv/bin/python', '-m', 'pybufrkit', 'subset', arg, f, outp], env=env, cwd=d,
                               stdout=subprocess.PIPE, stderr=subprocess.PIPE, text=True, timeout=300)
            ctx.count('cli')
            ctx.case({'cli': rel(f), 'I': I}, nontrivial=True)
            what = None
            if not in_range(I, n):
                if os.path.exists(outp) or 'Traceback' in p.stderr:
                    what = 'CLI subset %s on %s (n=%d): out-of-range index not refused cleanly' % (arg, rel(f), n)
            elif not os.path.exists(outp):
                what = 'CLI subset %s on %s (n=%d) wrote no output: %s' % (arg, rel(f), n, p.stderr.strip()[-200:])
            else:
                m0, _ = st['dec'].decode_with_fields(open(f, 'rb').read())
                try:
                    m2, f2 = st['dec'].decode_with_fields(open(outp, 'rb').read())
                    sel = sorted(set(I))
                    rows0, rows2 = m0.template_data.value.decoded_values_all_subsets, m2.template_data.value.decoded_values_all_subsets
                    okv = len(rows2) == len(sel) and all(
                        len(rows0[i]) == len(r2) and all(equivalent(a, b, ff) in ('eq', 'allones', 'padding') for a, b, ff in zip(rows0[i], r2, fr))
                        for i, r2, fr in zip(sel, rows2, f2))
                    if m2.n_subsets.value != len(sel) or not okv or metadata(m2) != metadata(m0):
                        what = 'CLI subset %s on %s: output does not hold exactly the selected subsets' % (arg, rel(f))
                except Exception as e:
                    what = 'CLI subset %s on %s: output does not decode (%s)' % (arg, rel(f), type(e).__name__)
            if what:
                ctx.violation(what, {'cli': rel(f), 'arg': arg, 'stderr': p.stderr[-500:]}, signature={'kind': 'cli'})


def report(ctx, res):
    src = res['src']
    name = src['file'] + ('#synth:' + src['synth'] if src.get('synth') else '')
    if res['skipped']:
        if res.get('part') != 'fresh':
            ctx.count('skipped: ' + res['skipped'])
        return
    if res.get('part') != 'fresh':
        ctx.count('messages')
        ctx.count('messages compressed' if res['compressed'] else 'messages uncompressed')
        ctx.count('messages multi-subset' if res['n'] > 1 else 'messages single-subset')
        if src.get('synth'):
            ctx.count('messages synthesised')
        if res.get('not_reencodable'):
            ctx.count('messages not re-encodable as they are (%s): subset()/refusal/correspondence only' % res['not_reencodable'])
    for c in res['cases']:
        ctx.count('idx ' + c['label'])
        ctx.traces += 1
        nontrivial = (c['ok'] and c['reencoded'] and res['n'] > 1) or (not c['ok'])
        ctx.case({'src': name, 'I': c['I']}, nontrivial=nontrivial, sample=(ctx.evaluations % 211 == 0))
        if c['allones']:
            ctx.count('values identified all-ones == missing', c['allones'])
    for h in res.get('histories', []):
        stt = h['stats']
        ctx.count('histories')
        ctx.count('history ops', h['nops'])
        for key, v in sorted(stt.items()):
            if v and key not in ('objects',):
                ctx.count('hist ' + key, v)
        ctx.traces += stt.get('results compared with the model', 0)
        nontrivial = stt.get('encode after a later subset()', 0) >= 1 and stt.get('subset', 0) >= 3
        ctx.case({'src': name, 'history': h['which'], 'ops': h['digest']}, nontrivial=nontrivial, sample=(ctx.evaluations % 97 == 0))
    for p in res['problems']:
        sig = dict(p['extra'], kind=p['kind'])
        replay = {'src': src, 'I': p['I'], 'kind': p['kind'], 'n': res['n'], 'compressed': res['compressed']}
        if p.get('hist'):
            replay['history'] = p['hist']
        ctx.violation('%s [%s, n=%d, %s]: %s' % (p['kind'], name, res['n'], 'compressed' if res['compressed'] else 'uncompressed', p['text']),
                      replay, signature=sig)


def shrink(ctx, res):
    """Greedy shrinking of the index collection of every distinct kind of problem (same kind must persist)."""
    seen = set()
    done = ctx.__dict__.setdefault('c10_shrunk', {})
    for p in list(res['problems']):
        key = (p['kind'], json.dumps(p['extra'], sort_keys=True))
        if key in seen or not p['I'] or done.get(key, 0) >= 2:
            continue
        seen.add(key)
        done[key] = done.get(key, 0) + 1
        I = list(p['I'])
        changed = True
        budget = 40
        deadline = ctx.__dict__.setdefault('c10_shrink_deadline_i', time.time() + (45 if ctx.tier == 'quick' else 300))
        while changed and len(I) > 1 and budget > 0 and time.time() <= deadline:
            changed = False
            for k in range(len(I)):
                J = I[:k] + I[k + 1:]
                budget -= 1
                r = run_source({'src': res['src'], 'seed': ctx.seed, 'tier': ctx.tier, 'only': J})
                if any(q['kind'] == p['kind'] and q['extra'] == p['extra'] for q in r['problems']):
                    I = J
                    changed = True
                    break
                if budget <= 0:
                    break
        if I != p['I']:
            r = run_source({'src': res['src'], 'seed': ctx.seed, 'tier': ctx.tier, 'only': I})
            q = [q for q in r['problems'] if q['kind'] == p['kind'] and q['extra'] == p['extra']]
            if q:
                p['I'], p['text'] = I, q[0]['text']


def shrink_history(ctx, res):
    """Shorten the history of every distinct kind of history problem: drop one operation at a time (operations whose
    referent disappears are skipped by the executor), the same kind of problem must persist."""
    seen = set()
    done = ctx.__dict__.setdefault('c10_shrunk_h', {})
    for p in list(res['problems']):
        if not p.get('hist'):
            continue
        key = (p['kind'], json.dumps(p['extra'], sort_keys=True))
        if key in seen or done.get(key, 0) >= 2:
            continue
        seen.add(key)
        done[key] = done.get(key, 0) + 1
        which, ops = p['hist']['which'], list(p['hist']['ops'])
        deadline = ctx.__dict__.setdefault('c10_shrink_deadline', time.time() + (30 if ctx.tier == 'quick' else 300))
        state = {'which': which}

        def still(cand, which=None):
            if time.time() > deadline:
                return []
            r = run_source({'src': res['src'], 'seed': ctx.seed, 'tier': ctx.tier,
                            'only_history': {'which': which or state['which'], 'ops': cand}})
            return [q for q in r['problems'] if q.get('hist') and q['kind'] == p['kind'] and q['extra'] == p['extra']]
        if which.startswith('used') and still(ops, 'fresh'):
            state['which'] = 'fresh'     # the calls made on the object before the history are not needed
        at = p['hist'].get('at')
        if at is not None and at + 1 < len(ops) and still(ops[:at + 1]):
            ops = ops[:at + 1]
        budget = 45
        k = len(ops) - 1
        while k >= 0 and budget > 0 and len(ops) > 1 and time.time() <= deadline:
            cand = ops[:k] + ops[k + 1:]
            budget -= 1
            if still(cand):
                ops = cand
            k -= 1
        if len(ops) < len(p['hist']['ops']) or state['which'] != which:
            q = still(ops)
            if q:
                p['hist'], p['text'] = q[0]['hist'], q[0]['text']


def run(ctx):
    ctx.rule = ('sample messages (tests/data + tests/benchmark_data) and messages synthesised from them with 2..8 subsets, compressed and '
                'not, x index collections {single, first, last, first/last, full, reversed, random, with repeats, out of range by one on '
                'each side, far out of range, negative}. Non-trivial: in-range collection on a multi-subset message whose result was '
                're-encoded and decoded, or a refused out-of-range collection; distinct by (message, collection). '
                'Plus, per message, operation histories (harness/c10hist.py) on a freshly decoded object and on the object used '
                'above: 3-8 subset() calls (different / equal collections, refused calls in between, subsets of derived messages) '
                'before and between the encodes, results encoded in another order / twice, caller mutation of returned lists, '
                'source rendered / re-encoded in between; non-trivial history: >= 3 subset() calls and a result encoded after a '
                'later subset() call.')
    files = corpus_files(ctx)
    tasks = [{'src': {'file': f}, 'seed': ctx.seed, 'tier': ctx.tier} for f in files]
    rng = ctx.rng('synth')
    bases = [f for f in files if os.path.getsize(f) <= (QUICK_MAX_BYTES if ctx.tier == 'quick' else 60000)]
    n_synth = 72 if ctx.tier == 'quick' else 3000
    for k in range(n_synth):
        f = bases[k % len(bases)] if k < len(bases) else rng.choice(bases)
        tasks.append({'src': {'file': f, 'synth': '%d:%d:%d' % (ctx.seed, k, rng.randrange(10 ** 9))}, 'seed': ctx.seed, 'tier': ctx.tier})
    for t in tasks:
        t['src']['file'] = rel(t['src']['file'])
    tasks = [dict(t, part=part) for t in tasks for part in ('used', 'fresh')]
    results = run_tasks(tasks)
    for res in results:
        if res['problems']:
            shrink(ctx, res)
            shrink_history(ctx, res)
        report(ctx, res)
    cli_cases(ctx, [os.path.join(core.REPO, 'tests', 'data', x) for x in ('g2nd_208.bufr', 'contrived.bufr', '207003.bufr', 'ISMD01_OKPR.bufr')])
    ctx.assumptions = [
        'the re-encode/decode part is evaluated on the implementation; C10_reencode_decode proves it for the walk-level coder model '
        'under the hypothesis that the checked encoder accepts the selected rows',
        'caller mutation in the histories touches only lists that subset() builds itself (outer list, section lists, list of value '
        'lists); the value lists and parameter values (descriptor list) are shared with the source by the code as it is',
        'messages that the Encoder cannot re-encode even unmodified (tables not available without normalisation) take part in the '
        'subset()/refusal/correspondence comparison only',
        'value comparison identifies a field\'s all-ones pattern with missing using the width/scale/reference the decoder used for that field',
        'index collections are lists of Python ints; an empty collection is outside the property (max([]) raises ValueError)',
    ]


def run_tasks(tasks):
    def size(t):
        try:
            return os.path.getsize(os.path.join(core.REPO, t['src']['file']))
        except OSError:
            return 0
    order = sorted(range(len(tasks)), key=lambda k: (-size(tasks[k]), k))      # the slow ones first; results in task order
    with multiprocessing.Pool(min(16, os.cpu_count() or 4)) as pool:
        try:
            # a worker that dies would make a plain map() wait forever
            out = pool.map_async(run_source, [tasks[k] for k in order], chunksize=1).get(timeout=6 * 3600)
        except multiprocessing.TimeoutError:
            raise core.MachineryError('worker pool did not finish')
    results = [None] * len(tasks)
    for k, r in zip(order, out):
        results[k] = r
    return results


def replay(ctx, path):
    body = json.load(open(path))
    rp = body['replay']
    if 'cli' in rp:
        cli_cases(ctx, [os.path.join(core.REPO, rp['cli'])])
        return
    if rp.get('history'):
        res = run_source({'src': rp['src'], 'seed': body.get('seed', 0), 'tier': body.get('tier', 'quick'),
                          'only_history': {'which': rp['history']['which'], 'ops': rp['history']['ops']}})
    else:
        res = run_source({'src': rp['src'], 'seed': body.get('seed', 0), 'tier': 'quick', 'only': rp['I']})
    report(ctx, res)
    print(json.dumps({'n': res.get('n'), 'cases': res['cases'], 'problems': [p['text'] for p in res['problems']]})[:2000])
