"""
C19 — bit-level reading and writing are exact inverses for every width.

Theorems: lean/BufrModel/Props/C19.lean (unbounded widths / field counts).
Tie: field programs run on pybufrkit.bitops and on the model driver (`bits` op), observations
(position after every op, bit string, values read, error family) compared exactly; in addition the
law itself is evaluated on the implementation's own outputs (oracle).
"""
import json
import os

from harness import core

PROP = 'C19'


# ---------------------------------------------------------------------------------------------
def impl_bits(prog):
    from pybufrkit.bitops import get_bit_writer, get_bit_reader
    w = get_bit_writer()
    wout = []
    failed = False
    for op in prog.get('w', []):
        try:
            k = op[0]
            if k == 'u':
                w.write_uint(op[2], op[1])
            elif k == 'i':
                w.write_int(op[2], op[1])
            elif k == 'b':
                w.write_bool(bool(op[1]))
            elif k == 'bin':
                w.write_bin(op[1])
            elif k == 'bytes':
                w.write_bytes(bytes.fromhex(op[2]), op[1])
            elif k == 'skip':
                w.skip(op[1])
            elif k == 'set':
                w.set_uint(op[1], op[2], op[3])
            else:
                raise core.MachineryError('bad op')
            wout.append(w.get_pos())
        except core.MachineryError:
            raise
        except Exception as e:
            wout.append(core.err_tag(e))
            failed = True
            break
    bits = '' if failed else w.bit_stream.bin  # the stream after a refused write is not observed
    rout = []
    if not failed and prog.get('r'):
        if len(bits) % 8 != 0:
            return {'w': wout, 'bits': bits, 'r': ['unaligned']}
        r = get_bit_reader(w.to_bytes())
        for op in prog['r']:
            try:
                k = op[0]
                if k == 'u':
                    v = r.read_uint(op[1])
                elif k == 'un':
                    v = r.read_uint_or_none(op[1])
                elif k == 'i':
                    v = r.read_int(op[1])
                elif k == 'b':
                    v = r.read_bool()
                elif k == 'bin':
                    v = r.read_bin(op[1])
                elif k == 'bytes':
                    v = r.read_bytes(op[1]).hex()
                else:
                    raise core.MachineryError('bad op')
                rout.append([v, r.get_pos()])
            except core.MachineryError:
                raise
            except Exception as e:
                rout.append(core.err_tag(e))
                break
    return {'w': wout, 'bits': bits, 'r': rout}


def pad_op(nbits):
    r = (-nbits) % 8
    return ['bin', '0' * r]


def binstr(v, n):
    return format(v, '0%db' % n) if n else ''


# ---------------------------------------------------------------------------------------------
# exhaustive grid of the property's quantifier
def grid():
    for n in range(1, 65):
        vals = sorted({0, 1, 2 ** (n - 1), 2 ** n - 2, 2 ** n - 1} & set(range(0, 2 ** n)) if n < 20
                      else {0, 1, 2 ** (n - 1), 2 ** n - 2, 2 ** n - 1})
        for off in range(8):
            prefix = ('10110100')[:off]
            for v in vals:
                total = off + n
                yield {'kind': 'uint', 'n': n, 'v': v, 'off': off,
                       'w': [['bin', prefix], ['u', n, v], pad_op(total)],
                       'r': [['bin', off], ['u', n]]}
                yield {'kind': 'uint_or_none', 'n': n, 'v': v, 'off': off,
                       'w': [['bin', prefix], ['u', n, v], pad_op(total)],
                       'r': [['bin', off], ['un', n]]}
                # in-place overwrite of a field that sits between a prefix and a suffix
                filler = (v * 7 + 3) % (2 ** n)
                suffix = '1101001'[: (off * 3) % 7 + 1]
                total2 = off + n + len(suffix)
                yield {'kind': 'set', 'n': n, 'v': v, 'off': off, 'suffix': suffix, 'prefix': prefix,
                       'w': [['bin', prefix], ['u', n, filler], ['bin', suffix], pad_op(total2), ['set', v, n, off]],
                       'r': [['bin', off], ['u', n], ['bin', len(suffix)]]}
            # in-place overwrite with a value that does not fit (too large by one / by much, negative): refused, stream untouched
            for bad in (2 ** n, 2 ** n + 1, 2 ** (n + 3) + 5, -1, -2, -(2 ** (n - 1)), -(2 ** n)):
                filler = (bad * 5 + 1) % (2 ** n)
                suffix = '1101001'[: (off * 3) % 7 + 1]
                total2 = off + n + len(suffix)
                yield {'kind': 'set-unfit', 'n': n, 'v': bad, 'off': off, 'suffix': suffix, 'prefix': prefix, 'filler': filler,
                       'w': [['bin', prefix], ['u', n, filler], ['bin', suffix], pad_op(total2), ['set', bad, n, off]],
                       'r': [['bin', off], ['u', n], ['bin', len(suffix)]]}
            # sign-magnitude
            mags = sorted({0, 1, 2 ** (n - 2), 2 ** (n - 1) - 2, 2 ** (n - 1) - 1} & set(range(0, max(1, 2 ** (n - 1))))) if 2 <= n < 20 else (
                [0, 1, 2 ** (n - 2), 2 ** (n - 1) - 2, 2 ** (n - 1) - 1] if n >= 20 else [0, 1])
            for m in mags:
                for sgn in (1, -1):
                    v = sgn * m
                    total = off + n
                    yield {'kind': 'int', 'n': n, 'v': v, 'off': off,
                           'w': [['bin', prefix], ['i', n, v], pad_op(total)],
                           'r': [['bin', off], ['i', n]]}


def oracle_grid(case, out):
    """The law evaluated on the implementation's own observation.  Returns None or a message."""
    k, n, v, off = case['kind'], case['n'], case['v'], case['off']
    if k in ('uint', 'uint_or_none'):
        if out['w'] != [off, off + n, off + n + (-(off + n)) % 8]:
            return 'writer positions %r' % (out['w'],)
        exp = v
        if k == 'uint_or_none' and n > 1 and v == 2 ** n - 1:
            exp = None
        if len(out['r']) != 2 or out['r'][1] != [exp, off + n]:
            return 'read back %r, expected %r at %d' % (out['r'], exp, off + n)
        if out['bits'][off:off + n] != binstr(v, n):
            return 'field bits are not the big-endian binary of the value'
    elif k == 'int':
        if n < 2:
            return None if (out['w'] and isinstance(out['w'][-1], str)) else 'width-1 signed write accepted'
        if len(out['r']) != 2 or out['r'][1] != [v, off + n]:
            return 'signed read back %r, expected %r' % (out['r'], v)
        if out['bits'][off:off + n] != ('1' if v < 0 else '0') + binstr(abs(v), n - 1):
            return 'signed field is not sign bit + magnitude'
    elif k == 'set-unfit':
        if not (out['w'] and isinstance(out['w'][-1], str)):
            return 'overwrite with the unfit value %d (width %d) was accepted; field now reads %s' % (v, n, out['bits'][off:off + n])
    elif k == 'set':
        total = off + n + len(case['suffix'])
        total += (-total) % 8
        exp = case['prefix'] + binstr(v, n) + case['suffix']
        exp += '0' * (total - len(exp))
        if out['bits'] != exp:
            return 'overwrite changed other bits or the length: %d bits, expected %d' % (len(out['bits']), len(exp))
        if out['w'][-1] != total:
            return 'overwrite moved the writer position'
    return None


# ---------------------------------------------------------------------------------------------
def random_program(rng, malformed=False):
    nf = rng.choice([1, 2, 3, 5, 8, 13, 30, 80, 200]) if not malformed else rng.randint(1, 12)
    w, r, fields = [], [], []
    pos = 0
    for _ in range(nf):
        t = rng.choice(['u', 'u', 'u', 'i', 'b', 'bin', 'bytes', 'skip'])
        if t == 'u':
            n = rng.choice([rng.randint(1, 64), rng.randint(1, 8), rng.choice([8, 16, 24, 32, 64]), rng.randint(65, 130)])
            v = rng.choice([0, 1, 2 ** n - 1, 2 ** n - 2, 2 ** (n - 1), rng.randrange(2 ** n)])
            if malformed and rng.random() < 0.3:
                v = rng.choice([2 ** n, 2 ** n + rng.randrange(100), -1, -rng.randrange(1, 2 ** n + 1)])
            if malformed and rng.random() < 0.1:
                n = 0
            w.append(['u', n, v]); r.append([rng.choice(['u', 'u', 'un']), n]); fields.append(('u', n))
            pos += n
        elif t == 'i':
            n = rng.randint(2, 64)
            m = rng.choice([0, 1, 2 ** (n - 1) - 1, rng.randrange(2 ** (n - 1))])
            if malformed and rng.random() < 0.3:
                m = 2 ** (n - 1) + rng.randrange(3)
            if malformed and rng.random() < 0.1:
                n = 1
            v = m * rng.choice([1, -1])
            w.append(['i', n, v]); r.append(['i', n]); pos += n
        elif t == 'b':
            w.append(['b', rng.randint(0, 1)]); r.append(['b']); pos += 1
        elif t == 'bin':
            L = rng.choice([0, 1, 3, 7, 8, rng.randint(0, 40)])
            s = ''.join(rng.choice('01') for _ in range(L))
            w.append(['bin', s]); r.append(['bin', L]); pos += L
        elif t == 'bytes':
            k = rng.choice([0, 1, 2, 4, rng.randint(0, 12)])
            L = rng.choice([0, k, max(0, k - 1), k + 2, rng.randint(0, 15)])
            b = bytes(rng.choice([0x20, 0x41, 0x00, 0xff, rng.randrange(256)]) for _ in range(L))
            w.append(['bytes', k, b.hex()]); r.append(['bytes', k]); pos += 8 * k
        else:
            n = rng.randint(1, 40) if not (malformed and rng.random() < 0.2) else 0
            w.append(['skip', n]); r.append(['bin', n]); pos += n
    # in-place overwrites of earlier unsigned fields
    p = 0
    sets = []
    for op in w:
        if op[0] == 'u' and op[1] > 0 and rng.random() < 0.3:
            n = op[1]
            sets.append(['set', rng.choice([0, 2 ** n - 1, rng.randrange(2 ** n)]) if not (malformed and rng.random() < 0.3)
                         else rng.choice([2 ** n + 1, 2 ** n, -1, -rng.randrange(1, 2 ** n + 1), -(2 ** (n - 1))]), n, p])
        p += {'u': lambda o: o[1], 'i': lambda o: o[1], 'b': lambda o: 1, 'bin': lambda o: len(o[1]),
              'bytes': lambda o: 8 * o[1], 'skip': lambda o: o[1]}[op[0]](op)
    w.append(pad_op(pos))
    w += sets
    if malformed and rng.random() < 0.7:
        # read with a different programme: widths shifted, reads past the end
        r = [[rng.choice(['u', 'un', 'i', 'bin', 'bytes']), rng.choice([0, 1, 2, 9, 33, 64, 65, 100])] if rng.random() < 0.4 else x for x in r]
        r += [[rng.choice(['u', 'un', 'i', 'bin', 'bytes', 'b']), rng.randint(1, 70)] for _ in range(3)]
        r = [x if x[0] != 'b' else ['b'] for x in r]
    return {'w': w, 'r': r}


def oracle_random(prog, out):
    """Round-trip law on the implementation alone, for well-formed programs."""
    w = prog['w']
    if any(isinstance(x, str) for x in out['w']):
        return 'a valid field was refused: %r' % ([x for x in out['w'] if isinstance(x, str)],)
    # expected bit string, built independently
    exp = ''
    vals = []
    for op in w:
        k = op[0]
        if k == 'u':
            exp += binstr(op[2], op[1]); vals.append(op[2])
        elif k == 'i':
            exp += ('1' if op[2] < 0 else '0') + binstr(abs(op[2]), op[1] - 1); vals.append(op[2])
        elif k == 'b':
            exp += str(op[1]); vals.append(bool(op[1]))
        elif k == 'bin':
            exp += op[1]; vals.append(op[1])
        elif k == 'bytes':
            b = bytes.fromhex(op[2])
            b = (b + b' ' * op[1])[:op[1]]
            exp += ''.join(binstr(x, 8) for x in b); vals.append(b.hex())
        elif k == 'skip':
            exp += '0' * op[1]; vals.append('0' * op[1])
        elif k == 'set':
            exp = exp[:op[3]] + binstr(op[1], op[2]) + exp[op[3] + op[2]:]
    if out['bits'] != exp:
        return 'bit stream differs from the independently built one (len %d vs %d)' % (len(out['bits']), len(exp))
    return None


def oracle_malformed(prog, out):
    """Refusal of unfit values and the bit-read error on reads past the end, on the implementation alone."""
    for i, op in enumerate(prog['w']):
        k = op[0]
        unfit = ((k == 'u' and (op[1] == 0 or op[2] < 0 or op[2] >= 2 ** op[1])) or
                 (k == 'i' and (op[1] < 2 or abs(op[2]) >= 2 ** (op[1] - 1))) or
                 (k == 'skip' and op[1] == 0) or
                 (k == 'set' and (op[2] == 0 or op[1] < 0 or op[1] >= 2 ** op[2])))
        if unfit:
            if len(out['w']) != i + 1 or not isinstance(out['w'][i], str):
                return 'unfit value/width accepted by write op %d %r' % (i, op)
            return None
    if any(isinstance(x, str) for x in out['w']):
        return 'a valid field was refused: %r' % (out['w'],)
    remaining = len(out['bits'])
    for i, op in enumerate(prog['r']):
        k = op[0]
        width = 1 if k == 'b' else (8 * op[1] if k == 'bytes' else op[1])
        valid = not ((k in ('u', 'un') and op[1] == 0) or (k == 'i' and op[1] < 2))
        if not valid or (k == 'un' and op[1] > 64 and width <= remaining):
            return None  # behaviour outside the property's quantifier (zero width, width above 64)
        if width > remaining:
            if len(out['r']) != i + 1 or out['r'][i] != 'err:lib:bitread':
                return 'read past the end (op %d %r, %d bits left) gave %r' % (i, op, remaining, out['r'][i:i + 1])
            return None
        if len(out['r']) <= i or isinstance(out['r'][i], str):
            return 'read within the stream failed: op %d %r -> %r' % (i, op, out['r'][i:i + 1])
        remaining -= width
    return None


# ---------------------------------------------------------------------------------------------
def compare(ctx, cases, oracle, label, nontrivial):
    reqs = [{'op': 'bits', 'w': c['w'], 'r': c['r']} for c in cases]
    model = ctx.driver.batch(reqs)
    for c, m in zip(cases, model):
        impl = impl_bits(c)
        ctx.case({'w': c['w'], 'r': c['r']}, nontrivial=nontrivial(c), sample=(ctx.evaluations % 997 == 0))
        ctx.traces += 1
        ctx.count(label)
        msg = oracle(c, impl) if oracle else None
        if msg is not None:
            sig = {'kind': c.get('kind', label)}
            if c.get('kind') == 'set':
                sig['n_ge_8'] = c['n'] >= 8
            ctx.violation('%s: %s; program=%s' % (label, msg, json.dumps({'w': c['w'], 'r': c['r']})[:400]),
                          {'program': {'w': c['w'], 'r': c['r']}, 'impl': impl, 'model': m, 'oracle': msg}, signature=sig)
        elif impl != m:
            # correspondence broken but the law holds on this input: keep searching, remember it
            ctx.corr_breaks.append({'program': {'w': c['w'], 'r': c['r']}, 'impl': impl, 'model': m})


def run(ctx):
    ctx.corr_breaks = []
    ctx.rule = ('exhaustive grid width 1..64 x value {0,1,2^(n-1),2^n-2,2^n-1} x bit offset 0..7 x '
                '{uint read, uint-or-none read, sign-magnitude int, in-place overwrite}; random mixed-type field '
                'programs (<= 200 fields, widths up to 130) incl. overwrites; malformed stream (unfit values, zero widths, '
                'reads past the end). Non-trivial: at least one field of width >= 2; distinct by program hash.')
    # corpus first
    cdir = os.path.join(core.VERIF, 'corpus', PROP)
    corpus = []
    if os.path.isdir(cdir):
        for f in sorted(os.listdir(cdir)):
            corpus.append(json.load(open(os.path.join(cdir, f))))
    if corpus:
        compare(ctx, corpus, lambda c, o: oracle_random(c, o) if c.get('wellformed') else None, 'corpus', lambda c: True)
    g = list(grid())
    compare(ctx, g, oracle_grid, 'grid', lambda c: c['n'] >= 2)
    ctx.exhaustive = True
    ctx.notes.append('grid programs: %d (enumerated completely in both tiers)' % len(g))
    rng = ctx.rng('random')
    n_rand = 600 if ctx.tier == 'quick' else 20000
    progs = [random_program(rng) for _ in range(n_rand)]
    compare(ctx, progs, oracle_random, 'random', lambda c: any(op[0] in ('u', 'i') and op[1] >= 2 for op in c['w']))
    rng = ctx.rng('malformed')
    bad = [random_program(rng, malformed=True) for _ in range(n_rand // 2)]
    compare(ctx, bad, oracle_malformed, 'malformed', lambda c: True)
    if ctx.corr_breaks and ctx.violations == 0:
        b = ctx.corr_breaks[0]
        ctx.violation('correspondence model<->bitops broken on %d programs, the round-trip law still holds on all of them; first: %s'
                      % (len(ctx.corr_breaks), json.dumps(b['program'])[:300]),
                      {'correspondence': 'bits', 'first': b, 'count': len(ctx.corr_breaks)},
                      signature={'kind': 'correspondence'}, no_failing_input=True)
    ctx.assumptions = ['bitstring package behaves as modelled (list-of-bits semantics of +=, read, slice assignment)',
                       'reader programs are run on byte-aligned streams (the writer is padded with zero bits)']


def replay(ctx, path):
    body = json.load(open(path))
    prog = body['replay']['program']
    ctx.corr_breaks = []
    compare(ctx, [prog], lambda c, o: oracle_random(c, o), 'replay', lambda c: True)
    print(json.dumps({'impl': impl_bits(prog)}))
