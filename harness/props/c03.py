"""
C03 — decode/encode round trip: quantisation bound, range refusal, canonical fixpoint.

Theorems: lean/BufrModel/Props/C03.lean, C03Fields.lean, C03Walk.lean (round half even is within half a unit and characterised;
quantisation bound; on-grid values re-quantise exactly; out-of-range is refused — never wrapped, never
clipped —, in-range is accepted; all-ones reads back missing; missing round trip; element round trips
and fixpoints for numeric, code/flag, character and new-reference-value fields, with the two documented
exceptions: 1-bit fields have no missing value, a "minus zero" new reference value re-encodes as +0).
Tie (implementation vs model, same inputs — the model gets the EXACT decimal expansion of every double):
  (a) element sweep: numeric Table B element x modifier {none, 201YYY wider / narrower, 202YYY, 207YYY,
      203YYY new reference value} x probe value {min, min-eps, just below min-1/2, min-1, max, max+eps,
      the all-ones pattern (+eps), just below 2^w, 2^w, multiples of 2^w (wrap probes), exact ties
      (dyadic, so that IEEE arithmetic sees them), off-grid, on-grid, missing} x layout {uncompressed;
      compressed 2-3 subsets: all equal / next to in-range values / next to missing / both}; plus code/flag and
      character probes, the special packed integers 2^k - 1 / 2^k around the Table B and the effective width under every
      width modifier, and the families of harness/c03fields.py (203YYY new reference values at their own boundary,
      replication factors, 204YYY / 206YYY fields, bit-map bits, 205YYY strings, code/flag under 201/202/207).  Every value
      position of a case has a column specification; the oracle and the comparison look at all of them.
      Compared: refusal vs acceptance (error family), data bits, read-back values.
  (b) whole-message fixpoint on the corpus: b1 = E(render(D(b))), E(render(D(b1))) == b1 byte for byte;
      the model re-encodes its own decode of b and must give the data bits of b1.
  (c) every message the Encoder produces from generated values (shared pipeline): E(render(D(b))) == b;
      foreign variants (a "minus zero" new reference value): b1 != b, second round trip == b1.
Oracle (implementation alone, exact rational arithmetic on the doubles passed in): the encoder refuses,
or every value reads back within half a unit of the last scaled digit (+1 ulp), exactly when it came
from a decoder; missing -> missing (width > 1); all-ones pattern -> missing; strings padded / truncated
to the field width; in UNCOMPRESSED data an out-of-range scaled integer is always refused.  Compressed
data: what happens to out-of-range values is recorded in the evidence (the minimum field is range
checked; a larger entry next to an in-range minimum is carried by the increments and reads back
unchanged); any read-back outside the bound is a violation there too.
A value within 2^-40 (relative) of a rounding tie is compared leniently (either neighbour), counted.
"""
import json
import math
import multiprocessing
import os
from fractions import Fraction

from harness import core, tables_io
from harness import coder_io as C
from harness import coderprops as P
from harness import encprops as E
from harness import c03fields as F

PROP = 'C03'

META = dict(
    claimed=True,
    text='Kernel-checked theorems about the Lean model of the encoder/decoder primitives, for every width 1..64, scale and reference '
         '(hence under any 201/202/203/207 modification): int(round(v*10^s)) is the nearest integer (ties to even) and within half a '
         'unit; a decoded value re-quantises to exactly its integer; a scaled integer outside 0..2^w-1 after the reference is '
         'subtracted is refused (never wrapped, never clipped) and one inside is written as it is; the all-ones pattern reads back as '
         'missing; missing round-trips for w > 1; numeric, code/flag, character and new-reference fields: encode-then-decode gives the '
         'quantised value / padded string, decode-then-encode reproduces the bits (exceptions proved as such: 1-bit fields, minus-zero '
         'reference); the sign-and-magnitude new reference value of 203YYY is accepted iff its magnitude fits YYY-1 bits (uncompressed and compressed) and reads '
         'back unchanged; for any coder the walk hands the numeric primitive the effective width only, a packed integer below the all-ones pattern of THAT width '
         '(e.g. all ones on the Table B width under a widening 201/207) is written as it is and read back as the number, uncompressed and in compressed columns of any '
         'legal increment width. Correspondence: element sweep over the numeric Table B elements x modifiers x boundary / tie / off-grid / special-integer (2^k-1, 2^k around the '
         'Table B and the effective width) probes and over every other kind of value the encoder writes (new reference values, replication factors, associated and skipped '
         'fields, bit-map bits, 205/208 strings, code/flag under operators), uncompressed and compressed (all equal / differing / with a missing entry), every value position '
         'checked, implementation vs model (exact decimal of each double) on refusal, bits and read-back; '
         'whole-message fixpoints E(D(E(D(b)))) = E(D(b)) on the corpus and E(D(b)) = b on generated messages, model re-encode tied to '
         'the implementation bytes; oracle evaluated on the implementation alone with exact rationals.',
    technique='Lean 4 theorems (integer arithmetic, omega/ring-free case analysis over the primitives) + checked model/implementation correspondence + exact-rational oracle',
    note='Element-level theorems (state transformer of one field) in Props/C03.lean; the walk-level round trip of whole templates '
         '(encode ; decode = canonical values, decode ; encode ; decode fixpoint, per subset and for whole data sections; '
         'Props/C03Walk.lean, generic simulation theorem of Lemmas/Sim.lean) is stated for the CHECKED encoder, i.e. under the '
         'decidable side conditions that every field is at most 64 bits wide and every replication factor / bitmap entry reads '
         'back as supplied; the compressed analogue is in Props/C05Walk.lean. Values whose exact scaled value is within 2^-40 of a tie are compared '
         'leniently. Floats given to a scale-0 element are outside the quantifier (integers where the effective scale is 0).',
)

CHUNK = 400
MODS = ['none', '201+', '201-', '202', '207', '203']
WIDTH_MODS = ['201+', '201+', '201-', '207', '207', '201+207', '201+202']
KINDS = ['min', 'min-eps', 'below-min', 'min-1', 'max', 'max+eps', 'allones', 'allones+eps', 'below-2w', '2w', 'wrap', 'neg-wrap',
         'tie', 'tie', 'offgrid', 'offgrid', 'ongrid', 'missing', 'pow2', 'pow2']
LAYOUTS = F.LAYOUTS
Sweep, Col = F.Sweep, F.Col
repr_value, unrepr_value, decoder_value, value_for = F.repr_value, F.unrepr_value, F.decoder_value, F.value_for


def dyadic_tie(rng, w, s, r):
    """a double v with v*10^s = k + 1/2 EXACTLY (and computed exactly by IEEE multiplication): s > 0 only"""
    top = (1 << w) - 1
    k = rng.randint(0, max(0, top - 1))
    target = Fraction(k + r) + Fraction(1, 2)
    step = Fraction(5 ** s)           # T = (2j+1) * 5^s / 2
    j = int((2 * target / step - 1) / 2)
    j += rng.choice([0, 0, 1, -1])
    T = Fraction(2 * j + 1) * step / 2
    if abs(T.numerator) >= 2 ** 52:
        return None
    v = float(E.scaled(T, -s))
    if Fraction(v) * 10 ** s != T:
        return None
    return v


class SweepGen(F.Families):
    def __init__(self):
        b, d = tables_io.read_group()
        self.b = b
        self.numeric = sorted(i for i, v in b.items() if tables_io.unit_kind(v[1]) == 'n' and i // 1000 != 31 and int(v[4]) >= 1)
        self.codeflag = sorted(i for i, v in b.items() if tables_io.unit_kind(v[1]) == 'c' and i // 1000 not in (31, 33) and 1 <= int(v[4]) <= 32)
        self.string = sorted(i for i, v in b.items() if tables_io.unit_kind(v[1]) == 's' and int(v[4]) % 8 == 0 and 8 <= int(v[4]) <= 256)

    # -- numeric probes -------------------------------------------------------------------------
    def modifier(self, rng, e, mod):
        """-> (ids, newref or None, (w, s, r)) or None when the modifier cannot be applied sensibly"""
        b = self.b
        nb, sc = int(b[e][4]), int(b[e][2])
        if mod == 'none':
            return [e], None, E.eff_params(b, e)
        if mod == '201+':
            lim = 64 if sc == 0 else 44
            if nb >= lim:
                return None
            d = rng.choice([1, 2, 8, rng.randint(1, lim - nb), lim - nb])
            d = max(1, min(d, lim - nb, 127))
            return [201128 + d, e, 201000], None, E.eff_params(b, e, y201=128 + d)
        if mod == '201-':
            if nb <= 1:
                return None
            d = rng.choice([1, 2, nb - 1, nb - 2, rng.randint(1, nb - 1)])
            d = max(1, min(d, nb - 1, 127))
            return [201128 - d, e, 201000], None, E.eff_params(b, e, y201=128 - d)
        if mod == '202':
            d = rng.choice([1, 2, 3, -1, -2, -3, -sc if sc and abs(sc) < 100 else 1])
            if d == 0 or not (-127 <= d <= 127):
                d = 1
            return [202128 + d, e, 202000], None, E.eff_params(b, e, y202=128 + d)
        if mod == '207':
            y = rng.randint(1, 3)
            p = E.eff_params(b, e, y207=y)
            if p[0] > (64 if p[1] == 0 else 46):
                return None
            return [207000 + y, e, 207000], None, p
        if mod == '203':
            yb = rng.randint(2, 20)
            lim = (1 << (yb - 1)) - 1
            nr = rng.choice([0, 1, -1, lim, -lim, rng.randint(-lim, lim), int(b[e][3])])
            nr = max(-lim, min(lim, nr))
            return [203000 + yb, e, 203255, e, 203000], nr, E.eff_params(b, e, newref=nr)
        raise AssertionError(mod)

    def probe(self, rng, kind, w, s, r, nb=None):
        """-> (python value, on_grid) or None when the kind does not apply.  nb = Table B width of the element"""
        top = (1 << w) - 1
        if kind == 'pow2':
            # the special packed integers 2^k - 1, 2^k and neighbours, k around the Table B width, the effective width, in between
            nb = w if nb is None else nb
            k = rng.choice([nb, nb, nb] + F.pow2_exponents(rng, nb, w))
            raw = max((1 << k) + rng.choice([-1, -1, -1, 0, 0, 1, -2]), 0)
            return value_for(Fraction(raw), s, r), True
        eps = Fraction(rng.choice([5, 10, 20, 30, 40, 45]), 100)
        big = (1 << w) + abs(r) >= 2 ** 46      # off-grid offsets would drown in the double's rounding
        frac_ok = s != 0 and not big
        if kind == 'min':
            return value_for(Fraction(0), s, r), True
        if kind == 'max':
            return value_for(Fraction(max(top - 1, 0)), s, r), True
        if kind == 'allones':
            return value_for(Fraction(top), s, r), True
        if kind == 'ongrid':
            return value_for(Fraction(rng.randint(0, max(top - 1, 0))), s, r), True
        if kind == 'min-1':
            return value_for(Fraction(-rng.choice([1, 1, 2, 17])), s, r), True
        if kind == '2w':
            return value_for(Fraction(top + 1), s, r), True
        if kind == 'wrap':
            return value_for(Fraction((top + 1) * rng.choice([1, 2, 3, 256]) + rng.randint(0, max(top - 1, 0))), s, r), True
        if kind == 'neg-wrap':
            return value_for(Fraction(-(top + 1) * rng.choice([1, 2]) + rng.randint(0, max(top - 1, 0))), s, r), True
        if kind == 'missing':
            return (None, True) if w > 1 else None
        if not frac_ok:
            return None
        if kind == 'min-eps':
            return value_for(-eps, s, r), False
        if kind == 'below-min':
            return value_for(-1 + eps, s, r), False
        if kind == 'max+eps':
            return value_for(Fraction(max(top - 1, 0)) + eps * rng.choice([1, -1]), s, r), False
        if kind == 'allones+eps':
            return value_for(Fraction(top) + eps * rng.choice([1, -1]), s, r), False
        if kind == 'below-2w':
            return value_for(Fraction(top + 1) - eps, s, r), False
        if kind == 'offgrid':
            k = rng.randint(0, max(top - 1, 0))
            f = Fraction(rng.choice([rng.randint(5, 45), rng.randint(55, 95)]), 100)
            return value_for(Fraction(k) + f, s, r), False
        if kind == 'tie':
            if s > 0:
                v = dyadic_tie(rng, w, s, r)
                return None if v is None else (v, False)
            # negative scale: (k + 1/2) * 10^|s| is an integer-valued double; the product with 10**s need not be exact
            k = rng.randint(0, max(top - 1, 0))
            T = (Fraction(k + r) + Fraction(1, 2)) * 10 ** (-s)
            if abs(T) >= 2 ** 52:
                return None
            return float(T), False
        raise AssertionError(kind)

    def numeric_case(self, rng, e, mod, kind, layout):
        m = self.modifier(rng, e, mod)
        if m is None:
            return None
        ids, nr, (w, s, r) = m
        if not (1 <= w <= 64) or abs(s) > 20:
            return None
        pr = self.probe(rng, kind, w, s, r, int(self.b[e][4]))
        if pr is None:
            return None
        x, on = pr
        return self.numeric_layout(rng, e, ids, nr, w, s, r, x, on, layout, mod, kind)

    def numeric_from_raw(self, rng, e, ids, nr, w, s, r, raw, layout, mod, kind):
        return self.numeric_layout(rng, e, ids, nr, w, s, r, value_for(Fraction(raw), s, r), True, layout, mod, kind)

    def numeric_layout(self, rng, e, ids, nr, w, s, r, x, on, layout, mod, kind):
        """the probed element in one of the layouts: uncompressed; compressed all equal / next to in-range values /
        next to a missing entry / next to in-range values AND a missing entry"""
        top = (1 << w) - 1
        if w <= 1 and layout in ('c-missing', 'c-mixed-missing'):
            layout = 'c-mixed'
        cols, gens = [], []
        if nr is not None:
            yb = ids[0] % 1000
            cols.append(Col('r', yb, role='newref'))
            gens.append(lambda g: nr)
        p = len(cols)
        cols.append(Col('n', w, s, r, role='element'))
        gens.append(lambda g: value_for(Fraction(g.choice([0, max(top - 1, 0), g.randint(0, max(top - 1, 0)), g.randint(0, max(top - 1, 0)), top])), s, r))
        c = self.assemble(rng, ids, cols, gens, p, x, layout, mod, kind, fixed=set(range(p)), extra={p: (x, on)})
        if layout in ('c-equal', 'c-missing'):
            for i, row in enumerate(c.inputs):
                if row[p] is not None:
                    c.gridm[i][p] = on
        c.eid = e
        return c

    # -- code / flag and character probes -------------------------------------------------------
    def codeflag_case(self, rng, layout):
        e = rng.choice(self.codeflag)
        w = int(self.b[e][4])
        top = (1 << w) - 1
        x = rng.choice([0, max(top - 1, 0), top, top + 1, -1, 2 * (top + 1) + 1, rng.randint(0, top), None if w > 1 else 0])
        c = self.assemble(rng, [e], [Col('c', w, role='codeflag')], [lambda g: g.randint(0, max(top - 1, 0))], 0, x, layout, 'none', 'codeflag')
        c.eid = e
        return c

    def string_case(self, rng, layout):
        e = rng.choice(self.string)
        nbytes = int(self.b[e][4]) // 8
        ids = [e]
        if rng.random() < 0.3:
            nbytes = rng.randint(1, 10)
            ids = [208000 + nbytes, e, 208000]

        def gen(g):
            return g.choice([self.text(g, nbytes), self.text(g, g.randint(0, nbytes)), self.text(g, nbytes + g.randint(1, 4)), '', None])
        c = self.assemble(rng, ids, [Col('s', nbytes * 8, nbytes=nbytes, role='string')], [gen], 0, gen(rng), layout, 'none', 'string')
        c.eid = e
        return c


# ---------------------------------------------------------------------------------------------
# exact expectations (oracle side)
def exact_raw(x, s, r):
    """(raw, near_tie) for python input x: round_half_even(x * 10^s) - r, exactly"""
    T = E.scaled(Fraction(x), s)
    q = E.round_half_even(T)
    fl = T.numerator // T.denominator
    dist = abs(T - fl - Fraction(1, 2))
    near = dist != 0 and dist <= min(abs(T) * Fraction(1, 2 ** 40), Fraction(1, 8))
    # a tie that IEEE multiplication cannot represent exactly (negative scales) is lenient too
    if dist == 0 and s < 0:
        near = True
    return q - r, near


def in_range(col, x):
    """(raw, near_tie, out_of_range) of python input x for column `col` (None input: (None, False, False))"""
    if x is None:
        return None, False, False
    if col.fk == 'r':
        return x, False, abs(x) > (1 << (col.w - 1)) - 1
    if col.fk == 'k':
        return x, False, x != 0
    if col.fk == 's':
        return None, False, False
    raw, near = exact_raw(x, col.s, col.r)
    return raw, near, raw < 0 or raw > (1 << col.w) - 1


def factor_all_ones(c):
    """a delayed replication factor that coincides with the all-ones pattern of its field"""
    return any(col.role == 'factor' and col.w > 1 and all(vs[j] == (1 << col.w) - 1 for vs in c.inputs) for j, col in enumerate(c.cols))


def oracle(c, impl_status, dec):
    """the property on the implementation alone, for EVERY value position of the case.
    dec: per-subset decoded values (or None when refused).  -> ((kind, text) or None, tags, failing column or None)"""
    tags = []
    reasons = False
    ok = impl_status == 'ok'
    for j, col in enumerate(c.cols):
        top = (1 << col.w) - 1
        where = '' if len(c.cols) == 1 else ' [value %d: %s]' % (j, col.role)
        if col.fk == 's':
            if not ok:
                continue
            for i, vs in enumerate(c.inputs):
                x = vs[j]
                want = b'\xff' * col.nbytes if x is None else (x.encode('latin-1')[:col.nbytes]).ljust(col.nbytes, b' ')
                got = dec[i][j]
                if got != want:
                    return ('string', 'string %r reads back %r, expected %r (field of %d bytes)%s' % (x, got, want, col.nbytes, where)), tags, j
            continue
        any_out = False
        for i, vs in enumerate(c.inputs):
            x = vs[j]
            if x is None:
                if col.fk in 'rk':
                    reasons = True
                    if ok:
                        return ('missing-accepted', 'a missing %s is accepted and reads back %r' % (col.role, dec[i][j])), tags, j
                    continue
                if col.role == 'factor':
                    reasons = True
                if ok and dec[i][j] is not None:
                    if col.w == 1 and dec[i][j] == 1:
                        tags.append('onebit-missing-reads-1')
                        continue
                    return ('missing', 'missing reads back %r (width %d)%s' % (dec[i][j], col.w, where)), tags, j
                continue
            raw, near, out = in_range(col, x)
            if near:
                tags.append('near-tie')
                reasons = True
            if out and not near:
                any_out = True
                reasons = True
            if not ok:
                continue
            d = dec[i][j]
            if col.fk in 'rk':
                if d != x or isinstance(d, bool) or not isinstance(d, int):
                    return ('altered', '%s %r reads back %r (%s of %d bits%s)' % (
                        col.role, x, d, 'sign and magnitude' if col.fk == 'r' else 'constant', col.w, ', does not fit' if out else '')), tags, j
                continue
            if d is None:
                if col.w > 1 and (raw == top or (near and abs(raw - top) <= 1)):
                    tags.append('allones-reads-missing')
                    continue
                return ('lost', 'value %r (raw %d of %d bits) reads back missing%s' % (x, raw, col.w, where)), tags, j
            if isinstance(d, bytes):
                return ('type', 'numeric value reads back bytes' + where), tags, j
            bound = E.scaled(Fraction(1, 2), -col.s) + Fraction(math.ulp(float(d)) if isinstance(d, float) else 0)
            err = abs(Fraction(d) - Fraction(x))
            if err > bound:
                return ('altered', 'value %r reads back %r: off by %.6g units of the last scaled digit (width %d scale %d ref %d, raw %d%s)%s' % (
                    x, d, float(E.scaled(err, col.s)), col.w, col.s, col.r, raw, ', out of range' if out else '', where)), tags, j
            if c.gridm[i][j] and not out and d != x:
                return ('grid', 'on-grid value %r reads back %r%s' % (x, d, where)), tags, j
            if out:
                tags.append('out-of-range-carried-exactly' if c.comp else 'out-of-range-accepted')
        if ok and any_out and (not c.comp or col.fk == 'r'):
            return ('not-refused', 'out-of-range value accepted in %s data: inputs %r width %d scale %d ref %d%s' % (
                'compressed' if c.comp else 'uncompressed', [vs[j] for vs in c.inputs], col.w, col.s, col.r, where)), tags, j
    if not ok:
        if not reasons and all(col.fk == 's' for col in c.cols):
            return ('string-refused', 'a character value is refused (%s)' % impl_status), tags, 0
        tags.append('refused-out-of-range' if reasons else 'refused')
    return None, tags, None


def impl_roundtrip(c):
    """Encoder then Decoder.  -> (status, bytes, decoded values per subset)"""
    from pybufrkit.decoder import Decoder
    from pybufrkit.encoder import Encoder
    js = C.make_message_json(c.ids, c.inputs, c.comp, edition=4)
    try:
        msg = Encoder().process(json.loads(json.dumps(js)), wire_template_data=False)
    except Exception as e:  # noqa
        return core.err_tag(e), None, None
    b = msg.serialized_bytes
    try:
        m2 = Decoder().process(b, wire_template_data=False)
    except Exception as e:  # noqa
        return 'ok', b, core.err_tag(e)
    return 'ok', b, [list(v) for v in m2.template_data.value.decoded_values_all_subsets]


def eval_sweep(drv, treq, cases):
    """-> list of (case, failure or None, tags, nfi, failing column)"""
    reqs = [treq]
    impl = []
    for c in cases:
        impl.append(impl_roundtrip(c))
        reqs.append({'op': 'enc-data', 'ids': c.ids, 'compressed': c.comp,
                     'vals': [[C.from_py_exact(x) for x in vs] for vs in c.inputs]})
    enc = drv.batch(reqs)[1:]
    reqs = [treq]
    pos = []
    for c, m in zip(cases, enc):
        if 'bits' in m:
            pos.append(len(reqs))
            reqs.append({'op': 'dec-data', 'ids': c.ids, 'compressed': c.comp, 'n': c.n, 'bits': m['bits']})
        else:
            pos.append(None)
    dec = drv.batch(reqs)
    out = []
    for c, (st, b, dv), m, k in zip(cases, impl, enc, pos):
        col = [vs[c.p] for vs in c.inputs]
        undecodable = st == 'ok' and not isinstance(dv, list)
        tags = []
        fail = None
        fj = c.p
        if undecodable:
            if factor_all_ones(c) and core.is_lib(dv):
                # the encoder writes the all-ones factor, the decoder reads it as missing and refuses with a library error:
                # nothing is altered silently; recorded (soft), compared with the model below
                tags.append('factor-all-ones:decoder-refuses')
            else:
                kind = 'undecodable'
                pc = c.cols[c.p]
                if c.comp and pc.fk in 'nc' and pc.w > 1 and None in col and all(
                        x is None or exact_raw(x, pc.s, pc.r)[0] == (1 << pc.w) - 1 for x in col):
                    # every present entry is the all-ones pattern and an entry is missing: minimum = all ones, width != 0
                    kind = 'undecodable-allones-next-to-missing'
                out.append((c, (kind, 'the decoder fails (%s) on what the encoder produced; inputs %r (width %d scale %d ref %d)' % (
                    dv, col, c.w, c.s, c.r)), [], False, c.p))
                continue
        else:
            fail, tags, fj = oracle(c, st, dv)
        nfi = False
        if fail is None:
            # correspondence with the model
            ms = C.model_err(m)
            lenient = 'near-tie' in tags
            why = None
            if st != ms:
                why = 'status: implementation %s, model %s' % (st, ms)
            elif st == 'ok':
                ib = C.data_bits(b)
                mb = m['bits']
                if ib[:len(mb)] != mb or set(ib[len(mb):]) - {'0'} or len(ib) - len(mb) >= 8:
                    why = 'data bits differ (implementation %s.., model %s..)' % (ib[:48], mb[:48])
                else:
                    md = dec[k]
                    if undecodable:
                        if 'err' not in md:
                            why = 'the decoder fails (%s) where the model decoder succeeds' % dv
                        elif C.model_err(md) != dv:
                            why = 'decoder error family: implementation %s, model %s' % (dv, C.model_err(md))
                    elif 'err' in md:
                        why = 'model decoder fails on the model bits: %s' % md['err']
                    else:
                        for i, (a, mm) in enumerate(zip(dv, md['subsets'])):
                            dd = C.first_diff(a, mm['v'])
                            if dd is not None:
                                why = 'read-back differs in subset %d: implementation %r, model %r' % (i, dd[1], dd[2])
                                break
            if why and lenient:
                tags.append('lenient-disagreement')
            elif why:
                fail = ('model', why + '; inputs %r' % (col,))
                nfi = True
                fj = c.p
        out.append((c, fail, tags, nfi, fj))
    return out


FAMILIES = ['newref', 'newref', 'newref', 'assoc', 'assoc', 'skipped', 'factor', 'factor', 'bitmap', 'str205', 'cfmod', 'cfmod']
SOFT_KINDS = {'factor-all-ones:decoder-refuses': 'undecodable-factor-allones'}


def family_case(g, rng, fam, layout, heavy=False):
    if fam == 'newref':
        if layout != 'u' and rng.random() < 0.05:
            layout = 'c-newref-differs'
        return g.newref_case(rng, layout)
    if fam == 'assoc':
        return g.assoc_case(rng, layout)
    if fam == 'skipped':
        return g.skipped_case(rng, layout)
    if fam == 'factor':
        if layout != 'u' and rng.random() < 0.05:
            layout = 'c-factor-differs'
        return g.factor_case(rng, layout, heavy=heavy)
    if fam == 'bitmap':
        return g.bitmap_case(rng, layout)
    if fam == 'str205':
        return g.str205_case(rng, layout)
    if fam == 'cfmod':
        return g.cfmod_case(rng, layout)
    raise AssertionError(fam)


def sweep_chunk(args):
    seed, k, specs, tier = args
    rng = core.rng_for(PROP, seed, 'sweep-%d' % k)
    g = SweepGen()
    cases = []
    if specs is None:
        # seeded: element probes, the "every written value" families, width modifier x special integers
        while len(cases) < CHUNK:
            r = rng.random()
            layout = rng.choice(LAYOUTS)
            if r < 0.05:
                c = g.codeflag_case(rng, layout)
            elif r < 0.10:
                c = g.string_case(rng, layout)
            elif r < 0.40:
                c = family_case(g, rng, rng.choice(FAMILIES), layout, heavy=tier != 'quick' and rng.random() < 0.05)
            elif r < 0.415:
                cases.extend(g.width_cases(rng, rng.choice(g.numeric), rng.choice(WIDTH_MODS)))
                continue
            else:
                c = g.numeric_case(rng, rng.choice(g.numeric), rng.choice(MODS), rng.choice(KINDS), layout)
            if c is not None:
                cases.append(c)
    else:
        for e, mod, kind in specs:
            if kind == 'pow2*':
                # every special packed integer of the pair, uncompressed and in one compressed shape each
                cases.extend(g.width_cases(rng, e, mod, layouts=['u', rng.choice(F.COMP_LAYOUTS)]))
                continue
            for layout in ('u', rng.choice(LAYOUTS[2:])):
                c = g.numeric_case(rng, e, mod, kind, layout)
                if c is not None:
                    cases.append(c)
    for i, c in enumerate(cases):
        c.idx = k * 100000 + i
    drv = core.Driver()
    treq = tables_io.group_request()
    res = eval_sweep(drv, treq, cases)
    out = {'counts': {}, 'cases': [], 'violations': [], 'n': len(cases), 'soft': []}

    def count(key, n=1):
        out['counts'][key] = out['counts'].get(key, 0) + n
    seen = {}
    for c, fail, tags, nfi, fj in res:
        count('mod:' + c.mod)
        count('kind:' + c.kind)
        count('layout:' + c.layout)
        for t in set(tags):
            count(('compressed:' if c.comp else 'uncompressed:') + t)
            if t in SOFT_KINDS and not any(sk == SOFT_KINDS[t] for sk, _ in out['soft']):
                out['soft'].append((SOFT_KINDS[t], c.replay()))
        out['cases'].append(({'ids': c.ids, 'kind': c.kind, 'layout': c.layout, 'inputs': [[repr_value(x) for x in vs] for vs in c.inputs]},
                             any(vs[c.p] is not None for vs in c.inputs)))
        if fail:
            col = c.cols[fj if fj is not None and fj < len(c.cols) else c.p]
            sig = {'stage': 'sweep', 'kind': fail[0], 'compressed': bool(c.comp), 'field': col.fk, 'role': col.role}
            key = json.dumps(sig, sort_keys=True)
            seen[key] = seen.get(key, 0) + 1
            if seen[key] > 1:
                count('failures-not-reported')
                continue
            rep = c.replay()
            rep['why'] = fail[1]
            what = 'element round trip (%s): %s; ids %s, %s' % (fail[0], fail[1], c.ids, 'compressed %d subsets' % c.n if c.comp else 'uncompressed')
            out['violations'].append((what, rep, sig, nfi))
    return out


# ---------------------------------------------------------------------------------------------
# whole-message fixpoints
def corpus_fixpoint(args):
    """one corpus file: b1 = E(D(b)); E(D(b1)) == b1; the model's re-encode of its decode of b gives b1's data bits"""
    path, = args
    from pybufrkit.decoder import Decoder
    with open(path, 'rb') as f:
        raw = f.read()
    b = raw[raw.find(b'BUFR'):]
    try:
        msg = Decoder().process(b, wire_template_data=False)
    except Exception as e:  # noqa
        return {'file': path, 'skipped': core.err_tag(e)}
    b0 = msg.serialized_bytes
    st1, b1 = E.impl_reencode(b0)
    if st1 == 'no-tables':
        # decodable only through the Decoder's table fall-back; the Encoder refuses (FileNotFoundError): a refusal, nothing altered
        return {'file': path, 'skipped': 'encoder-refuses-missing-local-tables'}
    if st1 != 'ok':
        return {'file': path, 'fail': ('reencode', 'E(D(b)) fails: %s' % st1)}
    st2, b2 = E.impl_reencode(b1)
    info = {'file': path, 'same_as_original': b1 == b0, 'bytes': len(b0)}
    if st2 != 'ok':
        info['fail'] = ('reencode2', 'E(D(b1)) fails: %s' % st2)
        return info
    if b2 != b1:
        info['fail'] = ('fixpoint', 'E(D(b1)) differs from b1 at byte %d' % E.first_byte_diff(b1, b2))
        return info
    # model: decode b's data, re-encode, compare with b1's data bits
    key = msg.table_group_key
    tb, td = tables_io.read_group(key.wmo_tables_sn, key.local_tables_sn, key.tables_root_dir)
    treq = tables_io.tables_request(tb, td)
    nsub, comp, ids = P.parse_section3(b0)
    drv = core.Driver()
    r = drv.batch([treq, {'op': 'dec-data', 'ids': ids, 'compressed': comp, 'n': nsub, 'bits': C.data_bits(b0)}])[1]
    if 'err' in r:
        info['fail'] = ('model', 'model decoder fails on a corpus file: %s' % r['err'])
        info['nfi'] = True
        return info
    r2 = drv.batch([treq, {'op': 'enc-data', 'ids': ids, 'compressed': comp, 'vals': [s['v'] for s in r['subsets']]}])[1]
    ib = C.data_bits(b1)
    if 'err' in r2:
        info['fail'] = ('model', 'model encoder refuses its own decode: %s' % r2['err'])
        info['nfi'] = True
    else:
        mb = r2['bits']
        if ib[:len(mb)] != mb or set(ib[len(mb):]) - {'0'} or len(ib) - len(mb) >= 16:
            info['fail'] = ('model', 'model re-encode differs from the data bits of E(D(b)) at bit %d' % E.first_byte_diff(ib, mb))
            info['nfi'] = True
    info['compressed'] = comp
    return info


def generated_fixpoint(args):
    seed, k, count = args
    rng = core.rng_for(PROP, seed, 'fix-%d' % k)
    drv = core.Driver()
    treq = tables_io.group_request()
    cases = P.gen_cases(rng, count, level=2, max_subsets=4, editions=(4, 4, 3, 2))
    cases = P.gen_values(drv, treq, cases, rng)
    enc = P.run_encode(drv, treq, cases)
    out = {'counts': {}, 'cases': [], 'violations': [], 'n': 0}

    def count_(key, n=1):
        out['counts'][key] = out['counts'].get(key, 0) + n
    seen = set()

    def viol(kind, what, c, b, nfi=False):
        if kind in seen:
            return
        seen.add(kind)
        rep = c.replay()
        rep['message_hex'] = b.hex()
        rep['why'] = what
        out['violations'].append(('whole-message round trip (%s): %s; ids %s' % (kind, what, c.ids[:30]), rep,
                                  {'stage': 'fixpoint', 'kind': kind, 'compressed': bool(c.comp)}, nfi))
    for c, impl, model in enc:
        if impl[0] != 'ok':
            count_('encoder-refused')
            continue
        b = impl[1]
        out['n'] += 1
        count_('generated-compressed' if c.comp else 'generated-uncompressed')
        out['cases'].append(({'ids': c.ids, 'n': c.n, 'compressed': c.comp, 'edition': c.edition, 'values': c.valss}, P.nontrivial(c)))
        st, b1 = E.impl_reencode(b)
        if st != 'ok':
            viol('reencode', 'E(render(D(b))) fails with %s on a message the encoder produced' % st, c, b)
            continue
        if b1 != b:
            viol('fixpoint', 'E(render(D(b))) differs from b at byte %d' % E.first_byte_diff(b, b1), c, b)
            continue
        # foreign variant: a minus-zero new reference value at the very start of the data section
        if c.ids and c.ids[0] // 1000 == 203 and c.ids[0] % 1000 not in (0, 255) and not c.comp and c.valss[0] and c.valss[0][0] == 0:
            bits = C.data_bits(b)
            fb = C.replace_data(b, '1' + bits[1:])
            st, f1 = E.impl_reencode(fb)
            if st == 'ok':
                st2, f2 = E.impl_reencode(f1)
                count_('foreign-minus-zero')
                if f1 == fb:
                    count_('foreign-minus-zero-kept')
                if st2 != 'ok' or f2 != f1:
                    viol('foreign-fixpoint', 'second round trip of a foreign message is not a fixpoint', c, fb)
    return out


def foreign_minus_zero(seed, count):
    """crafted foreign messages: 203YYY definition whose first new reference value is 'minus zero'"""
    rng = core.rng_for(PROP, seed, 'minus-zero')
    g = SweepGen()
    out = []
    from pybufrkit.encoder import Encoder
    for _ in range(count):
        e = rng.choice(g.numeric)
        yb = rng.randint(2, 16)
        w, s, r = E.eff_params(g.b, e, newref=0)
        raw = rng.randint(0, max((1 << w) - 2, 0))
        ids = [203000 + yb, e, 203255, e, 203000]
        n = rng.choice([1, 2])
        vals = [[0, decoder_value(raw, s)] for _ in range(n)]
        js = C.make_message_json(ids, vals, False, edition=4)
        b = Encoder().process(json.loads(json.dumps(js)), wire_template_data=False).serialized_bytes
        bits = C.data_bits(b)
        assert bits[0] == '0'
        fb = C.replace_data(b, '1' + bits[1:])
        st1, f1 = E.impl_reencode(fb)
        st2, f2 = E.impl_reencode(f1) if st1 == 'ok' else (None, None)
        out.append({'ids': ids, 'foreign_hex': fb.hex(), 'st1': st1, 'st2': st2, 'first_is_plus_zero': f1 == b, 'fix': f2 == f1 and st2 == 'ok'})
    return out


# ---------------------------------------------------------------------------------------------
def run(ctx):
    ctx.rule = ('sweep: at least one non-missing probe value; whole-message: the file decodes / the generated template has a '
                'replication, sequence or operator and a non-missing value')
    quick = ctx.tier == 'quick'
    jobs = []
    if quick:
        jobs += [('sweep', (ctx.seed, k, None, ctx.tier)) for k in range(6000 // CHUNK)]
    else:
        g = SweepGen()
        specs = [(e, mod, kind) for e in g.numeric for mod in MODS for kind in sorted(set(KINDS))]
        specs += [(e, mod, 'pow2*') for e in g.numeric for mod in sorted(set(WIDTH_MODS))]
        jobs += [('sweep', (ctx.seed, k, specs[i:i + 600], ctx.tier)) for k, i in enumerate(range(0, len(specs), 600))]
        jobs += [('sweep', (ctx.seed, 100000 + k, None, ctx.tier)) for k in range(40)]
    files = [p for p in P.corpus_files(ctx.tier, ctx.rng('corpus'), quick_n=30)]
    jobs += [('corpus', (p,)) for p in files]
    ngen = 4 if quick else 40
    jobs += [('gen', (ctx.seed, k, 150)) for k in range(ngen)]
    with multiprocessing.Pool(min(16, os.cpu_count() or 4)) as pool:
        outs = pool.map(_job, jobs, chunksize=1)
    for (kind, _), out in zip(jobs, outs):
        if kind == 'corpus':
            name = os.path.basename(out['file'])
            if 'skipped' in out:
                ctx.count('corpus-skipped:' + out['skipped'])
                continue
            ctx.count('corpus-files')
            ctx.count('corpus:b1==b' if out.get('same_as_original') else 'corpus:b1!=b')
            ctx.traces += 1
            ctx.case({'file': name, 'bytes': out.get('bytes')}, nontrivial=True, sample=len(ctx.samples) < 1)
            if 'fail' in out:
                k, text = out['fail']
                ctx.violation('corpus file %s (%s): %s' % (name, k, text), {'file': out['file'], 'why': text},
                              signature={'stage': 'corpus', 'kind': k, 'file': name}, no_failing_input=bool(out.get('nfi')))
            continue
        ctx.traces += out['n']
        for key, n in out['counts'].items():
            ctx.count(key, n)
        for obj, nontriv in out['cases']:
            ctx.case(obj, nontrivial=nontriv, sample=nontriv and len(ctx.samples) < 6 and len(json.dumps(obj)) < 800)
        for what, rep, sig, nfi in out['violations']:
            ctx.violation(what, rep, signature=sig, no_failing_input=nfi)
        for kind, rep in out.get('soft', []):
            # observations that are reported only when KNOWN_FINDINGS.json lists them as open (else counted)
            sig = {'stage': 'sweep', 'kind': kind}
            ctx.count('observed:' + kind)
            if any(kf.get('status') == 'open' and kf.get('property') == PROP and core.finding_matches(kf, sig) for kf in ctx.findings):
                ctx.violation('element round trip (%s): ids %s inputs %s' % (kind, rep['ids'], str(rep['inputs'])[:120]), rep, signature=sig)
    # crafted foreign messages (minus zero)
    for o in foreign_minus_zero(ctx.seed, 12 if quick else 200):
        ctx.count('foreign-minus-zero')
        ctx.case({'foreign': o['foreign_hex']}, nontrivial=True)
        if o['st1'] != 'ok' or not o['fix']:
            ctx.violation('foreign message with a minus-zero reference value: second round trip is not a fixpoint (%s, %s)' % (o['st1'], o['st2']),
                          {'foreign_hex': o['foreign_hex'], 'ids': o['ids']}, signature={'stage': 'foreign', 'kind': 'minus-zero'})
        elif o['first_is_plus_zero']:
            ctx.count('foreign-minus-zero:re-encoded-as-plus-zero')
    ctx.notes.append('compressed data: an out-of-range entry next to an in-range minimum is carried by the increments and reads back '
                     'unchanged (counts under compressed:out-of-range-carried-exactly); an out-of-range minimum or all-equal value is refused')


def _job(job):
    kind, args = job
    if kind == 'sweep':
        return sweep_chunk(args)
    if kind == 'corpus':
        return corpus_fixpoint(args)
    return generated_fixpoint(args)


def replay(ctx, path):
    with open(path) as f:
        body = json.load(f)
    rep = body['replay']
    drv = ctx.driver
    treq = tables_io.group_request()
    if rep.get('sweep'):
        c = Sweep()
        c.ids, c.n, c.comp = rep['ids'], rep['n_subsets'], rep['compressed']
        c.inputs = [[unrepr_value(x) for x in vs] for vs in rep['inputs']]
        c.kind, c.mod, c.layout = rep['kind'], rep['mod'], rep['layout']
        c.idx, c.eid = rep.get('case_index', 0), 0
        if 'cols' in rep:
            cols, gridm = [Col.load(l) for l in rep['cols']], rep['gridm']
        else:   # replay files written before the per-column oracle
            cols = [Col('r', rep['ids'][0] % 1000, role='newref')] * rep['p'] + [Col(rep['fk'], rep['w'], rep['s'], rep['r'], rep.get('nbytes', 0), 'element')]
            gridm = [[True] * rep['p'] + [gv] for gv in rep['grid']]
        c.finish(cols, rep['p'], gridm)
        _, fail, tags, nfi, fj = eval_sweep(drv, treq, [c])[0]
        print('replay:', fail[1] if fail else 'round trip within the bound, implementation and model agree', tags)
        if fail:
            col = c.cols[fj if fj is not None and fj < len(c.cols) else c.p]
            ctx.violation('element round trip (%s): %s' % fail, rep,
                          signature={'stage': 'sweep', 'kind': fail[0], 'compressed': bool(c.comp), 'field': col.fk, 'role': col.role},
                          no_failing_input=nfi)
        return
    if 'file' in rep:
        out = corpus_fixpoint((rep['file'],))
        print('replay corpus file:', out.get('fail') or 'fixpoint holds')
        if 'fail' in out:
            ctx.violation('corpus file: %s' % (out['fail'],), rep, signature={'stage': 'corpus', 'kind': out['fail'][0]})
        return
    hexs = rep.get('message_hex') or rep.get('foreign_hex')
    if hexs:
        b = bytes.fromhex(hexs)
        st1, b1 = E.impl_reencode(b)
        st2, b2 = E.impl_reencode(b1) if st1 == 'ok' else (None, None)
        ok = st1 == 'ok' and st2 == 'ok' and b2 == b1 and (rep.get('foreign_hex') or b1 == b)
        print('replay: %s / %s; b1 == b: %s; b2 == b1: %s' % (st1, st2, b1 == b, b2 == b1))
        if not ok:
            ctx.violation('whole-message round trip is not a fixpoint', rep, signature={'stage': 'fixpoint', 'kind': 'replay'})
        return
    print('replay: nothing to re-run for this entry (proof obligation)')
