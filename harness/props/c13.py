"""
C13 — no hidden state: results do not depend on what was processed before.

Theorems:
  * lean/BufrModel/Props/C13.lean over lean/BufrModel/Msg/Cache.lean (both caches are memo tables of pure functions with
    the code's eviction; history independence; a failing operation leaves an observationally equivalent state; wire-once);
  * lean/BufrModel/Props/C13Session.lean over lean/BufrModel/Msg/Session.lean: the SESSION model - cache limit, table-group
    cache, per Decoder/Encoder object its compiled-template cache and the registers the last message left behind (also
    after a failure at any stage), per renderer/querent object the scratch of its last call, the kept message objects with
    their wire-once flag - refines the stateless specification for every list of operations (decode/encode ok or failing
    at head / tables / template / compilation / data / wiring, wire, render/query through kept objects, release of objects,
    invalidation, limit changes, direct table requests);
  * lean/BufrModel/Props/C13Keyed.lean: a cache keyed by a function of the request is transparent IFF the key determines
    the stored result; witness: marker descriptors cached without the table group (seeded/C13-2, seeded/C07-4).

Tie (model <-> implementation):
  * cache level: random get / invalidate / limit-change histories on the real `TableGroupCache` and `CompiledTemplateManager`
    and on the model's `tableGet` / `compiledGet` (driver op `cache`): key lists (eviction order) and outcome families after
    every step, contents against a fresh load / compile; the cache requests logged during the oracle's histories likewise;
  * session level (driver op `session`, which executes Session.step / pureOut / failStage): EVERY history of the oracle is
    translated to the model's operations; after every operation the outcome class, the stage at which a decode/encode failed
    (from instrumented stage events), the keys of the table-group cache and of every coder's compiled-template cache, and
    the set of message objects held with their `_is_wired` flags are compared; the driver also checks run = specRun on it;
  * the cross-version inputs (harness/xversion.py) are encoded and decoded with fresh objects and compared with the coder
    model (`enc-data` / `dec-data`) under the tables each message names; a fresh interpreter must decode to the same.

Oracle (implementation vs implementation; carries what the model cannot show: Python aliasing, object identity):
histories on ONE reused Decoder / Encoder per configuration (compiled_template_cache_max in {None,0,1,2,50}), ONE kept
renderer of each kind / DataQuerent / MetadataQuerent per slot, table-group cache limit 1/2/3 (50 with 60 groups loaded):
  (b) random: decode, damaged decode, encode, failing encode, scan, four renderers, data / metadata queries, wire(), table
      requests, invalidation, limit changes, re-decoding / re-rendering, release of objects (`drop`: gc.collect());
  (c) cross-version: families derived MECHANICALLY from the bundled tables (elements / sequences whose definition differs
      between two table groups: master versions and local tables) - the same template (marker operators over the bit-mapped
      element, class 33 after 222000, 237000 chains, associated fields, 203/201/202/207/208, replication, sequences) under
      2-3 table groups, decoded / encoded in changing order by the SAME coder object, rendered / queried by kept objects;
  (d) stream: decode, render with kept renderers, query, DROP and collect, next message - so that id() values recur.
Every output is compared with the output of the same operation as the FIRST operation of a fresh interpreter (one new
process per distinct operation).  Table-definition messages (data category 11, prepbufr) are excluded.
"""
import glob
import hashlib
import json
import multiprocessing
import os
import sys

from harness import core

PROP = 'C13'

OWN_CORPUS = True   # the histories of corpus/C13 are run by run() itself

META = dict(
    text='PARTIAL. Kernel-checked for operation lists of any length: (1) Msg/Cache.lean: both caches stay memo tables (every entry = '
         'load/compile of its key, keys distinct, size <= limit, any limit incl. 0/1), every operation returns what it returns '
         'first in a fresh process, a failing operation leaves an observationally equivalent state, wire() is idempotent. '
         '(2) Msg/Session.lean (C13_session_*): a state machine whose state holds the cache limit (module attribute, changeable), '
         'the table-group cache, per Decoder/Encoder object its compiled-template cache AND the registers the last message left '
         'behind (complete, or as they were where a failure left), per renderer/querent object the scratch of its last call, the '
         'kept message objects with the wire-once flag; operations decode/encode (ok or failing at head/tables/template/'
         'compilation/data/wiring), wire, render/query through a kept object, release of objects, invalidate, set limit, direct '
         'table request. Proved by induction over arbitrary operation lists: the outputs equal those of a stateless specification '
         '(refinement; the only thing threaded is the limit the caller set; hypothesis: the limit is not set to 0 in mid-session, '
         'shown necessary on a witness); registers and scratch are never read; the failing stage is a function of the input; '
         'frame of a failing decode. Leaky variants (no new register set / no reset()) are shown NOT to refine. '
         '(3) C13_keyed_cache_transparent_iff: a cache keyed by key(request), any eviction, is unobservable IFF key determines '
         'the stored result; negative direction proved on the witness of seeded/C13-2 / C07-4 (marker descriptor cached by '
         '(operator, element id) without the table group: 022039 12 vs 13 bits). '
         '(4) HEAP level (Msg/Heap.lean, C13_heap_*): the same process state as a store of mutable objects with references - the '
         'table-group cache refers to group objects whose Table B / D entries are references to ONE descriptor object each, '
         'templates, compiled templates and decoded messages refer to those same objects, CoderState builds [[]]*n / [{}]*n (n '
         'references to one object) for compressed data and n objects otherwise, wire() rewrites the message object in place, the '
         'Table C memo of a cached group grows at run time, and every operation may perform arbitrary EXTRA writes W. Proved for '
         'histories of any length: the ownership invariant Sep (everything reachable from a cache or a kept message is allocated, '
         'so new objects are owned by nobody; a kept message is held under one key) is preserved by every operation whose extra '
         'writes respect the discipline "no write to a cell reachable from a cache or a kept message"; under it the heap model '
         'REFINES the value model (abs commutes with every operation, equal outputs: C13_heap_refines_value_model), hence '
         'C13_heap_history_independent; compressed: all n subsets show the one shared list / dict whatever is appended through '
         'whichever alias (C13_compressed_subsets_share); uncompressed: a write through the alias of subset i never changes '
         'subset j (C13_uncompressed_subsets_separate). The discipline is shown NECESSARY by proved negations: a decode that '
         'patches nbits of the cached ElementDescriptor answers differently the second time; an uncompressed CoderState over '
         '[[]]*n leaks appends into the other subsets. The discipline is a CHECKED fact of the implementation on every run '
         '(harness/c13heap.py): __setattr__/__delattr__ hooks on the descriptor / statement / table classes, an identity + content '
         'snapshot of everything reachable from every table group and every compiled template taken at insertion and re-compared '
         'after EVERY operation of every history (only the Table C memo may gain id -> OperatorDescriptor(id)), `is` checks of the '
         'CoderState / TemplateData per-subset containers and of decoded descriptors against the cached Table B objects; a write '
         'reaching a cached object outside load / compile of its key is reported as a failure of Sep, with a failing history when '
         'the fresh-interpreter oracle finds one (probe operations appended) and as no-failing-input-found otherwise. Every '
         'oracle history is also executed on the heap model (driver op heap: outcome, identity pattern of the per-subset lists, '
         'cached cells stable, Sep bound, heap outputs = value outputs). '
         'What remains outside the theorems (still PARTIAL): objects outside the modelled ownership picture - id() reuse after '
         'garbage collection (renderer / querent caches keyed by id: oracle only), the pseudo descriptors a COMPILED template owns '
         'and shares between messages and the template object it keeps (digest audit only), attributes of descriptor objects the '
         'coder does not read, value lists shared by BufrMessage.subset() with its source (C10), thread safety. That part is carried '
         'by the oracle: histories on '
         'ONE reused Decoder/Encoder/renderer/querent per slot - random traffic, cross-version families derived mechanically from '
         'the bundled tables (550 elements / 190 sequences defined differently in two of the 44 bundled table groups; marker '
         'operators, class 33, associated fields, 203/201/202/207/208, replication, sequences), and stream conversion with released '
         'objects and gc.collect() - every output compared with the same operation run first in a fresh interpreter. '
         'Correspondence: cache level (key lists, contents) and session level (every oracle history replayed on Session.step: '
         'outcome class, failing stage, both caches\' keys, kept objects and wired flags after every operation).',
    technique='Lean 4 theorems (invariant of reachable states, refinement of a state machine to a stateless specification by '
              'induction over operation lists, iff-characterisation of transparent keyed caches, heap model with ownership invariant and '
              'frame lemmas refining the value model, proved negations) + in-process write audit of the cached objects + model/implementation '
              'correspondence on cache and session histories + implementation-vs-fresh-interpreter differential oracle on '
              'operation histories over mechanically derived cross-table-version inputs',
    note='Partial: object identity / aliasing is modelled for the ownership picture of notes/C13Heap.md (cached descriptor objects, '
         'per-subset containers, in-place wiring, Table C memo) and its write discipline is audited on the real objects at every '
         'operation; id() reuse after garbage collection, compiled-template-owned pseudo descriptors and threads are not in the '
         'heap model (oracle / digest audit only). Table-definition messages and extra B/D entries are excluded (C20). The session refinement '
         'assumes the cache limit is never set to 0 in mid-session (with 0 the code raises KeyError on every miss while kept '
         'objects stay usable: proved counterexample in Props/C13Session.lean).',
)

CFGS = [None, 0, 1, 2, 50]
RENDERERS = ['flat_text', 'nested_text', 'flat_json', 'nested_json']
MD_EXPRS = ['%length', '%n_subsets', '%master_table_version', '%unexpanded_descriptors', '%2.section_length', '%edition',
            '%is_compressed', '%0.length', '%year']
SCAN_FILES = ['ISMD01_OKPR.bufr', 'asr3_190.bufr', 'multi_invalid_messages.bufr']
EXCLUDED_FILES = ['prepbufr.bufr']  # table-definition messages (data category 11)


# ---------------------------------------------------------------------------------------------
# pool of inputs (built once by the parent, written to a file that every worker reads)
def split_messages(data):
    out = []
    i = 0
    while True:
        i = data.find(b'BUFR', i)
        if i < 0 or i + 8 > len(data):
            break
        n = int.from_bytes(data[i + 4:i + 7], 'big')
        if n < 8 or i + n > len(data):
            out.append(data[i:])
            break
        out.append(data[i:i + n])
        i += n
    return out


def mtv_offset(b):
    ed = b[7]
    return {3: 18, 4: 21}.get(ed)


def category_of(b):
    ed = b[7]
    off = {3: 16, 4: 18}.get(ed)
    return b[off] if off is not None and off < len(b) else None


SYNTH = [
    # name, ids, subsets values, compressed
    ('syn_f11_203', [204004, 31021, 203010, 1001, 203255, 1001, 204000], [[1, 5, 3, 7]], False),
    ('syn_assoc', [204004, 31021, 1001, 12101, 204000], [[1, 3, 5, 2, 273.15]], False),
    ('syn_assoc2', [204004, 31021, 1001, 12101, 204000], [[1, 3, 5, 2, 273.15], [1, 0, 9, 1, 280.0]], False),
    ('syn_assoc2c', [204004, 31021, 1001, 12101, 204000], [[1, 3, 5, 2, 273.15], [1, 0, 9, 1, 280.0]], True),
    ('syn_201_202', [201130, 12101, 201000, 202129, 12101, 202000, 1001], [[273.15, 20.5, 5]], False),
    ('syn_201_rep', [201129, 103002, 12101, 10004, 1001, 201000, 12101], [[273.15, 100000.0, 5, 280.0, 90000.0, 6, 250.0]], False),
    ('syn_203', [203010, 1001, 203255, 1001], [[5, 7]], False),
    ('syn_203c', [203010, 1001, 203255, 1001, 1002], [[5, 7, 1], [5, 9, 2]], True),
    ('syn_plain_c', [1001, 1002, 12101], [[7, 1, 273.15], [9, 2, 280.0]], True),
    ('syn_plain', [1001, 1002, 12101], [[7, 1, 273.15], [9, 2, 280.0]], False),
    ('syn_rep', [101000, 31001, 1001, 103002, 1001, 1002, 12101], [[2, 4, 5, 1, 2, 273.15, 3, 4, 280.0]], False),
    ('syn_208', [208002, 1015, 208000, 1015], [['ab', 'abcdefghijklmnopqrst']], False),
]


def synth_json(ids, subsets, compressed, mtv=13):
    return [
        ['BUFR', 0, 4],
        [22, 0, 78, 0, 1, False, '0000000', 2, 4, 213, mtv, 0, 2015, 7, 12, 5, 0, 0],
        [0, '00000000', len(subsets), True, compressed, '000000', ids],
        [0, '00000000', subsets],
        ['7777'],
    ]


def build_pool(ctx=None):
    """dict(msgs=[{name, cls, hex}], jsons=[{name, cls, text}], files=[{name, hex}], paths={msgname: [...]},
    xv=[{name, shape, E, msgs, jsons}], expect={msgname: observation of a fresh decode in this process})"""
    from pybufrkit.decoder import Decoder
    from pybufrkit.encoder import Encoder
    ddir = os.path.join(core.REPO, 'tests', 'data')
    msgs, jsons, files = [], [], []
    base = {}
    for f in sorted(glob.glob(os.path.join(ddir, '*.bufr'))):
        fn = os.path.basename(f)
        if fn in EXCLUDED_FILES:
            continue
        data = open(f, 'rb').read()
        if fn in SCAN_FILES:
            files.append({'name': fn, 'hex': data.hex()})
        for k, b in enumerate(split_messages(data)):
            if category_of(b) == 11:
                continue
            name = '%s#%d' % (fn[:-5], k)
            base[name] = b
            msgs.append({'name': name, 'cls': 'base', 'hex': b.hex()})
    # other master table versions (existing directories 6..41): same bits, different tables
    patch_plan = [('uegabe#0', [14, 20, 25, 33]), ('207003#0', [16, 29]), ('contrived#0', [19, 24, 41]),
                  ('ISMD01_OKPR#0', [17, 31]), ('IUSK73_AMMC_182300#0', [22, 28]), ('b002_95#0', [15, 36]),
                  ('profiler_european#0', [21]), ('g2nd_208#0', [23]), ('jaso_214#0', [27])]
    for name, versions in patch_plan:
        b = base.get(name)
        if b is None:
            continue
        off = mtv_offset(b)
        for v in versions:
            bb = bytearray(b)
            bb[off] = v
            msgs.append({'name': '%s@v%d' % (name, v), 'cls': 'patched', 'hex': bytes(bb).hex()})
    # damaged: truncation in the head / in the data, flipped data bits, damaged end marker
    def damaged(name, tag, b):
        msgs.append({'name': '%s!%s' % (name, tag), 'cls': 'damaged', 'hex': bytes(b).hex()})
    for name in ['uegabe#0', 'amv2_87#0', 'contrived#0', '207003#0', 'b005_89#0']:
        b = base.get(name)
        if b is None:
            continue
        damaged(name, 'cut60', b[:len(b) * 6 // 10])
        bb = bytearray(b)
        for pos in (len(b) - 12, len(b) - 20, len(b) * 3 // 4):
            bb[pos] ^= 0x5A
        damaged(name, 'flip', bb)
    for name in ['uegabe#0', 'jaso_214#0']:
        b = base.get(name)
        if b is not None:
            damaged(name, 'cut12', b[:12])
            bb = bytearray(b)
            bb[-1] = ord('8')
            damaged(name, 'end', bb)
    # synthetic operator templates (encoded by the parent; workers only see the bytes)
    for name, ids, subsets, comp in SYNTH:
        try:
            m = Encoder().process(json.dumps(synth_json(ids, subsets, comp)), wire_template_data=False)
            msgs.append({'name': name, 'cls': 'synthetic', 'hex': m.serialized_bytes.hex()})
            jsons.append({'name': name + '.json', 'cls': 'synthetic', 'text': json.dumps(synth_json(ids, subsets, comp))})
        except Exception:
            pass
    # JSON inputs for the encoder
    for f in sorted(glob.glob(os.path.join(ddir, '*.json'))):
        fn = os.path.basename(f)
        text = open(f).read()
        jsons.append({'name': fn, 'cls': 'base', 'text': text})
        j = json.loads(text)
        ed = j[0][2]
        idx = {3: 9, 4: 10}.get(ed)
        if idx is None:
            continue
        small = len(text) < 40000
        if small:
            for v in ([14, 30] if fn < 'j' else [26]):
                jj = json.loads(text)
                jj[1][idx] = v
                jsons.append({'name': '%s@v%d' % (fn, v), 'cls': 'patched', 'text': json.dumps(jj)})
            jj = json.loads(text)
            jj[1][idx] = 99  # no such tables: the encoder does not normalise -> the load raises after the eviction
            jsons.append({'name': fn + '@v99', 'cls': 'damaged', 'text': json.dumps(jj)})
            jj = json.loads(text)
            try:
                jj[-2][-1][0] = jj[-2][-1][0][:-1]  # one value short
                jsons.append({'name': fn + '!short', 'cls': 'damaged', 'text': json.dumps(jj)})
            except Exception:
                pass
    # cross-version families: the same template under table groups that define one of its descriptors differently
    xv, expect = [], {}
    if ctx is not None:
        xv, expect = build_xv(ctx, msgs, jsons)
    # candidate query paths per message
    paths = {}
    dec = Decoder()
    for m in msgs:
        try:
            msg = dec.process(bytes.fromhex(m['hex']), wire_template_data=False)
        except Exception:
            continue
        td = msg.template_data.value
        ids = []
        seen = set()
        for d in (td.decoded_descriptors_all_subsets[0] if td.decoded_descriptors_all_subsets else []):
            s = str(d)
            if s not in seen:
                seen.add(s)
                ids.append(s)
        top = ['%06d' % i for i in msg.unexpanded_descriptors.value]
        step = max(1, len(ids) // 12)
        cand = ids[::step][:14]
        ps = []
        for i, s in enumerate(cand):
            ps.append(s)
            if i % 3 == 0:
                ps.append('@[0] > %s' % s)
            if i % 4 == 1:
                ps.append('@[-1] > %s[0]' % s)
            if i % 5 == 2:
                ps.append('@[::2] > %s[::2]' % s)
        for t in top[:3]:
            ps.append('/%s' % t)
            ps.append('@[0]/%s' % t)
        ps.append('/999999')
        ps.append('@[7]/001001')
        paths[m['name']] = ps
    return {'msgs': msgs, 'jsons': jsons, 'files': files, 'paths': paths, 'xv': xv, 'expect': expect}


def build_xv(ctx, msgs, jsons):
    """Families of harness/xversion.py (derived mechanically from the bundled tables) appended to the pool.  Every member
    was encoded and decoded with FRESH objects and compared with the model under the tables its section 1 names; the
    observation of that fresh decode is kept as `expect` and must be what a fresh interpreter gives as well."""
    from pybufrkit.decoder import Decoder
    from harness import xversion
    cat = xversion.Catalogue()
    nf = 40 if ctx.tier == 'quick' else 160
    fams, problems, stats = xversion.build_families(ctx.driver, ctx.rng('xv'), nf, cat=cat)
    for k, v in sorted(cat.summary().items()):
        if isinstance(v, dict):
            for kk, vv in v.items():
                ctx.count('tables:%s:%s' % (k, kk), vv)
        else:
            ctx.count('tables:' + k, v)
    for k, v in sorted(stats.items()):
        ctx.count('xv:' + k, v)
    for f, m, why in problems:
        ctx.violation('cross-version family %s (%s over %s, table group %s): %s (ids %s)' % (f['name'], f['shape'], f['E'], m['group'], why, f['ids']),
                      {'mode': 'xv-model', 'ids': f['ids'], 'group': m['group'], 'json': m.get('json')},
                      signature={'kind': 'xv-fresh-vs-model', 'shape': f['shape'], 'what': why.split(':')[0]})
    xv, expect = [], {}
    crng = ctx.rng('xv-cuts')
    from harness import coder_io
    for f in fams:
        ent = {'name': f['name'], 'shape': f['shape'], 'E': f['E'], 'class': f['class'], 'ids': f['ids'], 'msgs': [], 'jsons': [], 'cuts': []}
        for m in f['members']:
            name = '%s@%s' % (f['name'], m['group'])
            # the same message cut somewhere inside its data section: the decode dies half way through the template, with
            # whatever operators are in force there (associated-field stack, 201/202/207/208 registers, new reference values,
            # a half-defined bit-map) left in the coder state of that message
            try:
                pos, n = coder_io.locate_sections(m['bytes'])[4]
                if n > 5:
                    cut = pos + 4 + crng.randrange(0, n - 4)
                    cname = '%s!cut%d' % (name, cut - pos - 4)
                    msgs.append({'name': cname, 'cls': 'xv-damaged', 'hex': m['bytes'][:cut].hex()})
                    ent['cuts'].append(cname)
            except Exception:  # noqa
                pass
            msgs.append({'name': name, 'cls': 'xv', 'hex': m['bytes'].hex()})
            jsons.append({'name': name + '.json', 'cls': 'xv', 'text': m['json']})
            ent['msgs'].append(name)
            ent['jsons'].append(name + '.json')
            try:
                expect[name] = obs_message(Decoder().process(m['bytes'], wire_template_data=False))
            except Exception as e:  # noqa
                expect[name] = core.err_tag(e)
            ctx.traces += 2            # fresh encode + fresh decode of this member compared with the model
        ctx.count('xv:shape:' + f['shape'])
        ctx.count('xv:change:' + f['class'])
        xv.append(ent)
    return xv, expect


_POOL = None

PRELOAD = ['harness.props.c13', 'pybufrkit.decoder', 'pybufrkit.encoder', 'pybufrkit.renderer', 'pybufrkit.dataquery',
           'pybufrkit.mdquery', 'pybufrkit.templatecompiler', 'pybufrkit.tables']


def pristine_pool(pool_path, nproc):
    """Worker pool in which EVERY task runs in a process of its own that has executed nothing of pybufrkit but its imports:
    a fork server is started as a new interpreter (spawn), imports the modules of PRELOAD and the input pool, and forks one
    child per task (maxtasksperchild=1, chunksize=1).  The state of such a child is that of a fresh interpreter right after
    `import pybufrkit...`; a sample of the reference operations is cross-checked in interpreters started from scratch."""
    os.environ['C13_POOL'] = pool_path
    c = multiprocessing.get_context('forkserver')
    c.set_forkserver_preload(PRELOAD)
    return c.Pool(nproc, maxtasksperchild=1)


def load_pool(path):
    global _POOL
    if _POOL is None or _POOL[0] != path:
        p = json.load(open(path))
        _POOL = (path, {'msgs': {m['name']: bytes.fromhex(m['hex']) for m in p['msgs']},
                        'jsons': {j['name']: j['text'] for j in p['jsons']},
                        'files': {f['name']: bytes.fromhex(f['hex']) for f in p['files']}})
    return _POOL[1]


if os.environ.get('C13_POOL'):
    try:
        load_pool(os.environ['C13_POOL'])  # data only; nothing of pybufrkit is executed
    except Exception:
        pass


# ---------------------------------------------------------------------------------------------
# observations
def _default(o):
    if isinstance(o, (bytes, bytearray)):
        return {'b': bytes(o).hex()}
    return repr(o)


def dig(x):
    return hashlib.sha256(json.dumps(x, default=_default).encode()).hexdigest()[:20]


def desc_obs(d, memo):
    k = id(d)
    r = memo.get(k)
    if r is None:
        r = (type(d).__name__, str(d), getattr(d, 'name', None), getattr(d, 'unit', None), getattr(d, 'scale', None),
             getattr(d, 'refval', None), getattr(d, 'nbits', None))
        memo[k] = r
    return r


def obs_message(msg):
    from pybufrkit.constants import PARAMETER_TYPE_TEMPLATE_DATA
    secs = []
    for s in msg.sections:
        secs.append([(p.name, p.value) for p in s if p.type != PARAMETER_TYPE_TEMPLATE_DATA])
    td = msg.template_data.value
    memo = {}
    descs = [[desc_obs(d, memo) for d in ds] for ds in td.decoded_descriptors_all_subsets]
    links = [sorted(l.items()) for l in td.bitmap_links_all_subsets]
    return {'sections': dig(secs), 'values': dig(td.decoded_values_all_subsets), 'descriptors': dig(descs),
            'links': dig(links), 'bytes': hashlib.sha256(msg.serialized_bytes).hexdigest()[:20],
            'tgk': str(getattr(msg, 'table_group_key', None)), 'n': [len(x) for x in td.decoded_values_all_subsets][:4]}


def group_fingerprint(g):
    b = sorted((i, d.name, d.unit, d.scale, d.refval, d.nbits) for i, d in g.B.descriptors.items())
    dd = sorted((i, d.name, [str(m) for m in d.members]) for i, d in g.D.descriptors.items())
    return {'key': key_str(g.key), 'nB': len(b), 'nD': len(dd), 'B': dig(b), 'D': dig(dd)}


def group_state(g):
    """cheap structural snapshot of the descriptor objects a table group shares with every template built from it"""
    b = tuple((i, d.name, d.unit, d.scale, d.refval, d.nbits) for i, d in g.B.descriptors.items())
    dd = tuple((i, d.name, tuple((type(m).__name__, m.id, len(getattr(m, 'members', None) or ())) for m in (d.members or ())))
               for i, d in g.D.descriptors.items())
    return (b, dd)


def fresh_group_state(key):
    from pybufrkit import tables
    c = tables.TableGroupCache()
    saved = tables.MAXIMUM_NUMBER_OF_CACHED_TABLE_GROUPS
    tables.MAXIMUM_NUMBER_OF_CACHED_TABLE_GROUPS = 50
    from harness import c13heap
    ha = c13heap._CURRENT[0]
    prev = ha.enter('load', 'a private copy of %s for the audit' % key_str(key)) if ha is not None else None
    try:
        return group_state(c.get(key))
    finally:
        tables.MAXIMUM_NUMBER_OF_CACHED_TABLE_GROUPS = saved
        if ha is not None:
            ha.leave(prev)


def key_str(k):
    return '%s|%s' % ('/'.join(k.wmo_tables_sn), '/'.join(k.local_tables_sn) if k.local_tables_sn else '-')


def ckey_str(k):
    try:
        a, b = k[0], k[1]
        return '%s|%s' % (','.join(map(str, a)), key_str(b))
    except Exception:
        return 'malformed-key:%r' % (k,)


def tg_key(v, loc):
    from pybufrkit import tables
    from pybufrkit.constants import DEFAULT_TABLES_DIR
    return tables.TableGroupKey(DEFAULT_TABLES_DIR, ('0', '0_0', str(v)), tuple(loc) if loc else None)


# ---------------------------------------------------------------------------------------------
# executing a history on the implementation (in a process of its own)
class Runner(object):
    def __init__(self, pool, limit, heap=True):
        from pybufrkit import tables
        self.pool = pool
        self.tables = tables
        self.log = []          # table cache requests: (key, outcome, keys after)
        self.clog = []         # compiled cache requests: (coder, key, outcome, keys after)
        # every stage event in order (for the correspondence with the session model): ('t', key, tag) table-group request,
        # ('b', tag) build_template, ('c', coder, key, tag) compiled-template request, ('w', tag) TemplateData.wire,
        # ('p', tag) Decoder/Encoder.process as a whole
        self.elog = []
        runner = self

        def logged_method(cls, name, kind):
            orig = getattr(cls, name)
            if getattr(orig, '_c13_logged', False):
                orig = orig._c13_orig

            def wrapper(self_, *a, **kw):
                tag = 'ok'
                try:
                    return orig(self_, *a, **kw)
                except BaseException as e:
                    tag = core.err_tag(e)
                    raise
                finally:
                    runner.elog.append((kind, tag))
            wrapper._c13_logged = True
            wrapper._c13_orig = orig
            setattr(cls, name, wrapper)
        from pybufrkit import bufr as _bufr, templatedata as _td
        logged_method(_bufr.BufrMessage, 'build_template', 'b')
        logged_method(_td.TemplateData, 'wire', 'w')

        class LoggingCache(tables.TableGroupCache):
            def get(self, key):
                tag = 'ok'
                heap_ = runner.heap
                miss = heap_ is not None and key not in self._groups
                if miss:
                    prev = heap_.enter('load', key_str(key))     # heap audit: the only phase in which the objects of `key` are written
                try:
                    return tables.TableGroupCache.get(self, key)
                except BaseException as e:
                    tag = core.err_tag(e)
                    raise
                finally:
                    if miss:
                        heap_.leave(prev)
                        heap_.sync_tables(self)                  # evicted groups forgotten, the new one snapshotted + registered
                    runner.log.append((key_str(key), tag, [key_str(k) for k in self._groups], tables.MAXIMUM_NUMBER_OF_CACHED_TABLE_GROUPS))
                    runner.elog.append(('t', key_str(key), tag))

            def invalidate(self):
                tables.TableGroupCache.invalidate(self)
                if runner.heap is not None:
                    runner.heap.sync_tables(self)
                runner.log.append(('#inval', 'done', [], tables.MAXIMUM_NUMBER_OF_CACHED_TABLE_GROUPS))

        tables.TableGroupCacheManager._TABLE_GROUP_CACHE = LoggingCache()
        # heap audit (harness/c13heap.py): the write discipline of the heap model (Msg/Heap.lean) checked on this process
        self.heap = None
        if heap:
            from harness import c13heap
            self.heap = c13heap.HeapAudit(key_str, ckey_str)
        if limit is not None:
            tables.MAXIMUM_NUMBER_OF_CACHED_TABLE_GROUPS = limit
        self.coders = {}
        self.objs = {}
        self.fresh_fp = {}
        # renderer / querent / parser objects an application keeps: one per (class, slot), re-used for every view of the
        # history that names the slot (`ro` of the operation; -1 = a new object for this view only)
        self.viewers = {}

    def audit(self):
        """the table groups held by the process-wide cache still equal a fresh load of their keys (no cached
        descriptor object was mutated by what ran so far); returns None or a description"""
        cache = self.tables.TableGroupCacheManager._TABLE_GROUP_CACHE
        for k, g in list(cache._groups.items()):
            ks = key_str(k)
            if ks not in self.fresh_fp:
                try:
                    self.fresh_fp[ks] = fresh_group_state(k)
                except Exception as e:
                    return 'cached table group %s: its key cannot be loaded (%s)' % (ks, type(e).__name__)
            st = group_state(g)
            ref = self.fresh_fp[ks]
            if st != ref:
                if st[0] != ref[0]:
                    diff = [(a, b) for a, b in zip(st[0], ref[0]) if a != b][:2]
                    return 'cached table group %s: Table B descriptors differ from a fresh load of the key, e.g. %r' % (ks, diff)
                diff = [(a, b) for a, b in zip(st[1], ref[1]) if a != b][:1]
                return 'cached table group %s: Table D descriptors differ from a fresh load of the key, e.g. %r' % (ks, diff)
        return None

    def coder(self, src, cfg):
        k = (src, cfg)
        c = self.coders.get(k)
        if c is None:
            from pybufrkit.decoder import Decoder
            from pybufrkit.encoder import Encoder
            c = (Decoder if src == 'dec' else Encoder)(compiled_template_cache_max=cfg)
            mgr = c.compiled_template_manager
            if mgr is not None:
                runner = self
                orig = mgr.get_or_compile
                name = '%s:%s' % (src, cfg)

                def logged(template, table_group, _orig=orig, _mgr=mgr, _name=name):
                    tag = 'ok'
                    heap_ = runner.heap
                    if heap_ is not None:
                        prev = heap_.enter('compile', _name)
                    try:
                        return _orig(template, table_group)
                    except BaseException as e:
                        tag = core.err_tag(e)
                        raise
                    finally:
                        if heap_ is not None:
                            heap_.leave(prev)
                            heap_.sync_compiled(_name, _mgr)     # evicted templates forgotten, a new one snapshotted + registered
                        runner.clog.append((_name, ckey_str((tuple(template.original_descriptor_ids), table_group.key)),
                                            tag, [ckey_str(k) for k in _mgr.cache], _mgr.cache_max))
                        runner.elog.append(('c', _name, ckey_str((tuple(template.original_descriptor_ids), table_group.key)), tag))
                mgr.get_or_compile = logged
            self.coders[k] = c
        return c

    def process(self, src, cfg, m, wire):
        c = self.coder(src, cfg)
        tag = 'ok'
        try:
            if src == 'dec':
                return c.process(self.pool['msgs'][m], wire_template_data=wire)
            return c.process(self.pool['jsons'][m], wire_template_data=wire)
        except BaseException as e:
            tag = core.err_tag(e)
            raise
        finally:
            self.elog.append(('p', tag))

    def managers(self):
        return {'%s:%s' % k: c.compiled_template_manager for k, c in self.coders.items() if c.compiled_template_manager is not None}

    def heap_check(self, i, op, ok, final=False):
        """heap audit after operation i: digests of every cache entry; identity of the descriptors of a new message"""
        h = self.heap
        cache = self.tables.TableGroupCacheManager._TABLE_GROUP_CACHE
        if ok and op['k'] == 'proc':
            msg = self.objs.get((op['src'], op['c'], op['m']))
            if msg is not None:
                h.check_message(msg, cache)
        h.after_op(cache, self.managers(), final=final)

    def snapshot(self):
        """what the session model keeps as state: keys of the table-group cache, keys of every coder's compiled-template
        cache, the message objects the caller holds with their wire-once flag"""
        cache = self.tables.TableGroupCacheManager._TABLE_GROUP_CACHE
        objs = []
        for (src, cfg, m), msg in self.objs.items():
            try:
                wired = bool(msg.template_data.value._is_wired)
            except Exception:  # noqa
                wired = None
            objs.append([src, cfg, m, wired])
        return {'tables': [key_str(k) for k in cache._groups],
                'compiled': {'%s:%s' % k: [ckey_str(x) for x in c.compiled_template_manager.cache]
                             for k, c in self.coders.items() if c.compiled_template_manager is not None},
                'objs': sorted(objs, key=repr)}

    def obtain(self, src, cfg, m):
        k = (src, cfg, m)
        o = self.objs.get(k)
        if o is None:
            o = self.process(src, cfg, m, False)
            self.objs[k] = o
        return o

    def do(self, op):
        k = op['k']
        if k == 'proc':
            msg = self.process(op['src'], op['c'], op['m'], op['wire'])
            self.objs[(op['src'], op['c'], op['m'])] = msg
            return obs_message(msg)
        if k == 'wire':
            self.obtain(op['src'], op['c'], op['m']).wire()
            return 'done'
        if k == 'view':
            msg = self.obtain(op['src'], op['c'], op['m'])
            msg.wire()
            return self.view(msg, op['v'], op.get('ro', -1))
        if k == 'drop':
            # the caller lets go of message objects (all, or the one named) and the garbage collector runs: everything only
            # they kept alive (per-message descriptors, nodes, with an evicted table group its Table B/D objects) is freed
            # and its id() can come back on a later object
            if op.get('m') is None:
                self.objs.clear()
            else:
                self.objs.pop((op['src'], op['c'], op['m']), None)
            msg = None
            import gc
            gc.collect()
            return 'done'
        if k == 'scan':
            from pybufrkit.decoder import generate_bufr_message
            out = []
            for msg in generate_bufr_message(self.coder('dec', op['c']), self.pool['files'][op['f']], continue_on_error=True):
                out.append(obs_message(msg))
            return out
        if k == 'tg':
            g = self.tables.TableGroupCacheManager.get_table_group_by_key(tg_key(op['v'], op.get('loc')))
            return group_fingerprint(g)
        if k == 'inval':
            self.tables.TableGroupCacheManager.invalidate()
            return 'done'
        if k == 'limit':
            self.tables.MAXIMUM_NUMBER_OF_CACHED_TABLE_GROUPS = op['n']
            return 'done'
        raise ValueError('bad op %r' % (op,))

    def viewer(self, what, ro, make):
        if ro is None or ro < 0:
            return make()
        o = self.viewers.get((what, ro))
        if o is None:
            o = self.viewers[(what, ro)] = make()
        return o

    def view(self, msg, v, ro=-1):
        from pybufrkit import renderer
        if v[0] == 'r':
            cls = {'flat_text': renderer.FlatTextRenderer, 'nested_text': renderer.NestedTextRenderer,
                   'flat_json': renderer.FlatJsonRenderer, 'nested_json': renderer.NestedJsonRenderer}[v[1]]
            r = self.viewer(v[1], ro, cls).render(msg)
            return {'len': len(r), 'dig': dig(r)}
        if v[0] == 'q':
            from pybufrkit.dataquery import DataQuerent, NodePathParser
            res = self.viewer('querent', ro, lambda: DataQuerent(NodePathParser())).query(msg, v[1])
            vals = [(i, res.get_values(i)) for i in res.subset_indices()]
            return {'n': len(vals), 'dig': dig(vals), 'flat': dig(res.all_values(flat=True)),
                    'text': dig(self.viewer('flat_text', ro, renderer.FlatTextRenderer).render(res))}
        if v[0] == 'md':
            from pybufrkit.mdquery import MetadataQuerent, MetadataExprParser
            q = self.viewer('mdquerent', ro, lambda: MetadataQuerent(MetadataExprParser()))
            return {'md': dig(q.query(msg, v[1]))}
        raise ValueError('bad view %r' % (v,))


def run_history(task):
    """task = {'pool': path, 'limit': int|None, 'ops': [...]} -> {'out': [...], 'log': [...], 'clog': [...]}"""
    import logging
    logging.disable(logging.CRITICAL)
    devnull = open(os.devnull, 'w')
    sys.stderr = devnull
    pool = load_pool(task['pool'])
    r = Runner(pool, task.get('limit'), heap=task.get('heap', True))
    out = []
    st = []
    audit = None
    for i, op in enumerate(task['ops']):
        n0 = len(r.elog)
        if r.heap is not None:
            r.heap.begin_op(i)
        ok = True
        try:
            out.append(r.do(op))
        except Exception as e:
            out.append(core.err_tag(e))
            ok = False
        st.append({'ev': [list(e) for e in r.elog[n0:]], 'snap': r.snapshot()})
        if audit is None and task.get('audit', True):
            a = r.audit()
            if a:
                audit = (i, a)
        if r.heap is not None:
            r.heap_check(i, op, ok, final=(i == len(task['ops']) - 1))
    return {'out': out, 'log': r.log, 'clog': r.clog, 'audit': audit, 'st': st, 'heap': r.heap.result() if r.heap is not None else None}


def run_fresh(task):
    """one operation as the first thing a fresh interpreter does (default cache limit) -> (output, stage events)"""
    res = run_history({'pool': task['pool'], 'limit': None, 'ops': [task['op']]})
    return res['out'][0], res['st'][0]['ev'], res['heap']


# ---------------------------------------------------------------------------------------------
# correspondence with the session model (lean/BufrModel/Msg/Session.lean, driver op `session`)
def stage_of(ev, failed):
    """the stage at which the decode / encode inside one operation gave up, from its events (None: it did not)"""
    if not any(e[0] == 'p' for e in ev):
        return None                          # nothing was decoded / encoded (the object was kept)
    ptag = [e for e in ev if e[0] == 'p'][0][1]
    if ptag == 'ok':
        return None
    if any(e[0] == 't' and e[2] != 'ok' for e in ev):
        return 'tables'
    if not any(e[0] in 'tb' for e in ev):
        return 'header'
    if any(e[0] == 'b' and e[1] != 'ok' for e in ev):
        return 'build'
    if any(e[0] == 'c' and e[3] != 'ok' for e in ev):
        return 'compile'
    if any(e[0] == 'w' and e[1] != 'ok' for e in ev):
        return 'wire'
    return 'data'


class Names(object):
    def __init__(self):
        self.d = {}

    def __call__(self, x):
        return self.d.setdefault(x, len(self.d))


def session_request(limit, ops, res, facts):
    """One real history -> the request for the driver op `session` + what to compare.
    facts: per input (src, m) what the REFERENCE runs (the operation alone in a fresh interpreter) showed: the table group it
    asks for, the descriptor-list part of its compiled-template key, the stage at which it fails, whether wiring / a view
    fails.  The model is told these (its coder is abstract) and predicts every output class, failing stage, cache content
    and kept object of the history."""
    coders, inputs, tkeys, tids, views, viewers = Names(), Names(), Names(), Names(), Names(), Names()
    inp_rows = {}
    fail = {'load': set(), 'build': set(), 'compile': set(), 'data': set(), 'wire': set(), 'view': set()}
    cache_max = {}

    def coder(src, cfg):
        c = coders((src, cfg))
        cache_max[c] = cfg
        return c

    def inp(src, m):
        i = inputs((src, m))
        if i not in inp_rows:
            f = facts.get((src, m), {})
            k = tkeys(f['tkey']) if f.get('tkey') is not None else None
            t = tids(f.get('ids') if f.get('ids') is not None else ('#', src, m))
            inp_rows[i] = [k, t, src == 'enc']
            stg = f.get('stages', set())
            if 'tables' in stg and k is not None:
                fail['load'].add(k)
            if 'build' in stg:
                fail['build'].add((k, t))
            if 'compile' in stg:
                fail['compile'].add((k, t))
            if 'data' in stg:
                fail['data'].add(i)
            if 'wire' in stg:
                fail['wire'].add(i)
        return i
    mops, last = [], []        # model operations; index of the last model operation of every real operation (None: not modelled)
    fresh_viewer = [10 ** 6]
    for op, o, st in zip(ops, res['out'], res['st']):
        k = op['k']
        if k == 'proc':
            mops.append(['proc', coder(op['src'], op['c']), inp(op['src'], op['m']), bool(op['wire'])])
        elif k == 'wire':
            mops.append(['wire', coder(op['src'], op['c']), inp(op['src'], op['m'])])
        elif k == 'view':
            ro = op.get('ro', -1)
            if ro < 0:
                fresh_viewer[0] += 1
                r = fresh_viewer[0]
            else:
                r = viewers((op['v'][0] if op['v'][0] != 'r' else op['v'][1], ro))
            i = inp(op['src'], op['m'])
            v = views(json.dumps(op['v']))
            if facts.get((op['src'], op['m']), {}).get('viewfail', {}).get(json.dumps(op['v'])):
                fail['view'].add((v, i))
            mops.append(['view', r, coder(op['src'], op['c']), i, v])
        elif k == 'drop':
            mops.append(['dropall'] if op.get('m') is None else ['drop', coder(op['src'], op['c']), inp(op['src'], op['m'])])
        elif k == 'inval':
            mops.append(['invalidate'])
        elif k == 'limit':
            mops.append(['limit', op['n']])
        elif k == 'tg':
            tev = [e for e in st['ev'] if e[0] == 't']
            if len(tev) != 1:
                return None
            kk = tkeys(tev[0][1])
            if tev[0][2] != 'ok':
                fail['load'].add(kk)
            mops.append(['tables', kk])
        elif k == 'scan':
            # a scan decodes the messages of a file one after the other and keeps none: for the state of the caches it is a
            # sequence of decodes that stop after compilation; their outputs are not compared
            c = coder('dec', op['c'])
            ev = st['ev']
            j = 0
            while j < len(ev):
                if ev[j][0] == 't':
                    kk = tkeys(ev[j][1])
                    if ev[j][2] != 'ok':
                        fail['load'].add(kk)
                    ids = None
                    jj = j + 1
                    while jj < len(ev) and ev[jj][0] != 't':
                        if ev[jj][0] == 'c':
                            ids = ev[jj][2].split('|')[0]
                            if ev[jj][3] != 'ok':
                                fail['compile'].add((kk, tids(ids)))
                        jj += 1
                    i = inputs(('scan', len(inputs.d)))
                    t = tids(ids if ids is not None else ('#scan', i))
                    inp_rows[i] = [kk, t, False]
                    fail['data'].add(i)
                    mops.append(['proc', c, i, False])
                    j = jj
                else:
                    j += 1
            last.append(('scan', len(mops) - 1))
            continue
        else:
            return None
        last.append((k, len(mops) - 1))
    ncod = len(coders.d)
    req = {'op': 'session', 'limit': 50 if limit is None else limit,
           'cache_max': [cache_max.get(c) for c in range(ncod)],
           'inputs': [inp_rows[i] for i in range(len(inputs.d))],
           'fail_load': sorted(fail['load']), 'fail_build': sorted(map(list, fail['build'])), 'fail_compile': sorted(map(list, fail['compile'])),
           'fail_data': sorted(fail['data']), 'fail_wire': sorted(fail['wire']), 'fail_view': sorted(map(list, fail['view'])),
           'ops': mops}
    return req, last, {'coders': coders.d, 'inputs': inputs.d, 'tkeys': tkeys.d, 'tids': tids.d}


def compare_session(ops, res, last, names, m):
    """-> description of the first disagreement between the real history and the model's session, or None"""
    if not m.get('refines'):
        return 'refines', 'the model run of this history does not equal its own stateless specification (theorem C13_session_refines_stateless_spec violated by the driver?)'
    tk = {v: k for k, v in names['tkeys'].items()}
    ti = {v: k for k, v in names['tids'].items()}
    ci = {v: k for k, v in names['coders'].items()}
    ii = {v: k for k, v in names['inputs'].items()}
    for n, (op, o, st, (kind, j)) in enumerate(zip(ops, res['out'], res['st'], last)):
        if j < 0:
            continue
        where = 'operation %d (%s on %s)' % (n, kind_str(op), op.get('m') or op.get('f') or op.get('v') or '')
        if kind != 'scan':
            iok = not (isinstance(o, str) and o.startswith('err'))
            mok = m['out'][j] != 'err'
            if iok != mok:
                return 'outcome', '%s: implementation %s, model %s' % (where, 'succeeds' if iok else 'fails (%s)' % o, m['out'][j])
        if kind == 'proc':
            istage = stage_of(st['ev'], None)
            if istage != m['stage'][j]:
                return 'stage', '%s: fails at stage %s, the model (stage = a function of the input) says %s' % (where, istage, m['stage'][j])
        snap = st['snap']
        mt = [tk[x] for x in m['tables'][j]]
        if snap['tables'] != mt:
            return 'tables', '%s: table-group cache holds %s, model %s' % (where, snap['tables'], mt)
        for c, keys in enumerate(m['compiled'][j]):
            src, cfg = ci[c]
            if cfg is None:
                continue
            mk = ['%s|%s' % (ti[t], tk[k]) for t, k in keys]
            ik = snap['compiled'].get('%s:%s' % (src, cfg), [])
            if ik != mk:
                return 'compiled', '%s: compiled-template cache of %s:%s holds %s, model %s' % (where, src, cfg, ik, mk)
        mo = sorted(([ci[c][0], ci[c][1], ii[i][1], w] for c, i, w in m['objs'][j]), key=repr)
        if snap['objs'] != mo:
            return 'objs', '%s: the caller holds %s, model %s' % (where, snap['objs'], mo)
    return None


# ---------------------------------------------------------------------------------------------
# cache-level correspondence (real caches vs model), in worker processes
def fresh_group_fp(key):
    from pybufrkit import tables
    c = tables.TableGroupCache()
    saved = tables.MAXIMUM_NUMBER_OF_CACHED_TABLE_GROUPS
    tables.MAXIMUM_NUMBER_OF_CACHED_TABLE_GROUPS = 50
    try:
        return group_fingerprint(c.get(key))
    finally:
        tables.MAXIMUM_NUMBER_OF_CACHED_TABLE_GROUPS = saved


def run_table_case(case):
    """case = {'limit', 'keys': [[v, loc]...], 'ops': [['get', i] | ['invalidate'] | ['limit', n]]}"""
    import logging
    logging.disable(logging.CRITICAL)
    from pybufrkit import tables
    keys = [tg_key(v, loc) for v, loc in case['keys']]
    cache = tables.TableGroupCache()
    tables.TableGroupCacheManager._TABLE_GROUP_CACHE = cache
    tables.MAXIMUM_NUMBER_OF_CACHED_TABLE_GROUPS = case['limit']
    out, klists, bad = [], [], []
    fps = {}
    for n, op in enumerate(case['ops']):
        if op[0] == 'get':
            try:
                g = tables.TableGroupCacheManager.get_table_group_by_key(keys[op[1]])
                out.append('ok')
                if g.key != keys[op[1]] or g.B.table_group_key != keys[op[1]] or g.D.table_group_key != keys[op[1]]:
                    bad.append((n, 'group of another key returned'))
                else:
                    lim = tables.MAXIMUM_NUMBER_OF_CACHED_TABLE_GROUPS
                    if op[1] not in fps:
                        fps[op[1]] = fresh_group_fp(keys[op[1]])
                    tables.MAXIMUM_NUMBER_OF_CACHED_TABLE_GROUPS = lim
                    if group_fingerprint(g) != fps[op[1]]:
                        bad.append((n, 'cached group differs from a fresh load of its key'))
            except Exception as e:
                out.append(core.err_tag(e))
        elif op[0] == 'invalidate':
            tables.TableGroupCacheManager.invalidate()
            out.append('done')
        else:
            tables.MAXIMUM_NUMBER_OF_CACHED_TABLE_GROUPS = op[1]
            out.append('done')
        klists.append([keys.index(k) for k in cache._groups])
        for k, g in cache._groups.items():
            if g.key != k:
                bad.append((n, 'entry stored under another key'))
    return {'out': out, 'keys': klists, 'bad': bad}


CT_TEMPLATES = [[1001, 1002], [301011], [309052], [101002, 1001, 12101], [301011, 301012, 12101],
                [103000, 31001, 1001, 1002, 12101], [204004, 31021, 1001, 204000], [301195], [1001, 63250]]


def run_compiled_case(case):
    """case = {'max', 'reqs': [[template index, version]...], 'ops': [['get', i]...]}"""
    import logging
    logging.disable(logging.CRITICAL)
    from pybufrkit import tables
    from pybufrkit.templatecompiler import CompiledTemplateManager, TemplateCompiler
    tables.TableGroupCacheManager._TABLE_GROUP_CACHE = tables.TableGroupCache()
    tables.MAXIMUM_NUMBER_OF_CACHED_TABLE_GROUPS = 50
    mgr = CompiledTemplateManager(case['max'])
    reqs = []
    for ti, v in case['reqs']:
        tg = tables.TableGroupCacheManager.get_table_group_by_key(tg_key(v, None))
        reqs.append((tuple(CT_TEMPLATES[ti]), tg))
    out, klists, bad = [], [], []
    kidx = {(ids, tg.key): i for i, (ids, tg) in enumerate(reqs)}
    for n, op in enumerate(case['ops']):
        ids, tg = reqs[op[1]]
        try:
            template = tg.template_from_ids(*ids)
            ct = mgr.get_or_compile(template, tg)
            out.append('ok')
            if ct.table_group_key != tg.key or tuple(ct.template.original_descriptor_ids) != ids:
                bad.append((n, 'compiled template of another key returned'))
            else:
                ref = TemplateCompiler().process(tg.template_from_ids(*ids), tg)
                if json.dumps(ct.to_dict(), default=repr) != json.dumps(ref.to_dict(), default=repr):
                    bad.append((n, 'cached compiled template differs from compiling its key'))
        except Exception as e:
            out.append(core.err_tag(e))
        # the key also carries the generation of the in-stream table entries (constant here: no table-definition message)
        def _idx(k):
            # a key of another shape than (descriptor ids, table group key, ...) is a key the model does not have
            try:
                return kidx.get((k[0], k[1]), -1)
            except Exception:  # noqa
                return -1
        klists.append([_idx(k) for k in mgr.cache])
    return {'out': out, 'keys': klists, 'bad': bad}


def gen_table_case(rng, versions):
    nk = rng.randint(2, 6)
    keys = [[v, None] for v in rng.sample(versions, nk)]
    if rng.random() < 0.4:
        keys.append([13, ['0', '98_0', rng.choice(['1', '101'])]])
    fail = []
    if rng.random() < 0.4:
        keys.append([rng.choice([99, 5, 77]), None])  # no such directory: the load raises (after the eviction)
        fail.append(len(keys) - 1)
    limit = rng.choice([1, 1, 2, 2, 3, 3, 0, 4])
    ops = []
    for _ in range(rng.randint(8, 30)):
        r = rng.random()
        if r < 0.86:
            ops.append(['get', rng.randrange(len(keys))])
        elif r < 0.93:
            ops.append(['invalidate'])
        else:
            ops.append(['limit', rng.choice([0, 1, 2, 3, 5])])
    return {'limit': limit, 'keys': keys, 'fail': fail, 'ops': ops}


def gen_compiled_case(rng, versions):
    reqs = []
    for _ in range(rng.randint(2, 7)):
        reqs.append([rng.randrange(len(CT_TEMPLATES)), rng.choice(versions[:6])])
    # the same ids under two table versions: keys must differ
    t = rng.randrange(len(CT_TEMPLATES))
    reqs += [[t, versions[0]], [t, versions[1]]]
    reqs = [list(x) for x in sorted(set(map(tuple, reqs)))]
    return {'max': rng.choice([0, 1, 2, 2, 50]), 'reqs': reqs,
            'ops': [['get', rng.randrange(len(reqs))] for _ in range(rng.randint(6, 25))]}


# ---------------------------------------------------------------------------------------------
# history generation
def op_key(op):
    return json.dumps(op, sort_keys=True)


def ref_key(op):
    """key of the reference run (the operation alone in a fresh interpreter): which renderer / querent object of the
    history serves a view (`ro`) makes no difference there, dropping objects neither"""
    if op['k'] == 'drop':
        return json.dumps({'k': 'drop'})
    if 'ro' in op:
        op = {k: v for k, v in op.items() if k != 'ro'}
    return json.dumps(op, sort_keys=True)


def kind_str(op):
    if op['k'] == 'view':
        return 'view:%s%s' % (op['v'][1] if op['v'][0] == 'r' else op['v'][0], '' if op.get('ro', -1) < 0 else ':kept-object')
    if op['k'] == 'proc':
        return op['src'] + (':wired' if op['wire'] else ':unwired')
    return op['k']


COMMON = []    # query paths asked of EVERY message (set per run from the pool: its most frequent descriptors)


def common_paths(pool):
    """a handful of path expressions built from the descriptors that occur in most messages of the pool: the SAME request
    string then reaches a kept querent for many different messages (different numbers of subsets, different values)"""
    freq = {}
    for m, ps in pool['paths'].items():
        for p in set(ps):
            if len(p) == 6 and p.isdigit():
                freq[p] = freq.get(p, 0) + 1
    top = [p for p, _ in sorted(freq.items(), key=lambda x: (-x[1], x[0]))[:2]]
    out = ['/999999']
    if top:
        out += [top[0], '@[0] > %s' % top[0], '@[::2] > %s[0]' % top[-1]]
    return out


def gen_view(rng, paths, hrng=None):
    """a view request; the variety per message is kept small (4 paths, 3 metadata expressions chosen per message by `hrng`)
    so that the same request comes back often within and across histories"""
    r = rng.random()
    if r < 0.55:
        return ['r', rng.choice(RENDERERS)]
    if r < 0.85 and paths:
        return ['q', rng.choice(COMMON) if COMMON and rng.random() < 0.4 else rng.choice(paths)]
    return ['md', rng.choice(MD_EXPRS[:4])]


def gen_history(rng, pool, n, versions, heavy):
    names = [m['name'] for m in pool['msgs']]
    light = [x for x in names if x not in heavy]
    k = rng.randint(4, 14)
    mine = rng.sample(light, min(k, len(light)))
    syn = [m['name'] for m in pool['msgs'] if m['cls'] == 'synthetic']
    mine += [x for x in rng.sample(syn, min(len(syn), rng.randint(1, 4))) if x not in mine]
    if rng.random() < 0.15:
        mine.append(rng.choice(sorted(heavy)))
    jn = [j['name'] for j in pool['jsons']]
    myj = rng.sample(jn, rng.randint(1, 5))
    cfgs_h = rng.sample(CFGS, rng.randint(2, 5))
    assigned = pool.get('cfgs', {})

    class _Cfgs(object):
        """coder configurations usable for an input: those of this history that the run assigned to the input (the
        assignment keeps the number of distinct operations, hence of reference interpreters, bounded)"""
        def pick(self, m):
            a = [c for c in assigned.get(m, CFGS) if c in cfgs_h] or assigned.get(m, CFGS)
            return rng.choice(a)
    pick = _Cfgs().pick
    cfgs = cfgs_h
    ops = []
    recent = []

    def ro():
        # which renderer / querent object serves the view: mostly the ones the history keeps (two sets), sometimes a new one
        return rng.choice([0, 0, 0, 1, -1])
    while len(ops) < n:
        r = rng.random()
        if recent and r < 0.03:
            # the caller lets go of message objects; the garbage collector runs
            if rng.random() < 0.5:
                ops.append({'k': 'drop'})
                recent = []
            else:
                src, c, m = recent.pop(rng.randrange(len(recent)))
                ops.append({'k': 'drop', 'src': src, 'c': c, 'm': m})
                recent = [x for x in recent if x != (src, c, m)]
            continue
        if recent and r < 0.30:
            # come back to an object handled a few operations ago: re-render / re-query / re-wire / re-decode
            src, c, m = rng.choice(recent[-6:])
            rr = rng.random()
            if rr < 0.15:
                ops.append({'k': 'proc', 'src': src, 'c': c, 'm': m, 'wire': rng.random() < 0.7})
            elif rr < 0.25:
                ops.append({'k': 'wire', 'src': src, 'c': c, 'm': m})
            else:
                ops.append({'k': 'view', 'src': src, 'c': c, 'm': m, 'v': gen_view(rng, pool['paths'].get(m, [])), 'ro': ro()})
            continue
        if r < 0.62:
            m = rng.choice(mine)
            c = pick(m)
            ops.append({'k': 'proc', 'src': 'dec', 'c': c, 'm': m, 'wire': rng.random() < 0.75})
            recent.append(('dec', c, m))
        elif r < 0.74:
            m = rng.choice(mine)
            c = pick(m)
            ops.append({'k': 'view', 'src': 'dec', 'c': c, 'm': m, 'v': gen_view(rng, pool['paths'].get(m, [])), 'ro': ro()})
            recent.append(('dec', c, m))
        elif r < 0.86:
            m = rng.choice(myj)
            c = pick(m)
            ops.append({'k': 'proc', 'src': 'enc', 'c': c, 'm': m, 'wire': rng.random() < 0.75})
            recent.append(('enc', c, m))
        elif r < 0.90:
            m = rng.choice(myj)
            c = pick(m)
            ops.append({'k': 'view', 'src': 'enc', 'c': c, 'm': m, 'v': ['r', rng.choice(RENDERERS)], 'ro': ro()})
            recent.append(('enc', c, m))
        elif r < 0.93:
            ops.append({'k': 'scan', 'c': rng.choice(cfgs), 'f': rng.choice([f['name'] for f in pool['files'] if f['name'] != 'asr3_190.bufr'] if rng.random() < 0.8 else [f['name'] for f in pool['files']])})
        elif r < 0.975:
            ops.append({'k': 'tg', 'v': rng.choice(versions), 'loc': rng.choice([None, None, ['0', '98_0', '1']])})
        elif r < 0.99:
            ops.append({'k': 'inval'})
        else:
            ops.append({'k': 'limit', 'n': rng.choice([1, 2, 3])})
    return ops


XV_CFGS = [None, 1, 50]


def xv_views(rng, pool, m):
    """the views asked of a cross-version message: few kinds, so that the same request recurs across histories"""
    ps = pool['paths'].get(m, [])
    r = rng.random()
    if r < 0.45:
        return ['r', 'flat_text']
    if r < 0.60:
        return ['r', 'nested_text']
    if r < 0.75:
        return ['r', 'nested_json']
    if r < 0.80:
        return ['r', 'flat_json']
    if ps:
        return ['q', rng.choice(COMMON) if COMMON and rng.random() < 0.5 else ps[rng.randrange(min(2, len(ps)))]]
    return ['md', MD_EXPRS[2]]


def gen_xv_history(rng, pool, n_other, versions, heavy):
    """ONE Decoder and ONE Encoder object (one compiled-template configuration for the whole history) and one set of
    renderer / querent objects over 1-3 cross-version families: the members of a family - the same descriptors under
    table groups that define one of them differently - are decoded / encoded one after the other, in changing order,
    several times, and rendered / queried in between; some random other traffic is mixed in."""
    fams = rng.sample(pool['xv'], min(len(pool['xv']), rng.randint(1, 3)))
    c = rng.choice(XV_CFGS)
    core_ops = []
    for _ in range(rng.randint(2, 4)):
        rng.shuffle(fams)
        for f in fams:
            order = list(range(len(f['msgs'])))
            rng.shuffle(order)
            if rng.random() < 0.4:
                order = order + order[:1]
            for k in order:
                r = rng.random()
                if r < 0.7:
                    m = f['msgs'][k]
                    if f.get('cuts') and rng.random() < 0.35:
                        # a decode that dies inside the data section first (of this family or of another one of the history)
                        core_ops.append({'k': 'proc', 'src': 'dec', 'c': c, 'm': rng.choice(rng.choice(fams).get('cuts') or f['cuts']), 'wire': True})
                    core_ops.append({'k': 'proc', 'src': 'dec', 'c': c, 'm': m, 'wire': True})
                    for _ in range(rng.choice([0, 1, 1, 2])):
                        core_ops.append({'k': 'view', 'src': 'dec', 'c': c, 'm': m, 'v': xv_views(rng, pool, m), 'ro': 0})
                    if rng.random() < 0.3:
                        core_ops.append({'k': 'drop'})
                else:
                    m = f['jsons'][k]
                    core_ops.append({'k': 'proc', 'src': 'enc', 'c': c, 'm': m, 'wire': True})
                    if rng.random() < 0.4:
                        core_ops.append({'k': 'view', 'src': 'enc', 'c': c, 'm': m, 'v': ['r', rng.choice(['flat_text', 'nested_text'])], 'ro': 0})
    other = gen_history(rng, pool, n_other, versions, heavy) if n_other else []
    # the other traffic is spliced in blocks between the operations of the families (their order is kept)
    ops = []
    cuts = sorted(rng.randrange(len(core_ops) + 1) for _ in range(4)) if other else []
    blocks = [other[i * len(other) // 4:(i + 1) * len(other) // 4] for i in range(4)] if other else []
    for i, op in enumerate(core_ops):
        while cuts and cuts[0] == i:
            cuts.pop(0)
            ops.extend(blocks.pop(0))
        ops.append(op)
    for b in blocks:
        ops.extend(b)
    return ops


def gen_stream_history(rng, pool, n_msgs):
    """A program that converts a stream of messages: one Decoder, one renderer of each kind, one querent; every message is
    decoded, rendered, queried and DROPPED (garbage collected) before the next one is looked at, so that the addresses of
    its per-message objects (associated-field / marker / skipped descriptors, nodes, with a small table cache the Table B
    descriptors of an evicted group) are handed to the objects of later messages."""
    c = rng.choice([None, None, 50])
    # messages with many per-message descriptor objects: cross-version families (associated fields, markers), the
    # synthetic operator templates, real messages with local tables / bit-maps
    names = [m for f in pool['xv'] if f['shape'] in ('wide-assoc', 'assoc', 'marker', 'chain', 'qa222', 'seq') for m in f['msgs']]
    names += [m['name'] for m in pool['msgs'] if m['cls'] == 'synthetic' and m['name'] != 'syn_f11_203']
    few = rng.sample(names, min(len(names), rng.randint(2, 6)))
    # whole families: their members answer to the same path expressions
    for f in rng.sample(pool['xv'], min(len(pool['xv']), rng.randint(1, 2))):
        few += [m for m in f['msgs'] if m not in few]
    rng.shuffle(few)
    kinds = rng.choice([['flat_text'], ['flat_text'], ['flat_text', 'nested_text'], ['nested_text', 'nested_json'], ['flat_text', 'flat_json']])
    ops = []
    cuts = [x for f in pool['xv'] for x in f.get('cuts', [])]
    for i in range(n_msgs):
        m = few[i % len(few)] if rng.random() < 0.85 else rng.choice(names)
        if cuts and rng.random() < 0.15:
            ops.append({'k': 'proc', 'src': 'dec', 'c': c, 'm': rng.choice(cuts), 'wire': True})     # dies in the data section
        ops.append({'k': 'proc', 'src': 'dec', 'c': c, 'm': m, 'wire': True})
        for kd in kinds:
            ops.append({'k': 'view', 'src': 'dec', 'c': c, 'm': m, 'v': ['r', kd], 'ro': 0})
        if rng.random() < 0.6:
            ps = pool['paths'].get(m, [])
            if ps or COMMON:
                ops.append({'k': 'view', 'src': 'dec', 'c': c, 'm': m, 'ro': 0,
                            'v': ['q', rng.choice(COMMON) if COMMON and (not ps or rng.random() < 0.6) else ps[0]]})
        ops.append({'k': 'drop'})
    return ops


def gen_query_stream(rng, pool, n_msgs):
    """The tightest loop: one Decoder, one querent, ONE path expression; the members of one family are decoded, queried and
    dropped in turn, nothing else is allocated in between - so that the message objects themselves (not only their
    descriptors) come back at the addresses of their dead predecessors."""
    f = rng.choice(pool['xv'])
    ms = list(f['msgs'])
    p = rng.choice(COMMON + pool['paths'].get(ms[0], [])[:2])
    c = rng.choice([None, 50])
    ops = []
    for i in range(n_msgs):
        m = ms[i % len(ms)] if rng.random() < 0.8 else rng.choice(ms)
        ops.append({'k': 'proc', 'src': 'dec', 'c': c, 'm': m, 'wire': True})
        ops.append({'k': 'view', 'src': 'dec', 'c': c, 'm': m, 'v': ['q', p] if rng.random() < 0.9 else ['md', MD_EXPRS[0]], 'ro': 0})
        ops.append({'k': 'drop'})
    return ops


def bundled_versions():
    d = os.path.join(core.REPO, 'pybufrkit', 'tables', '0', '0_0')
    return sorted(int(x) for x in os.listdir(d) if x.isdigit())


# ---------------------------------------------------------------------------------------------
def check_cache_level(ctx, mp, rng):
    versions = bundled_versions()
    nt, nc = (40, 40) if ctx.tier == 'quick' else (400, 400)
    tcases = [gen_table_case(rng, versions) for _ in range(nt)]
    ccases = [gen_compiled_case(rng, versions) for _ in range(nc)]
    tres = mp.map(run_table_case, tcases, chunksize=2)
    cres = mp.map(run_compiled_case, ccases, chunksize=2)
    reqs = [{'op': 'cache', 'kind': 'tables', 'limit': c['limit'], 'fail': c['fail'], 'ops': c['ops']} for c in tcases]
    # which compiled requests fail is a property of the template; the model is told (from the implementation's first answer)
    for c, r in zip(ccases, cres):
        fail = sorted({op[1] for op, o in zip(c['ops'], r['out']) if o != 'ok'})
        c['fail'] = fail
        reqs.append({'op': 'cache', 'kind': 'compiled', 'limit': c['max'], 'fail': fail, 'ops': c['ops']})
    mres = ctx.driver.batch(reqs)
    for kind, cases, results, models in (('tables', tcases, tres, mres[:nt]), ('compiled', ccases, cres, mres[nt:])):
        for c, r, m in zip(cases, results, models):
            lim = c.get('limit', c.get('max'))
            evict = any(len(a) >= len(b) and a != b for a, b in zip(r['keys'], r['keys'][1:]))
            ctx.case({'kind': kind, 'case': c}, nontrivial=evict, sample=(ctx.evaluations % 37 == 0))
            ctx.traces += 1
            ctx.count('cache:%s:limit%s' % (kind, lim))
            ctx.count('cache:%s:steps' % kind, len(c['ops']))
            ctx.count('cache:%s:failing-requests' % kind, sum(1 for o in r['out'] if o.startswith('err')))
            ctx.count('cache:%s:evicting-cases' % kind, int(evict))
            # which family a failing load / compile raises is an input of the model (abstract `loadGroup` / `compile`), not a claim
            mout = [o if o in ('ok', 'done') else 'err' for o in m['out']]
            r['out'] = [o if o in ('ok', 'done') else 'err' for o in r['out']]
            if r['keys'] != m['keys'] or r['out'] != mout:
                step = next(i for i in range(len(c['ops'])) if r['keys'][i] != m['keys'][i] or r['out'][i] != mout[i])
                ctx.violation('%s cache: implementation and model differ at step %d (%r): impl keys %r outcome %s, model keys %r outcome %s'
                              % (kind, step, c['ops'][step], r['keys'][step], r['out'][step], m['keys'][step], mout[step]),
                              {'mode': 'cache', 'kind': kind, 'case': c},
                              signature={'kind': 'cache-correspondence', 'cache': kind, 'limit': lim})
            for n, what in r['bad']:
                ctx.violation('%s cache: %s at step %d (%r)' % (kind, what, n, c['ops'][n]),
                              {'mode': 'cache', 'kind': kind, 'case': c},
                              signature={'kind': 'cache-content', 'cache': kind, 'what': what})
                break


# ---------------------------------------------------------------------------------------------
def signature_of(ops, idx, pool_cls):
    op = ops[idx]
    same = any(o.get('m') == op.get('m') and o.get('c') == op.get('c') and o.get('src') == op.get('src') for o in ops[:idx] if 'm' in o) if 'm' in op else False
    return {'kind': 'history-dependence', 'op': kind_str(op), 'prefix': sorted({kind_str(o) for o in ops[:idx] if o['k'] != 'drop'}),
            'input_class': pool_cls.get(op.get('m') or op.get('f'), '-'), 'same_object_before': same}


def fails(mp, pool_path, limit, prefixes, final, ref):
    tasks = [{'pool': pool_path, 'limit': limit, 'ops': p + [final]} for p in prefixes]
    res = mp.map(run_history, tasks, chunksize=1)
    return [r['out'][-1] != ref for r in res]


SHRINK_TRIALS = [int(os.environ.get('VERIF_C13_SHRINK', '360'))]     # trials left for this run (each is a history in a process of its own)


def shrink(mp, pool_path, limit, prefix, final, ref, budget=120):
    """delta debugging on the operations before the failing one (each trial in a fresh process); the run as a whole
    spends at most SHRINK_TRIALS trials, later failures are reported with the prefix as it is"""
    n = 2
    cur = list(prefix)
    used = 0
    budget = min(budget, SHRINK_TRIALS[0])
    SHRINK_TRIALS[0] -= budget
    while len(cur) >= 1 and used < budget:
        size = max(1, len(cur) // n)
        chunks = [cur[i:i + size] for i in range(0, len(cur), size)]
        cands = [sum(chunks[:i] + chunks[i + 1:], []) for i in range(len(chunks))]
        used += len(cands)
        res = fails(mp, pool_path, limit, cands, final, ref)
        hit = next((c for c, f in zip(cands, res) if f), None)
        if hit is not None:
            cur = hit
            n = max(n - 1, 2)
        elif size == 1:
            break
        else:
            n = min(len(cur), n * 2)
    return cur


def build_facts(distinct, refs, refev):
    """what the reference runs show about every input: table group asked for, descriptor-list part of the compiled key,
    failing stages, failing views (the inputs of the abstract coder of the session model)"""
    facts = {}
    for k, op in distinct.items():
        if op['k'] not in ('proc', 'wire', 'view'):
            continue
        f = facts.setdefault((op['src'], op['m']), {'stages': set(), 'viewfail': {}, 'tkey': None, 'ids': None})
        ev, out = refev[k], refs[k]
        tev = [e for e in ev if e[0] == 't']
        if tev and f['tkey'] is None:
            f['tkey'] = tev[0][1]
        cev = [e for e in ev if e[0] == 'c']
        if cev and f['ids'] is None:
            f['ids'] = cev[0][2].split('|')[0]
        stg = stage_of(ev, None)
        if stg:
            f['stages'].add(stg)
        elif isinstance(out, str) and out.startswith('err'):
            if any(e[0] == 'w' and e[1] != 'ok' for e in ev):
                f['stages'].add('wire')
            elif op['k'] == 'view':
                f['viewfail'][json.dumps(op['v'])] = True
    return facts


def session_correspondence(ctx, hists, results, distinct, refs, refev, pool_cls):
    """every real history against the session model (driver op `session`): output class and failing stage of every
    operation, keys of the table-group cache and of every coder's compiled-template cache, the message objects held and
    their wire-once flags - after EVERY operation; plus the model's own refinement check on that history"""
    facts = build_facts(distinct, refs, refev)
    reqs, metas = [], []
    for hi, ((limit, ops), res) in enumerate(zip(hists, results)):
        sr = session_request(limit, ops, res, facts)
        if sr is None:
            ctx.count('session:histories not expressible in the model')
            continue
        reqs.append(sr[0])
        metas.append((hi, sr))
    if not reqs:
        return
    for (hi, (req, last, names)), m in zip(metas, ctx.driver.batch(reqs)):
        ctx.traces += 1
        ctx.count('session:histories compared with the model')
        ctx.count('session:model operations', len(req['ops']))
        for s in m['stage']:
            if s:
                ctx.count('session:failing stage:' + s)
        why = compare_session(hists[hi][1], results[hi], last, names, m)
        if why:
            limit, ops = hists[hi]
            ctx.violation('session model: history %d: %s' % (hi, why[1]), {'mode': 'history', 'limit': limit, 'ops': ops},
                          signature={'kind': 'session-correspondence', 'what': why[0]})


HEAP_PROBES = 12                  # operations re-run in the same process after a violation of the write discipline
HEAP_SEARCHES_PER_SIGNATURE = 3   # histories searched for a failing input per distinct violation
HEAP_SEARCHES = 24                # per run


def heap_probes(ops, vi, group, facts):
    """the operations of ops[:vi+1] that are run once more, in the same process, after operation vi wrote to an object
    reachable from a cache: every distinct decode / encode / view once; those whose message uses the table group the
    written object belongs to first, decodes / encodes (which go through the cached objects anew) before views of kept
    objects, the most recent first"""
    seen, same, other = set(), [], []
    for op in reversed(ops[:vi + 1]):
        if op['k'] not in ('proc', 'view', 'wire'):
            continue
        k = ref_key(op)
        if k in seen:
            continue
        seen.add(k)
        f = facts.get((op['src'], op['m']), {})
        (same if group is not None and f.get('tkey') == group else other).append(op)
    pick = sorted(same, key=lambda o: o['k'] != 'proc') + sorted(other, key=lambda o: o['k'] != 'proc')
    pick = [dict(o) for o in pick[:HEAP_PROBES // 2]]
    # once with the message objects the history holds, once more after they were released (everything is decoded / encoded
    # anew through the cached objects)
    return pick + [{'k': 'drop'}] + [dict(o) for o in pick]


def heap_correspondence(ctx, mp, pool_path, hists, results, distinct, refs, refev, refheap):
    """The hypothesis of the heap model (lean/BufrModel/Msg/Heap.lean; `Sep` of theorem C13_heap_refines_value_model in
    Props/C13Heap.lean: no write reaches an object reachable from a cache outside the load / compilation of its key, the
    per-subset lists of a coder state are shared exactly as `CoderState.__init__` is modelled) was checked on every
    operation of every history by harness/c13heap.py.  Counters are aggregated; a history in which it does NOT hold is a
    correspondence failure: a failing input is searched for with the fresh-interpreter oracle - (i) an output of the
    history itself that differs from its reference, (ii) the history cut after the violating operation and extended by
    probe operations (heap_probes) run in the same process - and reported; (iii) no output differs: reported as
    no-failing-input-found."""
    from harness import c13heap
    facts = build_facts(distinct, refs, refev)
    cands = {}

    def add(limit, ops, res):
        h = res.get('heap')
        if not h or not h['viol']:
            return
        v = h['viol'][0]
        op = ops[v['op']] if 0 <= v['op'] < len(ops) else {'k': '?'}
        sig = {'kind': 'heap-write-reaches-cached-object', 'what': v['kind'], 'op': kind_str(op), 'where': v['sig']}
        cands.setdefault(core.chash(sig), []).append((limit, ops, res, v, sig))
    th = tr = 0.0
    nh = nr = 0
    for (limit, ops), res in zip(hists, results):
        h = res.get('heap')
        if not h:
            continue
        nh += 1
        th += h['time']
        ctx.count('heap:histories audited')
        for k, n in h['counts'].items():
            ctx.count('heap:' + k, n)
        for recs in h['pat']:
            for r in recs:
                ctx.count('heap:identity pattern:' + c13heap.pattern_str(r))
        if h['viol']:
            ctx.count('heap:histories in which the write discipline / identity pattern of the heap model does not hold')
        add(limit, ops, res)
    for k, h in refheap.items():
        if not h:
            continue
        nr += 1
        tr += h['time']
        ctx.count('heap:reference operations audited (fresh interpreter)')
        ctx.count('heap:reference operations:snapshots taken', h['counts'].get('snapshots taken', 0))
        if h['viol']:
            ctx.count('heap:reference operations in which the write discipline / identity pattern of the heap model does not hold')
        add(None, [distinct[k]], {'out': [refs[k]], 'heap': h})
    ctx.notes.append('heap audit (harness/c13heap.py): %.1fs of CPU summed over %d history processes, %.1fs over %d reference processes'
                     % (th, nh, tr, nr))
    if not cands:
        return

    def where(ops, v):
        op = ops[v['op']] if 0 <= v['op'] < len(ops) else {'k': '?'}
        return 'operation %d (%s on %s)' % (v['op'], kind_str(op), op.get('m') or op.get('f') or op.get('v') or '-')
    head = 'heap model hypothesis Sep does not hold of the implementation: '
    tail = (' [Sep: no write reaches an object reachable from the table-group cache or a compiled-template cache outside the load / '
            'compilation of its key, per-subset lists of a coder state shared as modelled; hypothesis of theorem C13_heap_refines_value_model, '
            'lean/BufrModel/Props/C13Heap.lean]')
    searches = []
    done = set()
    for key, lst in sorted(cands.items()):
        direct = None
        for limit, ops, res, v, sig in lst:
            j = next((j for j in range(max(v['op'], 0), len(ops)) if ref_key(ops[j]) in refs and res['out'][j] != refs[ref_key(ops[j])]), None)
            if j is not None:
                direct = (limit, ops, res, v, sig, j)
                break
        if direct:
            limit, ops, res, v, sig, j = direct
            ctx.violation(head + '%s [%s]: %s; operation %d (%s on %s) of the same history gives %s, first in a fresh interpreter %s (%d histories show this violation)'
                          % (where(ops, v), v['kind'], v['text'], j, kind_str(ops[j]), ops[j].get('m') or ops[j].get('f') or ops[j].get('v'),
                             _short(res['out'][j]), _short(refs[ref_key(ops[j])]), len(lst)) + tail,
                          {'mode': 'history', 'limit': limit, 'ops': ops[:j + 1], 'heap_violation': v, 'got': res['out'][j], 'fresh': refs[ref_key(ops[j])]},
                          signature=sig)
            done.add(key)
            continue
        for limit, ops, res, v, sig in lst[:HEAP_SEARCHES_PER_SIGNATURE]:
            if len(searches) < HEAP_SEARCHES:
                vi = min(max(v['op'], 0), len(ops) - 1)
                searches.append((key, limit, ops[:vi + 1], heap_probes(ops, vi, v.get('group'), facts), v, sig, len(lst)))
    sres = mp.map(run_history, [{'pool': pool_path, 'limit': limit, 'ops': prefix + probes} for _, limit, prefix, probes, _, _, _ in searches], chunksize=1) if searches else []
    ctx.count('heap:failing-input searches (history cut after the violating operation + probe operations)', len(searches))
    ctx.count('heap:probe operations run', sum(len(x[3]) for x in searches))
    for pas in (0, 1):
        for (key, limit, prefix, probes, v, sig, nlst), r in zip(searches, sres):
            if key in done:
                continue
            ext = prefix + probes
            j = next((j for j in range(len(prefix), len(ext)) if ref_key(ext[j]) in refs and r['out'][j] != refs[ref_key(ext[j])]), None)
            if pas == 0 and j is not None:
                done.add(key)
                ctx.violation(head + '%s [%s]: %s; running %s on %s once more afterwards in the same process gives %s, first in a fresh interpreter %s (%d histories show this violation)'
                              % (where(prefix, v), v['kind'], v['text'], kind_str(ext[j]), ext[j].get('m') or ext[j].get('v'),
                                 _short(r['out'][j]), _short(refs[ref_key(ext[j])]), nlst) + tail,
                              {'mode': 'history', 'limit': limit, 'ops': ext[:j + 1], 'heap_violation': v, 'got': r['out'][j], 'fresh': refs[ref_key(ext[j])]},
                              signature=sig)
            elif pas == 1:
                done.add(key)
                nprobe = sum(len(x[3]) for x in searches if x[0] == key)
                ctx.violation(head + '%s [%s]: %s. No output of the %d histories that show this violation or of %d probe operations (the decodes / encodes / views '
                              'of the history run once more after the violating operation in the same process, with the kept message objects and after releasing them) differs from a fresh interpreter'
                              % (where(prefix, v), v['kind'], v['text'], nlst, nprobe) + tail,
                              {'mode': 'history', 'limit': limit, 'ops': prefix, 'heap_violation': v, 'probes': probes},
                              signature=sig, no_failing_input=True)
    for key, lst in sorted(cands.items()):
        if key not in done:      # more distinct violations than the search budget of this run
            limit, ops, res, v, sig = lst[0]
            ctx.violation(head + '%s [%s]: %s. No output of the %d histories that show this violation differs from a fresh interpreter (no probe '
                          'operations run: the budget of %d searches per run was spent on other violations)' % (where(ops, v), v['kind'], v['text'], len(lst), HEAP_SEARCHES) + tail,
                          {'mode': 'history', 'limit': limit, 'ops': ops[:max(v['op'], 0) + 1], 'heap_violation': v},
                          signature=sig, no_failing_input=True)


def evaluate_histories(ctx, mp, pool_path, pool, hists, kinds=None):
    """hists: list of (limit, ops).  Runs references (fresh interpreter per distinct op), the histories, compares."""
    pool_cls = {m['name']: m['cls'] for m in pool['msgs']}
    pool_cls.update({j['name']: j['cls'] for j in pool['jsons']})
    kinds = kinds or ['random'] * len(hists)
    distinct = {}
    for limit, ops in hists:
        for op in ops:
            distinct.setdefault(ref_key(op), json.loads(ref_key(op)))
    keys = sorted(distinct)
    import time
    t0 = time.time()
    fres = mp.map(run_fresh, [{'pool': pool_path, 'op': distinct[k]} for k in keys], chunksize=1)
    refs = {k: r[0] for k, r in zip(keys, fres)}
    refev = {k: r[1] for k, r in zip(keys, fres)}
    refheap = {k: r[2] for k, r in zip(keys, fres)}
    # cross-check: a sample of the operations in interpreters started from scratch ('spawn')
    srng = ctx.rng('spawn-sample')
    sample = srng.sample(keys, min(len(keys), 96 if ctx.tier == 'quick' else 960))
    with multiprocessing.get_context('spawn').Pool(min(16, os.cpu_count() or 1), maxtasksperchild=1) as sp:
        sres = [r[0] for r in sp.map(run_fresh, [{'pool': pool_path, 'op': distinct[k]} for k in sample], chunksize=1)]
    ctx.count('oracle:reference operations cross-checked in spawned interpreters', len(sample))
    for k, r in zip(sample, sres):
        if r != refs[k]:
            ctx.violation('an operation gives different results as the first operation of two new processes (import-time state?): %s' % k,
                          {'mode': 'history', 'limit': None, 'ops': [distinct[k]]}, signature={'kind': 'fresh-vs-fresh', 'op': kind_str(distinct[k])})
    t1 = time.time()
    ctx.count('oracle:distinct-operations (fresh interpreter each)', len(keys))
    # the cross-version messages: what a fresh interpreter decodes = what the fresh Decoder of this process decoded when
    # the pool was built (and that was compared with the model under the tables the message names)
    for k in keys:
        op = distinct[k]
        if op['k'] == 'proc' and op['src'] == 'dec' and op['m'] in pool.get('expect', {}):
            ctx.count('xv:fresh-interpreter decode = fresh object = model')
            if refs[k] != pool['expect'][op['m']]:
                ctx.violation('decoding %s first in a fresh interpreter gives %s, a fresh Decoder of the checking process gave %s (compared with the model)'
                              % (op['m'], _short(refs[k]), _short(pool['expect'][op['m']])),
                              {'mode': 'history', 'limit': None, 'ops': [op]}, signature={'kind': 'fresh-vs-parent', 'op': kind_str(op)})
    results = mp.map(run_history, [{'pool': pool_path, 'limit': limit, 'ops': ops} for limit, ops in hists], chunksize=1)
    ctx.notes.append('timing: %d reference operations in fresh interpreters %.1fs, %d histories %.1fs' % (len(keys), t1 - t0, len(hists), time.time() - t1))
    session_correspondence(ctx, hists, results, distinct, refs, refev, pool_cls)
    from harness import c13heapmodel
    c13heapmodel.heap_correspondence(ctx, sys.modules[__name__], hists, results, distinct, refs, refev,
                                     [(distinct[k], (r[2] if len(r) > 2 else None)) for k, r in zip(keys, fres)])
    heap_correspondence(ctx, mp, pool_path, hists, results, distinct, refs, refev, refheap)
    logged = []
    for hi, ((limit, ops), res) in enumerate(zip(hists, results)):
        ctx.count('oracle:histories:kind:' + kinds[hi])
        xvm = [o['m'].split('@')[0] for o in ops if o['k'] == 'proc' and pool_cls.get(o.get('m')) == 'xv']
        ctx.count('oracle:cross-version coder re-use (same family, another table group, same coder object)',
                  sum(1 for a, b in zip(xvm, xvm[1:]) if a == b))
        ctx.count('oracle:views through a kept renderer / querent object', sum(1 for o in ops if o['k'] == 'view' and o.get('ro', -1) >= 0))
        ctx.count('oracle:drops (objects released, gc.collect())', sum(1 for o in ops if o['k'] == 'drop'))
        groups = {l[0] for l in res['log'] if l[0] != '#inval'}
        evictions = sum(1 for a, b in zip(res['log'], res['log'][1:]) if any(k not in b[2] for k in a[2]))
        revisit = len(ops) - len({op_key(o) for o in ops})
        nfail = sum(1 for o in res['out'] if isinstance(o, str) and o.startswith('err'))
        ctx.case({'limit': limit, 'n': len(ops), 'ops': dig(ops)},
                 nontrivial=(evictions > 0 and revisit > 0 and (nfail > 0 or kinds[hi] != 'random') and len(groups) > (limit or 50)
                             or (limit or 50) >= 50 and revisit > 0),
                 sample=False)
        if hi < 3:
            ctx.samples.append({'limit': limit, 'n_ops': len(ops), 'first_ops': ops[:6], 'table_groups': len(groups), 'evictions': evictions})
        ctx.count('oracle:histories:limit%s' % limit)
        ctx.count('oracle:operations', len(ops))
        ctx.count('oracle:failing-operations', nfail)
        ctx.count('oracle:evictions', evictions)
        ctx.count('oracle:table-cache-requests', len(res['log']))
        ctx.count('oracle:compiled-cache-requests', len(res['clog']))
        for op in ops:
            ctx.count('oracle:op:' + kind_str(op))
        logged.append((hi, limit, res))
        if res.get('audit'):
            i, what = res['audit']
            ctx.violation('shared cached descriptors mutated: after operation %d (%s on %s) %s' % (i, kind_str(ops[i]), ops[i].get('m') or ops[i].get('f'), what),
                          {'mode': 'history', 'limit': limit, 'ops': ops[:i + 1]},
                          signature={'kind': 'cached-group-mutated', 'op': kind_str(ops[i]), 'input_class': pool_cls.get(ops[i].get('m') or ops[i].get('f'), '-')})
        for i, (op, o) in enumerate(zip(ops, res['out'])):
            ref = refs[ref_key(op)]
            if o != ref:
                small = shrink(mp, pool_path, limit, ops[:i], op, ref)
                sops = small + [op]
                sig = signature_of(sops, len(small), pool_cls)
                diff = sorted(k for k in set(o) | set(ref) if o.get(k) != ref.get(k)) if isinstance(o, dict) and isinstance(ref, dict) else None
                ctx.violation('history dependence: %s on %s gives %s after %d earlier operation(s) [%s] but %s first in a fresh interpreter (differs in %s; cache limit %s)'
                              % (kind_str(op), op.get('m') or op.get('f') or op.get('v'), _short(o), len(small),
                                 ', '.join(kind_str(x) for x in small[:6]), _short(ref), diff, limit),
                              {'mode': 'history', 'limit': limit, 'ops': sops, 'got': o, 'fresh': ref}, signature=sig)
                break  # one report per history
    return logged


def _short(o):
    s = json.dumps(o, default=repr)
    return s if len(s) < 90 else s[:87] + '...'


def run(ctx):
    ctx.rule = ('cache level: a case is a history of 6..30 get/invalidate/limit operations on the real cache and the model; non-trivial '
                'when at least one eviction happened. Oracle: a case is a history of 20..200 operations; non-trivial when it contains '
                'an eviction from the table-group cache, a failing operation, a repeated operation and more table groups than the '
                'limit (limit 50: a repeated operation); distinct by the list of operations.')
    import logging
    logging.disable(logging.CRITICAL)
    nproc = min(16, os.cpu_count() or 1)
    # pool of inputs
    pool = build_pool(ctx)
    cdir = os.path.join(core.VERIF, '.cache')
    os.makedirs(cdir, exist_ok=True)
    pool_path = os.path.join(cdir, 'c13_pool_%s.json' % dig(pool))
    if not os.path.exists(pool_path):
        with open(pool_path + '.tmp%d' % os.getpid(), 'w') as f:
            json.dump(pool, f)
        os.replace(pool_path + '.tmp%d' % os.getpid(), pool_path)
    for m in pool['msgs']:
        ctx.count('pool:messages:' + m['cls'])
    for j in pool['jsons']:
        ctx.count('pool:json:' + j['cls'])
    versions = bundled_versions()
    heavy = {m['name'] for m in pool['msgs'] if len(m['hex']) > 2 * 12000}
    # every process of this pool executes exactly one task: a fresh interpreter per history and per reference operation
    with pristine_pool(pool_path, nproc) as mp:
        pr = mp.map(_probe, range(2 * nproc), chunksize=1)
        if len({x[0] for x in pr}) != len(pr) or any(x[1] for x in pr):
            raise core.MachineryError('worker processes are not one fresh process per task: %r' % (pr[:4],))
        # (a) cache-level correspondence
        check_cache_level(ctx, mp, ctx.rng('cache'))
        # corpus of past failures
        corpus = os.path.join(core.VERIF, 'corpus', PROP)
        hists = []
        if os.path.isdir(corpus):
            for f in sorted(os.listdir(corpus)):
                b = json.load(open(os.path.join(corpus, f)))
                hists.append((b['limit'], b['ops']))
        ncorpus = len(hists)
        # (b) histories
        rng = ctx.rng('histories')
        prng = ctx.rng('paths')
        npaths = 4 if ctx.tier == 'quick' else 8
        ncfg = 2 if ctx.tier == 'quick' else 3
        gpool = dict(pool, paths={m: prng.sample(ps, min(npaths, len(ps))) for m, ps in sorted(pool['paths'].items())},
                     cfgs={x['name']: (list(CFGS) if x['cls'] == 'synthetic' and 'hex' in x else prng.sample(CFGS, ncfg))
                           for x in pool['msgs'] + pool['jsons']})
        del COMMON[:]
        COMMON.extend(common_paths(pool))
        ctx.notes.append('query paths asked of every message: %s' % COMMON)
        nh = 52 if ctx.tier == 'quick' else 600
        for i in range(nh):
            limit = rng.choice([1, 2, 3]) if (ctx.tier == 'quick' or i % 10) else 50
            n = rng.randint(20, 200)
            ops = gen_history(rng, gpool, n, versions, heavy)
            if limit == 50:
                # the real limit: load 60 distinct table groups so that the eviction loop runs at 50
                locs = [None, ['0', '98_0', '1'], ['0', '98_0', '101']]
                allk = [(v, l) for l in locs for v in versions]
                pre = [{'k': 'tg', 'v': v, 'loc': l} for v, l in rng.sample(allk, 60)]
                cut = rng.randint(0, len(ops))
                ops = ops[:cut] + pre + ops[cut:]
                ops = [o for o in ops if o['k'] != 'limit']
            hists.append((limit, ops))
        kinds = ['corpus'] * ncorpus + ['random'] * nh
        # (c) cross-version histories: one Decoder / Encoder / renderer set over families that use the same descriptors
        #     under table groups defining them differently
        xrng = ctx.rng('xv-histories')
        nx = 36 if ctx.tier == 'quick' else 300
        for i in range(nx if gpool['xv'] else 0):
            limit = xrng.choice([1, 2, 3, 3, 50])
            ops = gen_xv_history(xrng, gpool, xrng.choice([0, 0, 12, 30]), versions, heavy)
            if limit == 50:
                ops = [o for o in ops if o['k'] != 'limit']
            hists.append((limit, ops))
            kinds.append('cross-version')
        # (d) stream conversion: decode, render with kept renderer objects, drop, collect
        srng = ctx.rng('stream-histories')
        ns = 16 if ctx.tier == 'quick' else 160
        for i in range(ns if gpool['xv'] else 0):
            hists.append((srng.choice([1, 1, 2, 50]), gen_stream_history(srng, gpool, srng.randint(12, 40))))
            kinds.append('stream')
            hists.append((srng.choice([1, 3, 50]), gen_query_stream(srng, gpool, srng.randint(24, 48))))
            kinds.append('query-stream')
        logged = evaluate_histories(ctx, mp, pool_path, pool, hists, kinds)
    ctx.count('corpus:histories', ncorpus)
    # the logged cache traffic of the histories against the model
    compare_logs(ctx, logged, hists)
    ctx.assumptions = ['the file system (bundled tables) does not change during a run',
                       'extra Table B/D entries stay empty: no table-definition message (data category 11) is processed',
                       'Python object identity/aliasing is not modelled; only the fresh-interpreter comparison speaks about it']


def compare_logs(ctx, logged, hists):
    batch, metas = [], []
    for hi, limit, res in logged:
        log = res['log']
        if log:
            keys, ops, ek, eo = {}, [], [], []
            lim = log[0][3]
            first = lim
            for key, tag, after, l in log:
                if l != lim:
                    ops.append(['limit', l]); ek.append(None); eo.append('done'); lim = l
                if key == '#inval':
                    ops.append(['invalidate']); ek.append([]); eo.append('done')
                    continue
                k = keys.setdefault(key, len(keys))
                ops.append(['get', k]); ek.append([keys.setdefault(a, len(keys)) for a in after]); eo.append(tag)
            fail = sorted({op[1] for op, o in zip(ops, eo) if op[0] == 'get' and o.startswith('err') and first != 0})
            batch.append({'op': 'cache', 'kind': 'tables', 'limit': first, 'fail': fail, 'ops': ops})
            metas.append(('tables', hi, ops, ek, eo))
        per = {}
        for name, key, tag, after, mx in res['clog']:
            per.setdefault((name, mx), []).append((key, tag, after))
        for (name, mx), items in sorted(per.items(), key=lambda x: str(x[0])):
            keys, ops, ek, eo = {}, [], [], []
            for key, tag, after in items:
                k = keys.setdefault(key, len(keys))
                ops.append(['get', k]); ek.append([keys.setdefault(a, len(keys)) for a in after]); eo.append(tag)
            batch.append({'op': 'cache', 'kind': 'compiled', 'limit': max(mx, 0),
                          'fail': sorted({op[1] for op, o in zip(ops, eo) if o.startswith('err')}), 'ops': ops})
            metas.append(('compiled ' + name, hi, ops, ek, eo))
    if not batch:
        return
    mres = ctx.driver.batch(batch)
    for (kind, hi, ops, ek, eo), m in zip(metas, mres):
        ctx.traces += 1
        ctx.count('logged-cache-traces:' + kind.split(' ')[0])
        ctx.count('logged-cache-requests', len(ops))
        for i, op in enumerate(ops):
            if op[0] != 'get':
                continue
            mo = m['out'][i]
            if m['keys'][i] != ek[i] or (mo == 'ok') != (eo[i] == 'ok'):
                ctx.violation('%s cache during history %d: request %d: implementation keys %r outcome %s, model keys %r outcome %s'
                              % (kind, hi, i, ek[i], eo[i], m['keys'][i], mo),
                              {'mode': 'history', 'limit': hists[hi][0], 'ops': hists[hi][1]},
                              signature={'kind': 'cache-correspondence', 'cache': kind.split(' ')[0], 'where': 'logged'})
                break


def replay(ctx, path):
    import logging
    logging.disable(logging.CRITICAL)
    body = json.load(open(path))
    rp = body['replay']
    if 'seed' in body:
        ctx.seed = body['seed']      # the cross-version part of the pool is generated from the seed
    mp_ctx = multiprocessing.get_context('spawn')
    if rp.get('mode') == 'cache':
        c = rp['case']
        with mp_ctx.Pool(1, maxtasksperchild=1) as mp:
            r = mp.map(run_table_case if rp['kind'] == 'tables' else run_compiled_case, [c])[0]
        fail = c.get('fail') or sorted({op[1] for op, o in zip(c['ops'], r['out']) if o.startswith('err') and rp['kind'] == 'compiled'})
        m = ctx.driver.batch([{'op': 'cache', 'kind': rp['kind'], 'limit': c.get('limit', c.get('max')), 'fail': fail, 'ops': c['ops']}])[0]
        ctx.case(c)
        print('impl :', r)
        print('model:', m)
        norm = lambda out: [o if o in ('ok', 'done') else 'err' for o in out]
        if r['keys'] != m['keys'] or norm(r['out']) != norm(m['out']) or r['bad']:
            ctx.violation('cache replay: implementation and model differ or content check failed: %r' % (r['bad'],), rp,
                          signature={'kind': 'cache-correspondence', 'cache': rp['kind']})
        return
    pool = build_pool(ctx)
    cdir = os.path.join(core.VERIF, '.cache')
    os.makedirs(cdir, exist_ok=True)
    pool_path = os.path.join(cdir, 'c13_pool_%s.json' % dig(pool))
    with open(pool_path, 'w') as f:
        json.dump(pool, f)
    with pristine_pool(pool_path, min(16, os.cpu_count() or 1)) as mp:
        logged = evaluate_histories(ctx, mp, pool_path, pool, [(rp['limit'], rp['ops'])])
    compare_logs(ctx, logged, [(rp['limit'], rp['ops'])])


def _probe(_):
    """self-check of the pristine pool: (pid, table groups cached in this process, pool preloaded)"""
    from pybufrkit import tables
    return (os.getpid(), len(tables.TableGroupCacheManager._TABLE_GROUP_CACHE._groups), _POOL is not None)
