"""
C20 — in-stream table definitions govern the messages that follow them.

Theorems: lean/BufrModel/Props/C20.lean (extraction inverts the NCEP layout, extended lookup, by-source
Table D resolution equals the merged lookup, shape of `_fix_ncep_descriptors`).

Generated streams: 1..4 definition messages in the NCEP layout (data category 11, template
`103000 031001 000001 000002 000003 101000 031001 300004 105000 031001 300003 205064 101000 031001 000030`,
encoded by the implementation's Encoder from the field strings) defining elements of classes 48-63 (random width,
signed scale, signed reference, units numeric / CODE TABLE / FLAG TABLE / CCITT IA5) and sequences
3-48-xxx..3-63-xxx over them (nesting, fixed / delayed replication, NCEP replication-only sequences), with data
messages BETWEEN and after them (values from the model's generate mode) and one message over descriptors the
definitions do not mention.  A later definition message (StreamGen.def_message) adds new ids, ONLY re-defines ids
defined in stream before (other attributes / members, nothing new), does both, has exactly the shape (ids, lengths)
of an earlier one, repeats an earlier one byte for byte, re-defines bundled ids, defines ids that a sequence of an
earlier message already mentions (forward / complete), or is empty.  All messages of a stream use the same table
versions; data messages prefer the ids the last definition message affected and reuse earlier section-3 templates.
Every message must be decoded by the definitions in force at its position (later definition wins from there on).

MODEL STREAM RUN: `tabledef-stream` = TableDef.specRun (lean/BufrModel/Msg/TableStream.lean) decodes the whole stream
on the file tables, extracting and applying the definitions itself; compared message by message with what
`generate_bufr_message` yields (plain and with compiled templates, cache sizes 1 / 2 / 16).  Theorems
(Props/C20Stream.lean): each message is decoded with `extend files (definitions before it)`, later definition wins,
and the cache model with generation-keyed invalidation (implRun) refines specRun.

ORACLE (implementation only): the data messages decoded one by one by `Decoder(tables_root_dir=<scratch>)`
after the process-global cache has been replaced by a fresh one, where <scratch> (under /tmp, unique per
run, removed afterwards) is a copy of the needed table directories with the entries written into
TableB.json / TableD.json: labels, values and attribute links must be identical to what
`generate_bufr_message` yielded for the stream.  The entries the processor returns must be the generated
definitions; a message over unmentioned descriptors must decode as with the bundled tables alone.
(`_fix_ncep_descriptors` is applied by the code only while extra entries exist; when the definitions contain
replication-only sequences the file-based run gets one unrelated sentinel extra entry, 0-63-254, so that the
same repair is active.)

CORRESPONDENCE (model vs implementation): `tabledef-extract` on the implementation's decoded values vs
`BufrTableDefinitionProcessor().process`; `dec-data` (tables = files + extra entries, fix_ncep) vs the in-stream
decode of every message; `fix-ncep` / `build-src` template trees vs `template_from_ids`; layout variants
(fixed replication, truncated values) of the definition message; tests/data/prepbufr.bufr (all messages).
"""
import copy
import json
import multiprocessing
import os
import shutil
import tempfile

from harness import core, tables_io
from harness import defstreams as DS
from harness import coder_io as C
from harness import coderprops as P

PROP = 'C20'

META = dict(
    claimed=True,
    text='Kernel-checked theorems over the Lean model of BufrTableDefinitionProcessor, the table merge '
         '(load_json_files order, TableB/TableD construction) and _fix_ncep_descriptors, for all inputs: extraction '
         'inverts the NCEP layout for every encodable set of entries (C20_extract_inverse); the extended lookup is '
         '"definition if mentioned, else the file entry" for B and D (C20_lookup_extended); a template built against '
         'tables extended in stream equals the one built against files that contain the entries, also with the '
         'by-source member resolution of TableD when no older sequence mentions a redefined id (C20_as_if_in_files, '
         'C20_by_source); _fix_ncep_descriptors is the identity on trees without member-less replications and gives a '
         'replication-only sequence the descriptor that follows it (C20_fix_ncep).  For an arbitrary stream of definition '
         'and data messages every message is decoded against the files extended by all definitions before it, a later '
         'definition of an id replacing the earlier one from that point on (C20_stream_each_message, '
         'C20_stream_later_definition_wins), and the loop of generate_bufr_message with the table group cache, '
         'invalidate/add_extra_entries and the compiled-template cache keyed by the generation of the extra entries '
         'delivers exactly that (C20_stream_cache_refines; a count-based invalidation does not: '
         'C20_stream_count_based_invalidation_differs).  Decoding itself is the coder model of C01 run on the '
         'extended tables.  Correspondence: generated streams of 1..4 definition messages (new ids, redefinition-only, '
         'same-shape, repeated, bundled ids, forward references, empty) with data messages between and after them, the '
         'whole stream run by the model (specRun) vs generate_bufr_message with and without compiled templates; layout '
         'variants and prepbufr.bufr; model vs implementation on entries, template trees, labels, values, links; '
         'oracle: the implementation itself with the entries in force at the position of the message written into '
         'scratch table files.',
    technique='Lean 4 theorems (induction over entry lists, template ids, descriptor trees and streams; cache invariant) + checked '
              'model/implementation correspondence + file-based differential oracle on the implementation',
    note='Strings are modelled on ASCII; int() on ASCII digits/sign/underscore/whitespace; the fix gate '
         '(has_extra_entries) is process-global state and is reproduced by a flag.',
)

DEF_IDS = [103000, 31001, 1, 2, 3, 101000, 31001, 300004, 105000, 31001, 300003, 205064, 101000, 31001, 30]
SENTINEL = {'063254': ['C20 SENTINEL', 'NUMERIC', 0, 0, 1, '', 0, 0]}
WORDS = ['TEMPERATURE', 'PRESSURE', 'HEIGHT', 'WIND', 'SPEED', 'TABLE B ENTRY', '-', 'OBSERVED', 'QUALITY', 'MARK',
         'LEVEL', 'OF', 'THE', 'FORECAST', 'TIME', 'ID', 'X', 'DEW POINT', 'PROFILE', 'DATA', '(COMPUTED)', 'A']
UNITS_NUM = ['NUMERIC', 'M', 'K', 'PA', 'M/S', 'DEGREES TRUE', '%', 'KG/KG', 'SECONDS', 'Numeric', 'deg']


# ---------------------------------------------------------------------------------------------
# process-global state of the implementation
def reset_cache(extra_b=None, extra_d=None):
    from pybufrkit.tables import TableGroupCacheManager, TableGroupCache
    TableGroupCacheManager._TABLE_GROUP_CACHE = TableGroupCache()
    if extra_b or extra_d:
        TableGroupCacheManager.add_extra_entries(copy.deepcopy(extra_b or {}), copy.deepcopy(extra_d or {}))


def cache_extras():
    from pybufrkit.tables import TableGroupCacheManager
    c = TableGroupCacheManager._TABLE_GROUP_CACHE
    return copy.deepcopy(c.extra_b_entries), copy.deepcopy(c.extra_d_entries)


_groups = {}


def file_group(version, local):
    key = (version, local)
    if key not in _groups:
        _groups[key] = tables_io.read_group(('0', '0_0', str(version)), ('0', '98_0', '1') if local else None)
    return _groups[key]


# ---------------------------------------------------------------------------------------------
# generator (pure JSON descriptions)
def mk_name(rng, quirky):
    n = rng.randint(1, 7)
    s = ' '.join(rng.choice(WORDS) for _ in range(n))[:64].rstrip()
    if not quirky:
        # encodable: the character at the line break is not white space
        while len(s) > 32 and s[31] == ' ':
            s = s[:31] + 'Z' + s[32:]
    elif len(s) > 33:
        s = s[:31] + ' ' + s[32:]
    return s or 'N'


def fmt_int(rng, v, width):
    s = '%d' % abs(v)
    r = rng.random()
    if r < 0.7:
        return s.ljust(width)
    if r < 0.85:
        return s.rjust(width)
    return s.zfill(width)


class StreamGen(object):
    """Generator state of one stream: the definitions in force (`eb`, `ed`) after the definition messages
    generated so far.  A definition message is generated in one of the MODES below; `expected()` is what the
    process-global extra entries must be afterwards (later definition of an id replaces the earlier one)."""

    def __init__(self, rng, version, local):
        self.rng = rng
        self.version, self.local = version, local
        self.fb, self.fd = file_group(version, local)
        kind = tables_io.unit_kind
        self.std_num = sorted(i for i, v in self.fb.items() if kind(v[1]) == 'n' and 1 <= i // 1000 <= 30 and 1 <= v[4] <= 32)
        self.std_code = sorted(i for i, v in self.fb.items() if kind(v[1]) == 'c' and 1 <= i // 1000 <= 30 and 1 <= v[4] <= 32)
        self.std_str = sorted(i for i, v in self.fb.items() if kind(v[1]) == 's' and 1 <= i // 1000 <= 30 and v[4] % 8 == 0 and v[4] <= 160)
        self.local_b = sorted(i for i in self.fb if i // 1000 >= 48) if local else []
        self.std_seq = [s for s in (301011, 301012, 301013, 301021, 301023, 301001, 301004) if s in self.fd]
        # a small pool of bundled descriptors per stream: used as members / in data messages AND as targets of
        # redefinitions, so that a bundled id is seen with its standard meaning before and its new one after
        self.pool_num = rng.sample(self.std_num, 6)
        self.pool_code = rng.sample(self.std_code, 2)
        self.eb = {}      # id -> [name, unit, scale, ref, width]   (current in-stream elements)
        self.ed = {}      # id -> [name, [member ids]]
        self.bare = set()     # replication-only sequences
        self.depth = {}
        self.quirks = False
        self.pend_b = set()   # element ids mentioned by an in-stream sequence, defined by a LATER message
        self.pend_d = set()   # sequence ids likewise
        self.focus = None     # ids a data message should prefer (those the last definition message affects)
        self.history = []     # [{'a', 'b': [(id, e)], 'd': [(sid, e)]}] per definition message
        self.templates = []   # section 3 of the data messages so far

    # -- helpers --------------------------------------------------------------------------------
    def closure(self, ids):
        seen = set()
        todo = list(ids)
        while todo:
            i = todo.pop()
            if i in seen:
                continue
            seen.add(i)
            if i in self.ed:
                todo.extend(self.ed[i][1])
            elif i // 100000 == 3 and i in self.fd:
                todo.extend(int(m) for m in self.fd[i][1])
        return seen

    def incomplete(self, i):
        """a sequence that (transitively) mentions an id which no message has defined yet"""
        pend = self.pend_b | self.pend_d
        return bool(pend) and bool(self.closure([i]) & pend)

    def fresh_element_id(self):
        while True:
            i = self.rng.randint(48, 63) * 1000 + self.rng.randint(0, 255)
            if i != 63254 and i not in self.eb and i not in self.fb and i not in self.pend_b:
                return i

    def fresh_sequence_id(self):
        while True:
            i = 300000 + self.rng.randint(48, 63) * 1000 + self.rng.randint(0, 255)
            if i not in self.ed and i not in self.fd and i not in self.pend_d:
                return i

    # -- definitions ----------------------------------------------------------------------------
    def new_attrs(self, old=None):
        """[name, unit, scale, ref, width]; different from `old` in unit / scale / reference / width"""
        rng = self.rng
        while True:
            k = rng.random()
            if old is not None and k < 0.5:
                # change one or two attributes only
                _, unit, scale, ref, width = old
                for what in rng.sample(['width', 'scale', 'ref', 'unit'], rng.randint(1, 2)):
                    if what == 'width':
                        width = 8 * rng.randint(1, 10) if unit == 'CCITT IA5' else rng.randint(1, 32)
                    elif what == 'scale':
                        scale = rng.randint(-3, 6)
                    elif what == 'ref':
                        ref = rng.choice([-1, 1]) * rng.randint(1, 2 ** rng.randint(1, 20))
                    elif unit != 'CCITT IA5':
                        unit = rng.choice(UNITS_NUM + ['CODE TABLE', 'FLAG TABLE'])
            elif k < 0.6 or (old is not None and k < 0.8):
                unit = rng.choice(UNITS_NUM)
                width = rng.choice([rng.randint(1, 32), rng.randint(2, 16)])
                scale = rng.randint(-3, 6)
                ref = 0 if rng.random() < 0.3 else rng.choice([-1, 1]) * rng.randint(1, 2 ** rng.randint(1, 20))
            elif k < 0.8 or (old is not None and k < 0.9):
                unit = rng.choice(['CODE TABLE', 'CODE TABLE', 'FLAG TABLE'])
                width = rng.randint(1, 16)
                scale = rng.choice([0, 0, 0, 1, -1])
                ref = rng.choice([0, 0, 0, 5, -5])
            else:
                unit = 'CCITT IA5'
                width = 8 * rng.randint(1, 10)
                scale, ref = 0, 0
            if old is None or [unit, scale, ref, width] != list(old[1:5]):
                break
        quirky = rng.random() < 0.08
        self.quirks = self.quirks or quirky
        return [mk_name(rng, quirky), unit, scale, ref, width]

    def std_target(self):
        rng = self.rng
        if rng.random() < 0.7:
            return rng.choice(self.pool_num + self.pool_code)
        return rng.choice(self.std_num + self.std_code)

    def new_element(self):
        rng = self.rng
        r = rng.random()
        if r < 0.10 and self.eb:
            i = rng.choice(sorted(self.eb))                     # redefine an in-stream element
        elif r < 0.22:
            i = self.std_target()                               # redefine a bundled element
        elif r < 0.30 and self.local_b:
            i = rng.choice(self.local_b)                        # redefine a local-table element
        else:
            i = rng.randint(48, 63) * 1000 + rng.randint(0, 255)
            if i == 63254:
                i = 63253
        return i, self.new_attrs(self.eb.get(i))

    def simple_item(self, depth):
        """one id: an element or an ordinary sequence"""
        rng = self.rng
        r = rng.random()
        if self.focus and rng.random() < 0.65:
            cand = [i for i in sorted(self.focus)
                    if (i in self.eb or i in self.fb or i in self.std_seq) or
                    (i in self.ed and i not in self.bare and self.depth.get(i, 0) < depth and not self.incomplete(i))]
            if cand:
                return rng.choice(cand)
        news = sorted(self.eb)
        seqs = [s for s in sorted(self.ed) if s not in self.bare and self.depth.get(s, 0) < depth and not self.incomplete(s)]
        if r < 0.55 and news:
            return rng.choice(news)
        if r < 0.70 and seqs:
            return rng.choice(seqs)
        if r < 0.76 and self.std_seq:
            return rng.choice(self.std_seq)
        if r < 0.90:
            return rng.choice(self.pool_num if rng.random() < 0.7 else self.std_num)
        if r < 0.96:
            return rng.choice(self.pool_code if rng.random() < 0.7 else self.std_code)
        return rng.choice(self.std_str)

    def item(self, depth, reps=True):
        """a list of ids forming one item"""
        rng = self.rng
        r = rng.random()
        bare = sorted(self.bare)
        if r < 0.14 and bare:
            return [rng.choice(bare), self.simple_item(depth)]
        if reps and r < 0.34:
            members = []
            for _ in range(rng.randint(1, 3)):
                members.extend(self.item(depth, reps=rng.random() < 0.3))
            x = len(members)
            if r < 0.24:
                return [100000 + 1000 * x + rng.randint(1, 3)] + members
            return [100000 + 1000 * x, rng.choice([31001, 31001, 31002, 31000])] + members
        return [self.simple_item(depth)]

    def members_of_len(self, depth, n):
        """a member list of exactly n ids (whole items only)"""
        ms = []
        while len(ms) < n:
            it = self.item(depth)
            if len(ms) + len(it) > n:
                it = [self.simple_item(depth)]
            ms.extend(it)
        return ms

    def new_sequence(self, sid=None, allow_bare=True, n_members=None):
        rng = self.rng
        r = rng.random()
        redefine = [s for s in sorted(self.ed)]
        if sid is None:
            if r < 0.15 and redefine:
                sid = rng.choice(redefine)
            else:
                sid = 300000 + rng.randint(48, 63) * 1000 + rng.randint(0, 255)
        # never make a sequence (transitively) contain itself: members only of smaller depth; a redefined
        # sequence keeps its depth rank
        d = self.depth.get(sid)
        if d is None:
            d = rng.randint(1, 3)
        old = self.ed.get(sid)
        if allow_bare and n_members is None and rng.random() < 0.22 and sid not in self.ed and sid not in self.pend_d:
            ms = [101000, rng.choice([31001, 31002, 31000])] if rng.random() < 0.7 else [101000 + rng.randint(1, 3)]
            self.bare.add(sid)
            self.depth[sid] = 0
            return sid, [mk_name(rng, False), ms]
        if sid in self.bare:
            # a replication-only sequence stays one (its users rely on the following descriptor)
            if len(old[1]) == 2:
                ms = [101000, rng.choice([f for f in (31001, 31002) if f != old[1][1]] if n_members or rng.random() < 0.7 else [31001, 31002])]
            else:
                ms = [101000 + rng.choice([y for y in (1, 2, 3, 4) if 101000 + y != old[1][0]])]
            return sid, [mk_name(rng, False), ms]
        self.depth[sid] = d
        for _ in range(8):
            if n_members is not None:
                ms = self.members_of_len(d, n_members)
            else:
                ms = []
                for _ in range(rng.randint(1, 5)):
                    ms.extend(self.item(d))
                ms = ms[:60]
            if old is None or ms != old[1]:
                break
        return sid, [mk_name(rng, False), ms]

    def forward_sequence(self):
        """a new sequence that mentions ids which only a LATER definition message defines"""
        rng = self.rng
        sid = self.fresh_sequence_id()
        d = rng.randint(2, 3)
        self.depth[sid] = d
        items = [self.item(d) for _ in range(rng.randint(0, 2))]
        for _ in range(rng.randint(1, 2)):
            if rng.random() < 0.75:
                p = self.fresh_element_id()
                self.pend_b.add(p)
            else:
                p = self.fresh_sequence_id()
                self.pend_d.add(p)
                self.depth[p] = d - 1
            # between whole items only (never between a replication descriptor and its factor / members)
            items.insert(rng.randint(0, len(items)), [p])
        return sid, [mk_name(rng, False), [i for it in items for i in it]]

    MODES = ('add', 'redef', 'redef+add', 'same-shape', 'repeat', 'std', 'forward', 'complete', 'empty')

    def def_message(self, mode='add'):
        """One definition message.
        add         1..12 elements (most new; some redefine in-stream / bundled / local ones), 1..5 sequences
        redef       ONLY ids already defined in stream, with other attributes / members; nothing new
        redef+add   both
        same-shape  exactly the ids of an earlier definition message, in the same order, with other attributes and
                    member lists of the same lengths (the message has the same length in bytes)
        repeat      an earlier definition message again, identically
        std         only redefinitions of bundled (standard / local table) elements
        forward     as add, plus sequences over ids that the NEXT message (complete) defines
        complete    defines every pending id (plus some new elements)
        empty       no entries at all
        """
        rng = self.rng
        a = [['%03d' % rng.randint(0, 255), mk_name(rng, False)[:32].ljust(32), mk_name(rng, False)[:32].ljust(32)]
             for _ in range(rng.choice([0, 1, 1, 2]))]
        bs, ds = [], []

        def add_b(i, e):
            self.eb[i] = e
            self.pend_b.discard(i)
            bs.append((i, e))

        def add_d(sid, e):
            self.ed[sid] = e
            self.pend_d.discard(sid)
            ds.append((sid, e))

        if mode in ('repeat', 'same-shape') and not self.history:
            mode = 'add'
        if mode in ('redef', 'redef+add') and not (self.eb or self.ed):
            mode = 'add'
        if mode == 'repeat':
            h = rng.choice(self.history[-2:])
            a = copy.deepcopy(h['a'])
            for i, e in h['b']:
                add_b(i, copy.deepcopy(e))
            for sid, e in h['d']:
                add_d(sid, copy.deepcopy(e))
            raw = copy.deepcopy(h['raw'])
            self.history.append({'a': a, 'b': bs, 'd': ds, 'raw': raw, 'mode': mode})
            return dict(raw, mode=mode)
        if mode == 'same-shape':
            h = rng.choice(self.history[-2:])
            a = copy.deepcopy(h['a'])
            for i, _ in h['b']:
                add_b(i, self.new_attrs(self.eb.get(i)))
            for sid, e in h['d']:
                add_d(sid, self.new_sequence(sid, allow_bare=False, n_members=len(e[1]))[1])
        if mode in ('redef', 'redef+add'):
            nb = rng.randint(0, min(4, len(self.eb)))
            nd = rng.randint(0 if nb else 1, min(3, len(self.ed))) if self.ed else 0
            if nb + nd == 0:
                nb = 1
            for i in rng.sample(sorted(self.eb), nb):
                add_b(i, self.new_attrs(self.eb[i]))
            for sid in rng.sample(sorted(self.ed), nd):
                add_d(sid, self.new_sequence(sid)[1])
        if mode == 'std':
            for _ in range(rng.randint(1, 3)):
                i = self.std_target() if not self.local_b or rng.random() < 0.7 else rng.choice(self.local_b)
                add_b(i, self.new_attrs(self.eb.get(i)))
        if mode == 'complete':
            for i in sorted(self.pend_b):
                add_b(i, self.new_attrs())
            for sid in sorted(self.pend_d):
                add_d(sid, self.new_sequence(sid, allow_bare=False)[1])
        if mode in ('add', 'forward'):
            for _ in range(rng.randint(1, 12)):
                add_b(*self.new_element())
            for _ in range(rng.randint(1, 5)):
                add_d(*self.new_sequence())
        if mode in ('redef+add', 'complete'):
            for _ in range(rng.randint(0 if mode == 'complete' else 1, 4)):
                add_b(self.fresh_element_id(), self.new_attrs())
            for _ in range(rng.randint(0, 2)):
                add_d(*self.new_sequence(self.fresh_sequence_id()))
        if mode == 'forward':
            for _ in range(rng.randint(1, 2)):
                add_d(*self.forward_sequence())
        b_raw, d_raw = [], []
        for i, e in bs:
            name, unit, scale, ref, width = e
            s = '%06d' % i
            b_raw.append([s[0], s[1:3], s[3:], name[:32].ljust(32), name[32:].ljust(32), unit.ljust(24),
                          '+' if scale >= 0 else '-', fmt_int(rng, scale, 3),
                          '+' if ref >= 0 else '-', fmt_int(rng, ref, 10), fmt_int(rng, width, 3)])
        for sid, e in ds:
            s = '%06d' % sid
            d_raw.append([s[0], s[1:3], s[3:], e[0].ljust(64), ['%06d' % m for m in e[1]]])
        raw = {'kind': 'def', 'a': a, 'b': b_raw, 'd': d_raw}
        self.history.append({'a': a, 'b': bs, 'd': ds, 'raw': raw, 'mode': mode})
        return dict(copy.deepcopy(raw), mode=mode)

    def affected(self):
        """ids the last definition message (re)defined, and the in-stream sequences that reach them"""
        if not self.history:
            return set()
        h = self.history[-1]
        ids = set(i for i, _ in h['b']) | set(s for s, _ in h['d'])
        out = set(ids)
        for s in self.ed:
            if self.closure([s]) & ids:
                out.add(s)
        for s in self.std_seq:
            if self.closure([s]) & ids:
                out.add(s)
        return out

    def data_message(self, ids=None, focus=None):
        rng = self.rng
        if ids is None:
            self.focus = focus
            ids = []
            for _ in range(rng.randint(1, 4)):
                ids.extend(self.item(4))
            self.focus = None
        return {'kind': 'data', 'ids': ids, 'n': rng.randint(1, 3), 'comp': rng.random() < 0.35, 'vals': None}

    def usable(self, ids):
        return not (self.closure(ids) & (self.pend_b | self.pend_d))

    def expected(self):
        """the extra entries as the implementation should hold them after the definitions so far"""
        eb = dict(('%06d' % i, [e[0], e[1], e[2], e[3], e[4], '', 0, 0]) for i, e in self.eb.items())
        ed = dict(('%06d' % i, [e[0], ['%06d' % m for m in e[1]]]) for i, e in self.ed.items())
        return eb, ed


_tg = {}


def plain_ids(rng, version, mentioned, fd):
    """a template over bundled descriptors none of which the definitions mention"""
    if version not in _tg:
        _tg[version] = C.TemplateGen(rng, version=version, level=1)
    tg = _tg[version]
    tg.rng = rng

    def closure(i, seen):
        if i in seen:
            return
        seen.add(i)
        if i // 100000 == 3 and i in fd:
            for m in fd[i][1]:
                closure(int(m), seen)
    for _ in range(20):
        ids, forced = tg.template(rng.randint(1, 4))
        if forced:
            continue
        seen = set()
        for i in ids:
            closure(i, seen)
        if not (seen & mentioned):
            return ids
    return [1001, 1002]


LATER_MODES = ['redef', 'redef', 'redef', 'same-shape', 'same-shape', 'redef+add', 'redef+add', 'add', 'repeat',
               'std', 'std', 'forward', 'empty']


def plan_history(rng):
    """2..4 definition messages; data messages between and after them"""
    n_defs = rng.randint(2, 4)
    modes = ['forward' if rng.random() < 0.15 else 'add']
    while len(modes) < n_defs:
        if modes[-1] == 'forward':
            modes.append('complete')
            continue
        m = rng.choice(LATER_MODES)
        if m == 'forward' and len(modes) >= n_defs - 1:
            continue
        modes.append(m)
    plan = []
    for k, m in enumerate(modes):
        plan.append(('def', m))
        last = k == len(modes) - 1
        for _ in range(rng.randint(1, 3) if last else rng.choice([0, 1, 1, 2])):
            plan.append(('data', None))
    return plan


def gen_stream(rng, index):
    version = rng.choice([13, 13, 33, 25])
    local = rng.random() < 0.3
    g = StreamGen(rng, version, local)
    r = rng.random()
    shape = 'history' if r < 0.6 else 'interleaved' if r < 0.72 else 'defs-then-data'
    msgs = []
    epochs = []       # expected extras before each message
    if shape == 'history':
        plan = plan_history(rng)
    else:
        n_defs = rng.randint(1, 3)
        n_data = rng.randint(1, 4)
        if shape == 'defs-then-data':
            plan = [('def', 'add')] * n_defs + [('data', None)] * n_data
        else:
            plan = [('def', 'add'), ('data', None)] * n_defs + [('data', None)] * max(0, n_data - n_defs)
    affected = set()
    since_def = 0
    for k, mode in plan:
        epochs.append(g.expected())
        if k == 'def':
            msgs.append(g.def_message(mode))
            affected = g.affected()
            since_def = 0
        else:
            # the same section 3 as an earlier data message (preferably one that reaches a descriptor the last
            # definition message changed): same compiled-template key apart from the generation
            old = [t for t in g.templates if g.usable(t)]
            hit = [t for t in old if g.closure(t) & affected]
            ids = None
            if shape != 'defs-then-data':
                if hit and since_def == 0 and rng.random() < 0.6:
                    ids = list(rng.choice(hit))
                elif old and rng.random() < 0.2:
                    ids = list(rng.choice(old))
            m = g.data_message(ids, focus=affected if shape == 'history' else None)
            if m['ids'] not in g.templates:
                g.templates.append(list(m['ids']))
            since_def += 1
            msgs.append(m)
    # one message over unmentioned descriptors
    epochs.append(g.expected())
    mentioned = set(g.eb) | set(g.ed)
    m = g.data_message(plain_ids(rng, version, mentioned, g.fd))
    m['plain'] = True
    msgs.append(m)
    return {'index': index, 'version': version, 'local': local, 'edition': rng.choice([3, 3, 4]), 'shape': shape,
            'msgs': msgs, 'epochs': epochs, 'quirks': g.quirks, 'bare': sorted(g.bare),
            'compiled_max': rng.choice([1, 2, 16, 16])}


# ---------------------------------------------------------------------------------------------
# implementation side
def sec_overrides(desc, category):
    o = {'data_category': category, 'master_table_version': desc['version'],
         'originating_centre': 98 if desc['local'] else 7, 'originating_subcentre': 0 if desc['local'] else 3,
         'local_table_version': 1 if desc['local'] else 0}
    return o


def def_values(m):
    vals = [len(m['a'])]
    for e in m['a']:
        vals.extend(e)
    vals.append(len(m['b']))
    for e in m['b']:
        vals.extend(e)
    vals.append(len(m['d']))
    for e in m['d']:
        vals.extend(e[:4])
        vals.append(len(e[4]))
        vals.extend(e[4])
    return vals


def obs_message(msg):
    td = msg.template_data.value
    subs = []
    for i in range(msg.n_subsets.value):
        subs.append({'d': [str(d) for d in td.decoded_descriptors_all_subsets[i]],
                     'v': list(td.decoded_values_all_subsets[i]),
                     'l': sorted([a, o] for a, o in td.bitmap_links_all_subsets[i].items())})
    return subs


def tree_json(descs):
    from pybufrkit import descriptors as D
    out = []
    for d in descs:
        if isinstance(d, D.SequenceDescriptor):
            out.append({'s': d.id, 'm': tree_json(d.members)})
        elif isinstance(d, D.DelayedReplicationDescriptor):
            out.append({'r': d.id, 'f': d.factor.id, 'm': tree_json(d.members)})
        elif isinstance(d, D.FixedReplicationDescriptor):
            out.append({'r': d.id, 'm': tree_json(d.members)})
        elif isinstance(d, (D.UndefinedElementDescriptor, D.UndefinedSequenceDescriptor)):
            out.append({'u': d.id})
        else:
            out.append(d.id)
    return out


def impl_tree(key, ids):
    from pybufrkit.tables import TableGroupCacheManager
    try:
        return tree_json(TableGroupCacheManager.get_table_group_by_key(key).template_from_ids(*ids).members)
    except RecursionError:
        return 'err:recursion'
    except Exception as e:  # noqa
        return core.err_tag(e)


def run_in_stream(stream, compiled=None):
    """-> list of per-message observations (dict) ; the last item may be an error tag"""
    from pybufrkit.decoder import Decoder, generate_bufr_message
    from pybufrkit.dataprocessor import BufrTableDefinitionProcessor
    reset_cache()
    out = []
    try:
        for msg in generate_bufr_message(Decoder(compiled_template_cache_max=compiled), stream):
            o = {'subs': obs_message(msg), 'cat': msg.data_category.value, 'bytes': msg.serialized_bytes,
                 'key': msg.table_group_key, 'extras': cache_extras()}
            o['tree'] = impl_tree(msg.table_group_key, msg.unexpanded_descriptors.value)
            if o['cat'] == 11 and msg.n_subsets.value > 0:
                try:
                    _, b, d = BufrTableDefinitionProcessor().process(msg)
                    o['entries'] = (b, d)
                except Exception as e:  # noqa
                    o['entries'] = core.err_tag(e)
            out.append(o)
    except Exception as e:  # noqa
        out.append(core.err_tag(e))
    return out


def write_scratch(root, desc, eb, ed):
    """scratch copy of the needed table directories with the entries written into the files"""
    src = tables_io.tables_root()
    dirs = [('0', '0_0', str(desc['version']))]
    if desc['local']:
        dirs.append(('0', '98_0', '1'))
    for k, sn in enumerate(dirs):
        dst = os.path.join(root, *sn)
        os.makedirs(dst)
        last = k == len(dirs) - 1
        for fn in ('TableB.json', 'TableD.json', 'code_and_flag.json'):
            p = os.path.join(src, *sn, fn)
            if not last or fn == 'code_and_flag.json':
                shutil.copy(p, os.path.join(dst, fn))
                continue
            with open(p) as f:
                data = json.load(f)
            data.update(eb if fn == 'TableB.json' else ed)
            with open(os.path.join(dst, fn), 'w') as f:
                json.dump(data, f)


def file_decode(root, b, sentinel):
    from pybufrkit.decoder import Decoder
    reset_cache(SENTINEL if sentinel else None)
    try:
        msg = Decoder(tables_root_dir=root).process(b, wire_template_data=False)
        return obs_message(msg)
    except Exception as e:  # noqa
        return core.err_tag(e)


def plain_decode(b):
    from pybufrkit.decoder import Decoder
    reset_cache()
    try:
        return obs_message(Decoder().process(b, wire_template_data=False))
    except Exception as e:  # noqa
        return core.err_tag(e)


def same_obs(a, b):
    """exact comparison of two implementation observations (floats by repr: same computation)"""
    return repr(a) == repr(b)


# ---------------------------------------------------------------------------------------------
def tables_req(desc, eb, ed):
    fb, fd = file_group(desc['version'], desc['local'])
    b, d = dict(fb), dict(fd)
    for k, v in eb.items():
        b[int(k)] = v
    for k, v in ed.items():
        d[int(k)] = v
    return tables_io.tables_request(b, d)


def srcs_req(desc, ed, ids):
    fw = tables_io.read_group(('0', '0_0', str(desc['version'])))[1]
    srcs = [[[i, [int(m) for m in v[1]]] for i, v in sorted(fw.items())]]
    if desc['local']:
        with open(os.path.join(tables_io.tables_root(), '0', '98_0', '1', 'TableD.json')) as f:
            srcs.append([[int(i), [int(m) for m in v[1]]] for i, v in sorted(json.load(f).items())])
    if ed:
        srcs.append([[int(i), [int(m) for m in v[1]]] for i, v in sorted(ed.items())])
    return {'op': 'build-src', 'ids': ids, 'srcs': srcs}


def canon_entries(b, d):
    return (sorted((k, list(v[:5])) for k, v in b.items()), sorted((k, v[0], list(v[1])) for k, v in d.items()))


def model_entries(r):
    b = dict((e[0], e[1:6]) for e in r['b'])
    d = dict((e[0], [e[1], e[2]]) for e in r['d'])
    return canon_entries(b, d)


def eval_streams(descs, drv, scratch_root, stage_compiled=True):
    """-> list of result dicts {'desc', 'viol': [(what, signature)], 'counts': {}, 'traces': n, 'nontrivial': b}"""
    results = []
    # round 1: values for the data messages (model generate mode on the extended tables)
    reqs = []
    slots = []
    for desc in descs:
        last = None
        for k, m in enumerate(desc['msgs']):
            if m['kind'] != 'data' or m.get('vals') is not None:
                continue
            eb, ed = desc['epochs'][k]
            if last != (eb, ed):
                reqs.append(tables_req(desc, eb, ed))
                slots.append(None)
                last = (eb, ed)
            reqs.append({'op': 'gen-data', 'ids': m['ids'], 'n': m['n'], 'shared': m['comp'],
                         'rnd': C.rnd_bits(core.rng_for(PROP, desc['index'], 'vals%d' % k), 4000),
                         'fix_ncep': bool(eb or ed)})
            slots.append(m)
    for m, r in zip(slots, drv.batch(reqs)):
        if m is None:
            continue
        m['vals'] = r.get('vals')
        if 'err' in r:
            m['gen_err'] = r['err']
    # round 2: encode, decode in stream, oracle; collect model requests
    reqs = []
    checks = []          # (result, kind, payload) aligned with reqs
    for desc in descs:
        res = {'desc': desc, 'viol': [], 'counts': {}, 'traces': 0, 'nontrivial': False, 'info': {}}
        results.append(res)

        def cnt(k, n=1, res=res):
            res['counts'][k] = res['counts'].get(k, 0) + n

        def viol(what, stage, res=res, **sig):
            s = {'stage': stage}
            s.update(sig)
            res['viol'].append((what, s))

        cnt('shape:' + desc['shape'])
        cnt('tables:v%d%s' % (desc['version'], '+local' if desc['local'] else ''))
        # encode
        enc = []
        ok = True
        in_cache = None       # extras of the cache the encoder currently works with (a reload costs ~50 ms)
        for k, m in enumerate(desc['msgs']):
            eb, ed = desc['epochs'][k]
            if m['kind'] == 'def':
                if in_cache != ({}, {}):
                    reset_cache()
                    in_cache = ({}, {})
                js = C.make_message_json(DEF_IDS, [def_values(m)], False, edition=desc['edition'],
                                         overrides=sec_overrides(desc, 11))
            else:
                if m.get('vals') is None:
                    cnt('data-message-without-values:' + str(m.get('gen_err')))
                    enc.append(None)
                    continue
                if in_cache != (eb, ed):
                    reset_cache(eb, ed)
                    in_cache = (eb, ed)
                js = C.make_message_json(m['ids'], P.py_inputs(m['vals']), m['comp'], edition=desc['edition'],
                                         overrides=sec_overrides(desc, 2))
            st, b, _ = C.impl_encode(js)
            if st != 'ok':
                cnt('encoder-refused:' + m['kind'])
                if m['kind'] == 'def':
                    ok = False
                    break
                enc.append(None)
                continue
            enc.append(b)
        if not ok:
            continue
        idx = [k for k, b in enumerate(enc) if b is not None]
        stream = b''.join(enc[k] for k in idx)
        obs = run_in_stream(stream)
        res['info'] = {'messages': len(idx), 'stream_bytes': len(stream)}
        if len(obs) != len(idx) or not isinstance(obs[-1], dict):
            tag = obs[-1] if obs and not isinstance(obs[-1], dict) else 'short'
            bad = len(obs) - 1 if obs and not isinstance(obs[-1], dict) else len(obs)
            kind = desc['msgs'][idx[bad]]['kind'] if bad < len(idx) else '?'
            viol('stream decode stopped at message %d (%s message): %s' % (bad, kind, tag), 'stream', error=str(tag), kind=kind)
            obs = [o for o in obs if isinstance(o, dict)]
        # the model runs the WHOLE stream itself (TableDef.specRun): file tables of the stream's table group, its own
        # extraction from the definition messages, every message decoded with the definitions before it
        if obs and len(obs) == len(idx):
            reqs.append(tables_req(desc, {}, {}))
            checks.append(None)
            smsgs = []
            for k in idx:
                nsub, comp, ids = P.parse_section3(enc[k])
                smsgs.append({'ids': ids, 'compressed': comp, 'n': nsub, 'bits': C.data_bits(enc[k]),
                              'def': desc['msgs'][k]['kind'] == 'def'})
            use_c = desc['index'] % 3 == 0
            reqs.append({'op': 'tabledef-stream', 'msgs': smsgs, 'compiled': use_c})
            checks.append((res, 'model-stream', (idx, obs)))
            cnt('model-stream-runs' + (':compiled' if use_c else ''))
        last_ep = None
        epoch_dirs = {}
        for o, k in zip(obs, idx):
            m = desc['msgs'][k]
            eb, ed = desc['epochs'][k]
            has_extra = bool(eb or ed)
            if o['bytes'] != enc[k]:
                viol('message %d: serialized bytes differ from the bytes in the stream' % k, 'stream-bytes')
            # model requests
            if last_ep != (eb, ed):
                reqs.append(tables_req(desc, eb, ed))
                checks.append(None)
                last_ep = (eb, ed)
            nsub, comp, ids = P.parse_section3(enc[k])
            reqs.append({'op': 'dec-data', 'ids': ids, 'compressed': comp, 'n': nsub, 'bits': C.data_bits(enc[k]),
                         'fix_ncep': has_extra})
            checks.append((res, 'decode', (k, o)))
            reqs.append({'op': 'fix-ncep', 'ids': ids, 'fix': has_extra})
            checks.append((res, 'tree', (k, o)))
            if m['kind'] == 'data' and not m.get('plain') and ed and not desc['bare']:
                reqs.append(srcs_req(desc, ed, ids))
                checks.append((res, 'src-tree', (k, o, has_extra)))
            if m['kind'] == 'def':
                cnt('definition-messages')
                cnt('def-mode:' + m.get('mode', 'add'))
                cnt('b-entries', len(m['b']))
                cnt('d-entries', len(m['d']))
                reqs.append({'op': 'tabledef-extract', 'ids': ids, 'vals': [C.from_py_exact(v) for v in o['subs'][0]['v']]})
                checks.append((res, 'extract', (k, o)))
                # oracle: the entries are the generated definitions, the cache holds the cumulative ones
                exp_b, exp_d = desc['epochs'][k + 1] if k + 1 < len(desc['epochs']) else (None, None)
                if isinstance(o.get('entries'), tuple) and not desc['quirks']:
                    got_b, got_d = o['extras']
                    if canon_entries(got_b, got_d) != canon_entries(exp_b, exp_d) or \
                            any(v[5:] != ['', 0, 0] for v in got_b.values()):
                        viol('message %d: extra entries after the definition message differ from the definitions encoded in it' % k,
                             'entries-oracle')
                elif not isinstance(o.get('entries'), tuple):
                    viol('message %d: processor failed on a well-formed definition message: %s' % (k, o.get('entries')), 'entries-oracle')
                continue
            # data message
            cnt('data-messages')
            cnt('data:compressed' if m['comp'] else 'data:uncompressed')
            nvals = sum(len(s['v']) for s in o['subs'])
            cnt('decoded-values', nvals)
            if nvals:
                res['nontrivial'] = True
            uses_bare = any(i in desc['bare'] for i in closure_ids(m['ids'], ed))
            if uses_bare:
                cnt('data:uses-replication-only-sequence')
            if m.get('plain'):
                cnt('data:unmentioned-descriptors-only')
                p = plain_decode(enc[k])
                if not same_obs(p, o['subs']):
                    viol('message %d over unmentioned descriptors %s decodes differently after the definitions' % (k, m['ids'][:20]),
                         'unmentioned', ids=m['ids'][:12])
                continue
            ek = json.dumps([eb, ed], sort_keys=True)
            if ek not in epoch_dirs:
                d = tempfile.mkdtemp(prefix='ep-', dir=scratch_root)
                write_scratch(d, desc, eb, ed)
                epoch_dirs[ek] = d
            sentinel = bool(desc['bare'])
            f = file_decode(epoch_dirs[ek], enc[k], sentinel)
            cnt('oracle:file-based-decodes' + ('(sentinel)' if sentinel else ''))
            if not same_obs(f, o['subs']):
                viol('message %d (ids %s): in-stream decode differs from the decode with the entries in the table files: %s'
                     % (k, m['ids'][:16], diff_obs(o['subs'], f)), 'oracle-files', shape=desc['shape'],
                     redefines=bool(set(int(x) for x in eb) & set(file_group(desc['version'], desc['local'])[0])))
        for d in epoch_dirs.values():
            shutil.rmtree(d, ignore_errors=True)
        # compiled-template decoder on the same stream
        if stage_compiled and obs and len(obs) == len(idx):
            cmax = desc.get('compiled_max', 16)
            obs_c = run_in_stream(stream, compiled=cmax)
            cnt('stream-with-compiled-templates:cache_max=%d' % cmax)
            a = [o['subs'] if isinstance(o, dict) else o for o in obs_c]
            b = [o['subs'] for o in obs]
            if not same_obs(a, b):
                bad = next((i for i, (x, y) in enumerate(zip(a, b)) if not same_obs(x, y)), min(len(a), len(b)))
                viol('decoder with compiled templates differs from the plain decoder at message %d of the stream' % bad,
                     'compiled', shape=desc['shape'])
    resp = drv.batch(reqs)
    for chk, r in zip(checks, resp):
        if chk is None:
            continue
        res, kind, payload = chk
        res['traces'] += 1
        if kind == 'decode':
            k, o = payload
            why = P.compare_decode(('ok', o['subs'], 0), r if o['subs'] else dict(r, rest=0))
            if why:
                res['viol'].append(('message %d (%s): model vs implementation: %s' % (k, res['desc']['msgs'][k]['kind'], why),
                                    {'stage': 'model-decode', 'kind': res['desc']['msgs'][k]['kind']}))
        elif kind == 'model-stream':
            idx, obs = payload
            outs = r['out']
            for j, (k, o) in enumerate(zip(idx, obs)):
                mk = res['desc']['msgs'][k]
                if j >= len(outs):
                    res['viol'].append(('message %d (%s): the model\'s run of the stream ended at message %d: %s' % (
                        k, mk['kind'], idx[len(outs) - 1] if outs else -1, outs[-1] if outs else 'no output'),
                        {'stage': 'model-stream', 'kind': 'short'}))
                    break
                why = P.compare_decode(('ok', o['subs'], 0), outs[j] if o['subs'] else dict(outs[j], rest=0))
                if why:
                    res['viol'].append((
                        'message %d (%s%s): stream run by the model (definitions before it in force) vs implementation: %s' % (
                            k, mk['kind'], ' ' + mk.get('mode', '') if mk['kind'] == 'def' else '', why),
                        {'stage': 'model-stream', 'kind': mk['kind']}))
                    break
        elif kind == 'tree':
            k, o = payload
            mt = r.get('tree', 'err:' + r.get('err', ''))
            if mt != o['tree'] and not (isinstance(o['tree'], str) and isinstance(mt, str) and core.is_lib(mt) == core.is_lib(o['tree'])):
                res['viol'].append(('message %d: template tree of template_from_ids differs from the model (fix-ncep)' % k,
                                    {'stage': 'model-tree'}))
        elif kind == 'src-tree':
            k, o, has_extra = payload
            # by-source resolution, before the repair: compare on templates the repair leaves alone
            mt = r.get('tree', 'err:' + r.get('err', ''))
            if not res['desc']['bare'] and mt != o['tree']:
                res['viol'].append(('message %d: by-source Table D resolution differs from the model (build-src)' % k,
                                    {'stage': 'model-src-tree'}))
        elif kind == 'extract':
            k, o = payload
            if 'err' in r:
                me = 'err:' + r['err']
            else:
                me = model_entries(r)
            ie = o.get('entries')
            ie = canon_entries(*ie) if isinstance(ie, tuple) else ie
            if me != ie and not (isinstance(me, str) and isinstance(ie, str) and core.is_lib(me) == core.is_lib(ie)):
                res['viol'].append(('message %d: entries extracted by the implementation differ from the model' % k,
                                    {'stage': 'model-extract'}))
            elif 'num' in r and isinstance(o.get('entries'), tuple) and 'err' not in r['num']:
                b, d = o['entries']
                nb = dict((e[0], e[1:]) for e in r['num']['b'])
                ib = dict((int(k_), [tables_io.unit_kind(v[1]), v[2], v[3], v[4]]) for k_, v in b.items())
                nd = dict((e[0], e[1]) for e in r['num']['d'])
                idd = dict((int(k_), [int(x) for x in v[1]]) for k_, v in d.items())
                if nb != ib or nd != idd:
                    res['viol'].append(('message %d: numeric form of the entries differs from the model' % k, {'stage': 'model-entries'}))
    return results


def closure_ids(ids, ed):
    seen = set()
    todo = list(ids)
    while todo:
        i = todo.pop()
        if i in seen:
            continue
        seen.add(i)
        e = ed.get('%06d' % i)
        if e:
            todo.extend(int(x) for x in e[1])
    return seen


def diff_obs(a, b):
    if isinstance(b, str) or isinstance(a, str):
        return 'in-stream %s, files %s' % (a if isinstance(a, str) else 'ok', b if isinstance(b, str) else 'ok')
    if len(a) != len(b):
        return 'number of subsets'
    for i, (x, y) in enumerate(zip(a, b)):
        if x['d'] != y['d']:
            k = next((k for k, (p, q) in enumerate(zip(x['d'], y['d'])) if p != q), min(len(x['d']), len(y['d'])))
            return 'labels differ in subset %d at %d (%s vs %s)' % (i, k, x['d'][k:k + 1], y['d'][k:k + 1])
        if repr(x['v']) != repr(y['v']):
            k = next((k for k, (p, q) in enumerate(zip(x['v'], y['v'])) if repr(p) != repr(q)), 0)
            return 'value %d (%s) of subset %d: in-stream %r, files %r' % (k, x['d'][k], i, x['v'][k], y['v'][k])
        if x['l'] != y['l']:
            return 'links differ in subset %d' % i
    return 'no difference'


# ---------------------------------------------------------------------------------------------
# layout variants of the definition message: extraction only (model vs implementation)
def variant_cases(rng, count):
    out = []
    for i in range(count):
        g = StreamGen(rng, 13, False)
        m = g.def_message()
        r = rng.random()
        na, nb, nd = len(m['a']), len(m['b']), len(m['d'])
        ida = [103000, 31001] if rng.random() < 0.7 else [103000 + na]
        idb = [101000, 31001] if rng.random() < 0.7 else [101000 + nb]
        idd = [105000, 31001] if rng.random() < 0.7 else [105000 + nd]
        ids = ida + [1, 2, 3] + idb + [300004] + idd + [300003, 205064, 101000, 31001, 30]
        vals = []
        if len(ida) == 2:
            vals.append(na)
        for e in m['a']:
            vals.extend(e)
        if len(idb) == 2:
            vals.append(nb)
        for e in m['b']:
            vals.extend(e)
        if len(idd) == 2:
            vals.append(nd)
        for e in m['d']:
            vals.extend(e[:4])
            vals.append(len(e[4]))
            vals.extend(e[4])
        kind = 'layout'
        if r < 0.25:
            # damage a numeric field string
            kind = 'damaged-field'
            e = rng.choice(m['b'])
            j = rng.choice([6, 7, 8, 9, 10])
            e[j] = rng.choice(['', ' ', '-', '+', '1_0', '_1', '1__0', ' 7 ', '+5', '-3', 'x', '1 2', '0x1', '\t4', '4\x1f', '١'])[:len(e[j])].ljust(len(e[j]))
            return_vals = def_values(m) if ids == DEF_IDS else None
            if return_vals is not None:
                vals = return_vals
        elif r < 0.4:
            kind = 'other-template'
            ids = rng.choice([ids[:-1], ids + [1001], [1001, 1002, 1003], ids[:8], ids[:5] + [101000, 31001, 300003] + ids[8:]])
        out.append({'ids': ids, 'vals': vals, 'kind': kind, 'index': i})
    return out


def eval_variants(cases, drv):
    from pybufrkit.decoder import Decoder
    from pybufrkit.dataprocessor import BufrTableDefinitionProcessor
    out = []
    reqs = [tables_io.group_request(('0', '0_0', '13'))]
    live = []
    for c in cases:
        reset_cache()
        js = C.make_message_json(c['ids'], [c['vals']], False, edition=3,
                                 overrides={'data_category': 11, 'master_table_version': 13})
        st, b, _ = C.impl_encode(js)
        if st != 'ok':
            out.append((c, 'refused', None))
            continue
        try:
            msg = Decoder().process(b)
            vals = list(msg.template_data.value.decoded_values_all_subsets[0])
        except Exception as e:  # noqa
            out.append((c, 'refused', None))
            continue
        try:
            _, eb, ed = BufrTableDefinitionProcessor().process(msg)
            ie = canon_entries(eb, ed)
        except Exception as e:  # noqa
            ie = core.err_tag(e)
        try:
            ascii_only = all(max(v) < 128 for v in vals if isinstance(v, bytes) and v)
        except Exception:  # noqa
            ascii_only = True
        if not ascii_only:
            out.append((c, 'non-ascii', None))
            continue
        reqs.append({'op': 'tabledef-extract', 'ids': c['ids'], 'vals': [C.from_py_exact(v) for v in vals]})
        live.append((c, ie))
    resp = drv.batch(reqs)[1:]
    for (c, ie), r in zip(live, resp):
        me = 'err:' + r['err'] if 'err' in r else model_entries(r)
        same = me == ie or (isinstance(me, str) and isinstance(ie, str) and core.is_lib(me) == core.is_lib(ie))
        out.append((c, 'ok' if isinstance(ie, tuple) else ie, None if same else
                    'layout variant %s (ids %s): implementation %s, model %s' % (
                        c['kind'], c['ids'], ie if isinstance(ie, str) else 'entries', me if isinstance(me, str) else 'entries')))
    return out


# ---------------------------------------------------------------------------------------------
def prepbufr_check(drv, limit=None):
    """all messages of tests/data/prepbufr.bufr: model vs implementation (decode, extraction)"""
    from pybufrkit.decoder import Decoder
    from pybufrkit.dataprocessor import BufrTableDefinitionProcessor
    from pybufrkit.tables import TableGroupCacheManager
    path = os.path.join(core.REPO, 'tests', 'data', 'prepbufr.bufr')
    with open(path, 'rb') as f:
        s = f.read()
    reset_cache()
    dec = Decoder()
    pos, k = 0, 0
    reqs, checks = [], []
    viol = []
    while True:
        pos = s.find(b'BUFR', pos)
        if pos < 0 or (limit and k >= limit):
            break
        eb, ed = cache_extras()
        try:
            msg = dec.process(s[pos:], start_signature=None, wire_template_data=False)
        except Exception as e:  # noqa
            viol.append('prepbufr message %d: implementation failed to decode: %s' % (k, core.err_tag(e)))
            break
        b = msg.serialized_bytes
        key = msg.table_group_key
        tb, td = tables_io.read_group(key.wmo_tables_sn, key.local_tables_sn, key.tables_root_dir, extra_b=eb, extra_d=ed)
        reqs.append(tables_io.tables_request(tb, td))
        checks.append(None)
        nsub, comp, ids = P.parse_section3(b)
        subs = obs_message(msg)
        reqs.append({'op': 'dec-data', 'ids': ids, 'compressed': comp, 'n': nsub, 'bits': C.data_bits(b), 'fix_ncep': bool(eb or ed)})
        checks.append(('decode', k, subs))
        if msg.data_category.value == 11 and nsub > 0:
            try:
                _, be, de = BufrTableDefinitionProcessor().process(msg)
            except Exception as e:  # noqa
                viol.append('prepbufr message %d: processor failed: %s' % (k, core.err_tag(e)))
                break
            reqs.append({'op': 'tabledef-extract', 'ids': ids, 'vals': [C.from_py_exact(v) for v in subs[0]['v']]})
            checks.append(('extract', k, canon_entries(be, de)))
            TableGroupCacheManager.invalidate()
            TableGroupCacheManager.add_extra_entries(be, de)
        pos += len(b)
        k += 1
    for chk, r in zip(checks, drv.batch(reqs)):
        if chk is None:
            continue
        if chk[0] == 'decode':
            why = P.compare_decode(('ok', chk[2], 0), r if chk[2] else dict(r, rest=0))
            if why:
                viol.append('prepbufr message %d: %s' % (chk[1], why))
        else:
            me = 'err:' + r['err'] if 'err' in r else model_entries(r)
            if me != chk[2]:
                viol.append('prepbufr message %d: extracted entries differ from the model' % chk[1])
    return k, viol


# ---------------------------------------------------------------------------------------------
def work_chunk(args):
    seed, lo, hi, stage_compiled = args
    drv = core.Driver()
    root = tempfile.mkdtemp(prefix='c20-verif-%d-' % os.getpid(), dir='/tmp')
    try:
        descs = [gen_stream(core.rng_for(PROP, seed, 'stream:%d' % i), i) for i in range(lo, hi)]
        res = eval_streams(descs, drv, root, stage_compiled)
    finally:
        shutil.rmtree(root, ignore_errors=True)
        reset_cache()
    out = []
    for r in res:
        d = r['desc']
        summary = {'index': d['index'], 'shape': d['shape'], 'version': d['version'], 'local': d['local'],
                   'messages': [(m['kind'], len(m.get('b', [])), len(m.get('d', [])), m.get('ids')) for m in d['msgs']]}
        out.append({'summary': summary, 'viol': r['viol'], 'counts': r['counts'], 'traces': r['traces'],
                    'nontrivial': r['nontrivial'], 'desc': d if r['viol'] else None})
    return out


def strip_desc(d):
    d = copy.deepcopy(d)
    return d


def run(ctx):
    drv = ctx.driver
    ctx.rule = 'stream: at least one data message over in-stream definitions decoded to a non-empty value list'
    # (a) prepbufr
    n, viol = prepbufr_check(drv)
    ctx.count('prepbufr-messages', n)
    ctx.traces += n
    ctx.case({'file': 'prepbufr.bufr', 'messages': n}, nontrivial=True, sample=True)
    for v in viol:
        ctx.violation(v, {'file': 'prepbufr.bufr', 'why': v}, signature={'stage': 'prepbufr'})
    # (b) layout variants of the definition message
    nvar = 60 if ctx.tier == 'quick' else 1500
    for c, status, why in eval_variants(variant_cases(ctx.rng('variants'), nvar), drv):
        ctx.count('variant:%s:%s' % (c['kind'], status))
        if status in ('refused', 'non-ascii'):
            continue
        ctx.traces += 1
        ctx.case({'variant': c['ids'], 'n': len(c['vals']), 'i': c['index']}, nontrivial=status == 'ok')
        if why:
            ctx.violation(why, {'variant': c}, signature={'stage': 'variant', 'kind': c['kind']})
    # (c) streams
    count = 240 if ctx.tier == 'quick' else 3000
    step = 5 if ctx.tier == 'quick' else 50
    tasks = [(ctx.seed, lo, min(count, lo + step), True) for lo in range(0, count, step)]
    with multiprocessing.Pool(min(16, os.cpu_count() or 1)) as pool:
        chunks = pool.map(work_chunk, tasks, chunksize=1)
    for chunk in chunks:
        for r in chunk:
            ctx.case(r['summary'], nontrivial=r['nontrivial'], sample=len(ctx.samples) < 4)
            ctx.traces += r['traces']
            ctx.count('streams')
            for k, v in r['counts'].items():
                ctx.count(k, v)
            for what, sig in r['viol']:
                ctx.violation('stream %d: %s' % (r['summary']['index'], what), {'stream': r['desc'], 'why': what}, signature=sig)
    reset_cache()
    # in-stream definitions under filters (F25): a rejected definition message still governs what follows
    DS.run(ctx, ctx.rng('defstreams'), 4 if ctx.tier == 'quick' else 40)
    reset_cache()


def replay(ctx, path):
    with open(path) as f:
        body = json.load(f)
    rep = body['replay']
    if rep.get('defstream'):
        DS.replay(ctx, rep)
        return
    drv = ctx.driver
    if 'file' in rep:
        n, viol = prepbufr_check(drv)
        print('replay prepbufr:', viol or 'agrees')
        for v in viol:
            ctx.violation(v, rep, signature={'stage': 'prepbufr'})
        return
    if 'variant' in rep:
        for c, status, why in eval_variants([rep['variant']], drv):
            print('replay variant:', why or 'agrees (%s)' % status)
            if why:
                ctx.violation(why, rep, signature={'stage': 'variant', 'kind': c['kind']})
        return
    desc = rep['stream']
    desc['epochs'] = [tuple(e) for e in desc['epochs']]
    root = tempfile.mkdtemp(prefix='c20-verif-replay-', dir='/tmp')
    try:
        res = eval_streams([desc], drv, root)[0]
    finally:
        shutil.rmtree(root, ignore_errors=True)
        reset_cache()
    if not res['viol']:
        print('replay: no disagreement')
    for what, sig in res['viol']:
        print('replay:', what)
        ctx.violation('stream %d: %s' % (desc['index'], what), {'stream': desc, 'why': what}, signature=sig)
