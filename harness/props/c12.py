"""
C12 — damage is detected, reported as a library error, and isolated to one message.

Theorems: lean/BufrModel/Props/C12Stream.lean (streams, message-level prefix/suffix) and Props/C12.lean
(data-level frame lemma, another file of the same property).
Tie / fault enumeration:
 (A) every truncation point of generated messages of at most 300 bytes (and of small corpus files), full and
     metadata-only: implementation error family vs the model's; oracle: no proper prefix decodes
     successfully (full mode); trailing bytes (noise, `BUFR`, `7777`, another message) never change
     `serialized_bytes` nor the decoded values.
 (B) streams of 2..5 messages x EVERY subset of damaged messages x damage kinds {stop signature
     overwritten, undefined element / undefined sequence substituted in section 3 at a position every
     decode reaches (the start of a top-level item), section length -1, section length +1..+3 (each on a
     random present section 1..4)} x {full, metadata-only} x {continue-on-error, stop}; total length always
     intact.  Implementation vs model (`scan`), and the oracle on the implementation:
       * no non-library exception leaves the generator;
       * continue-on-error: every UNDAMAGED message is delivered unchanged, in order, and the scan ends
         normally; a message damaged in its stop signature or descriptor list is not delivered when data
         sections are decoded;
       * without it: the messages before the first undelivered damaged one are delivered, nothing after
         it, and the failure is a PyBufrKitError.
     BUFR has no checksum: a length fault may leave a message that still parses, and metadata-only
     scanning looks at neither the descriptors' meaning nor the stop signature; such "damaged but still
     parsed" deliveries are counted in the evidence, not reported.
 (C) command line: `decode`, `decode -m [--continue-on-error]`, `info` on damaged files: no traceback, a
     message on stderr (the exit status is 0 by design of `__init__.main`).
"""
import contextlib
import io
import itertools
import json
import os
import shutil
import subprocess
import sys
import tempfile

from harness import core, tables_io
from harness import coder_io as C
from harness import coderprops as P
from harness import streams as S

PROP = 'C12'

META = dict(
    claimed=True,
    text='Kernel-checked theorems about the Lean models of generate_bufr_message and Decoder.process: for ALL streams, with '
         'continue-on-error a message whose decoding fails with a library error is skipped (by its declared length when the '
         'metadata-only decoding survives, else by one byte) and every other message is delivered at its offset unchanged and in '
         'order; without it the preceding messages are delivered and the error surfaces; a non-library error aborts the scan '
         'regardless of the flag (why F9 mattered); at message level bytes that follow never influence the decoding and no proper '
         'prefix of a fully consumed message decodes (from the C04 frame theorems and the data-level frame lemma of Props/C12.lean); '
         'an expected-value mismatch (7777) is the library error. Plus fault enumeration against the implementation: every '
         'truncation point, every subset of damaged messages x 5 damage kinds x modes, and the command line.',
    technique='Lean 4 theorems (induction over the stream, frame lemma) + checked model/implementation correspondence under fault enumeration',
    note='Which length faults are *detected* is not a theorem (BUFR has no checksum): the check counts damaged-but-still-parsed '
         'deliveries. In the one-byte skip branch the scan searches the signature again inside the damaged message; the theorem '
         'requires its remainder to be signature-free and the check counts the streams where it is not.',
)

TOLERANT = ('len-1', 'len+')


# ---------------------------------------------------------------------------------------------
# damage
def damage_variants(rng, m):
    """-> list of (kind, detail, damaged bytes) for message m (total length intact)"""
    b = m.b
    secs = C.locate_sections(b)
    out = []
    stop = rng.choice([b'7776', b'\0\0\0\0', b'BUFR', b'777\n', bytes(rng.randrange(256) for _ in range(4))])
    if stop != b'7777':
        out.append(('stop', stop.hex(), b[:-4] + stop))
    pos3, n3 = secs[3]
    nd = (n3 - 7) // 2
    starts = [0]
    if m.parts:
        acc = 0
        starts = []
        for p in m.parts:
            starts.append(acc)
            acc += len(p)
        starts = [k for k in starts if k < nd]
    for kind, ident in (('undef-elem', S.UNDEF_ELEM), ('undef-seq', S.UNDEF_SEQ)):
        k = rng.choice(starts)
        w = ((ident // 100000) << 14) | ((ident // 1000 % 100) << 8) | (ident % 1000)
        o = pos3 + 7 + 2 * k
        out.append((kind, k, b[:o] + w.to_bytes(2, 'big') + b[o + 2:]))
    present = [i for i in (1, 2, 3, 4) if i in secs]
    i = rng.choice(present)
    pos, n = secs[i]
    out.append(('len-1', i, b[:pos] + (n - 1).to_bytes(3, 'big') + b[pos + 3:]))
    i = rng.choice(present)
    pos, n = secs[i]
    d = rng.randint(1, 3)
    out.append(('len+', [i, d], b[:pos] + (n + d).to_bytes(3, 'big') + b[pos + 3:]))
    return out


def locate_items(s, items):
    """offsets of the yielded pieces in the stream (sequential search)"""
    offs = []
    pos = 0
    for it in items:
        if not it:
            offs.append(None)
            continue
        k = s.find(it, pos)
        offs.append(k if k >= 0 else None)
        if k >= 0:
            pos = k + len(it)
    return offs


class SCase(object):
    __slots__ = ('s', 'offs', 'orig', 'cur', 'dmg', 'info_only', 'cont', 'idx')


def oracle(c, items, out):
    """-> (violation description or None, counters)"""
    counters = []
    if out == 'err:other':
        return 'a non-library exception left the generator (after %d items)' % len(items), counters
    if out == 'limit':
        return 'the generator yields more items than the stream has messages', counters
    ioffs = locate_items(c.s, items)
    by_off = {o: i for i, o in enumerate(c.offs)}
    delivered = {}
    for it, o in zip(items, ioffs):
        if o is None or o not in by_off:
            counters.append('item-not-at-a-message-start')
            return 'an item was yielded that does not start at a message of the stream (offset %s, %d bytes)' % (o, len(it)), counters
        i = by_off[o]
        delivered[i] = it
        if c.dmg[i] is None:
            if it != c.cur[i]:
                return 'undamaged message %d delivered with different bytes (%d instead of %d)' % (i, len(it), len(c.cur[i])), counters
        else:
            kind = c.dmg[i][0]
            if kind.startswith(TOLERANT) or c.info_only:
                counters.append('damaged-still-parsed:%s:%s' % (kind, 'info' if c.info_only else 'full'))
            else:
                return 'message %d damaged by %s was delivered by a full decode' % (i, kind), counters
    n = len(c.cur)
    if c.cont:
        if out != 'done':
            return 'continue-on-error scan ended with %s' % out, counters
        missing = [i for i in range(n) if c.dmg[i] is None and i not in delivered]
        if missing:
            return 'undamaged message(s) %s not delivered with continue-on-error' % missing, counters
        return None, counters
    # stop at the first error
    first = next((i for i in range(n) if i not in delivered), None)
    if first is None:
        if out != 'done':
            return 'all messages delivered but the scan ended with %s' % out, counters
        return None, counters
    if c.dmg[first] is None:
        return 'undamaged message %d not delivered (scan without continue-on-error, outcome %s)' % (first, out), counters
    later = [i for i in delivered if i > first]
    if later:
        return 'messages %s delivered after the failing message %d without continue-on-error' % (later, first), counters
    if not core.is_lib(out):
        return 'damaged message %d not delivered but the scan ended with %s instead of a PyBufrKitError' % (first, out), counters
    return None, counters


def fault_class(kind):
    return 'length' if kind.startswith(TOLERANT) else ('stop' if kind == 'stop' else 'descriptor')


def single(c, i):
    """the stream reduced to message i alone (same separators around it, same flags)"""
    c2 = SCase()
    end = c.offs[i] + len(c.cur[i])
    nxt = c.offs[i + 1] if i + 1 < len(c.offs) else len(c.s)
    prev_end = c.offs[i - 1] + len(c.cur[i - 1]) if i else 0
    c2.s = c.s[prev_end:nxt]
    c2.offs = [c.offs[i] - prev_end]
    c2.cur = [c.cur[i]]
    c2.dmg = [c.dmg[i]]
    c2.orig = [c.orig[i]] if c.orig else None
    c2.info_only, c2.cont, c2.idx = c.info_only, c.cont, c.idx
    return c2


def shrink_and_sign(c, why):
    """-> (case, why, signature): a single damaged message that fails in the same way when there is one"""
    what = why.split(' (')[0][:60]
    for i, d in enumerate(c.dmg):
        if d is None:
            continue
        c2 = single(c, i)
        items, out = S.impl_scan(c2.s, info_only=c2.info_only, continue_on_error=c2.cont, limit=5)
        w2, _ = oracle(c2, items, out)
        if w2 and w2.split(' (')[0][:60] == what:
            c, why = c2, w2
            break
    return c, why, signature(c, why)


def signature(c, why):
    kinds = sorted(set(d[0] for d in c.dmg if d))
    sig = {'stage': 'oracle', 'what': why.split(' (')[0][:60], 'kinds': kinds,
           'fault_classes': sorted(set(fault_class(k) for k in kinds)),
           'info_only': c.info_only, 'continue': c.cont,
           'inner_signature_in_damaged': any(d is not None and S.SIG in b[1:] for d, b in zip(c.dmg, c.cur))}
    if why.startswith('a non-library exception'):
        items, out = S.impl_scan(c.s, info_only=c.info_only, continue_on_error=c.cont, limit=len(c.cur) + 4)
        if out == 'err:other':
            sig.update(S.LAST_EXC)
    return sig


def build_scase(rng, sel, variants, subset, idx):
    c = SCase()
    c.idx = idx
    c.orig = sel
    c.dmg = []
    c.cur = []
    for i, m in enumerate(sel):
        if i in subset:
            kind, detail, b = rng.choice(variants[id(m)])
            c.dmg.append((kind, detail))
            c.cur.append(b)
        else:
            c.dmg.append(None)
            c.cur.append(m.b)
    s = S.separator(rng)[1]
    c.offs = []
    for b in c.cur:
        c.offs.append(len(s))
        s += b + S.separator(rng)[1]
    c.s = s
    return c


def replay_obj(c, why):
    return {'stream_hex': c.s.hex(), 'pieces': [[o, len(b)] for o, b in zip(c.offs, c.cur)],
            'damage': [list(d) if d else None for d in c.dmg], 'info_only': c.info_only,
            'continue_on_error': c.cont, 'case_index': c.idx, 'why': why}



def run_streams(ctx, drv, treq, rng, nstreams):
    pool = S.gen_messages(drv, rng, 60, needle_p=0.25)
    pool = [m for m in pool if len(m.b) <= 400] or pool
    variants = {id(m): damage_variants(rng, m) for m in pool}
    cases = []
    for si in range(nstreams):
        k = rng.randint(2, 5)
        sel = [rng.choice(pool) for _ in range(k)]
        for r in range(k + 1):
            for subset in itertools.combinations(range(k), r):
                for io_ in (False, True):
                    for cont in (True, False):
                        c = build_scase(rng, sel, variants, set(subset), len(cases))
                        c.info_only, c.cont = io_, cont
                        cases.append(c)
    chunk = 400
    for k0 in range(0, len(cases), chunk):
        part = cases[k0:k0 + chunk]
        res = drv.batch([treq] + [S.scan_req(c.s, c.info_only, c.cont) for c in part])[1:]
        for c, r in zip(part, res):
            items, out = S.impl_scan(c.s, info_only=c.info_only, continue_on_error=c.cont, limit=len(c.cur) + 4)
            nd = sum(1 for d in c.dmg if d)
            ctx.case({'stream': c.s.hex()[:48], 'damage': [d[0] if d else None for d in c.dmg], 'info_only': c.info_only,
                      'continue': c.cont}, nontrivial=nd >= 1 and nd < len(c.dmg), sample=len(ctx.samples) < 4 and nd >= 1)
            ctx.traces += 1
            ctx.count('streams:%s:%s' % ('info' if c.info_only else 'full', 'continue' if c.cont else 'stop'))
            ctx.count('damaged-%d-of-%d' % (nd, len(c.dmg)))
            for d in c.dmg:
                if d:
                    ctx.count('damage:' + d[0])
            ctx.count('outcome:' + out)
            why, counters = oracle(c, items, out)
            for k in counters:
                ctx.count(k)
            if why:
                if ctx.violations + len(ctx.known_hits) > 60:
                    ctx.count('further-failing-streams')
                    continue
                c2, w2, sig = shrink_and_sign(c, why)
                ctx.violation('oracle: ' + w2 + (' [%s in %s]' % (sig['exc'], sig['where']) if 'exc' in sig else ''),
                              replay_obj(c2, w2), signature=sig)
                continue
            mi = S.model_items(c.s, r)
            if r['outcome'] != out or mi != items:
                w = 'model scan gives %s %s, implementation %s %s' % (r['outcome'], [(o, n) for o, n, _ in r['items']][:8], out,
                                                                      [len(x) for x in items[:8]])
                ctx.violation('correspondence: ' + w, replay_obj(c, w),
                              signature={'stage': 'correspondence', 'kinds': sorted(set(d[0] for d in c.dmg if d)),
                                         'info_only': c.info_only, 'continue': c.cont, 'impl': out, 'model': r['outcome']})


# ---------------------------------------------------------------------------------------------
# (A) truncation and trailing bytes
def decode_family(dec, b, info_only):
    try:
        m = dec.process(b, info_only=info_only, wire_template_data=False)
        return 'ok', m
    except Exception as e:  # noqa
        return core.err_tag(e), None


def values_of(m):
    td = m.template_data.value
    return repr((td.decoded_values_all_subsets, [[str(d) for d in ds] for ds in td.decoded_descriptors_all_subsets]))


def truncation_message(treq, b, label, seed, points=None):
    """runs in a worker process -> {'fams':…, 'violations': [(what, replay, signature)], 'traces': n, 'trailing': n}"""
    import random
    from pybufrkit.decoder import Decoder
    rng = random.Random(seed)
    drv = core.Driver()
    dec = Decoder()
    viol = []
    ks = list(range(len(b))) if points is None else points
    reqs = [treq]
    for k in ks:
        reqs.append(S.scan_req(b[:k], info_only=False))
        reqs.append(S.scan_req(b[:k], info_only=True))
    res = drv.batch(reqs)[1:]
    fams = {}
    for j, k in enumerate(ks):
        for io_, r in ((False, res[2 * j]), (True, res[2 * j + 1])):
            fam, m = decode_family(dec, b[:k], io_)
            fams[fam] = fams.get(fam, 0) + 1
            if k < 4:
                model = 'err:lib' if r['outcome'] == 'done' and not r['items'] else 'unexpected:' + r['outcome']
            else:
                model = 'ok' if (r['outcome'] == 'done' and len(r['items']) == 1) else r['outcome']
            if not io_ and fam == 'ok':
                viol.append(('oracle: the first %d of %d bytes of a valid message decode successfully' % (k, len(b)),
                             {'message_hex': b.hex(), 'cut': k, 'info_only': False, 'label': label},
                             {'stage': 'truncation', 'what': 'prefix decodes'}))
            elif fam == 'err:other':
                viol.append(('oracle: decoding the first %d of %d bytes raises a non-library exception' % (k, len(b)),
                             {'message_hex': b.hex(), 'cut': k, 'info_only': io_, 'label': label},
                             {'stage': 'truncation', 'what': 'non-library', 'info_only': io_}))
            elif fam != model and not (core.is_lib(fam) and k < 4 and model == 'err:lib'):
                viol.append(('correspondence: first %d of %d bytes (info_only=%s): implementation %s, model %s' % (k, len(b), io_, fam, model),
                             {'message_hex': b.hex(), 'cut': k, 'info_only': io_, 'label': label},
                             {'stage': 'truncation', 'what': 'model differs', 'info_only': io_}))
    # trailing bytes
    fam, m0 = decode_family(dec, b, False)
    if fam != 'ok':
        return {'machinery': 'valid message does not decode: %s' % label}
    v0 = values_of(m0)
    ntrail = 0
    for t in (b'\0', b'7777', b'BUFR', b'BUF', S.noise(rng, 9), b, b[:len(b) // 2], b'\xff' * 5):
        fam, m1 = decode_family(dec, b + t, False)
        ntrail += 1
        if fam != 'ok' or m1.serialized_bytes != b or values_of(m1) != v0:
            viol.append(('oracle: %d trailing bytes change the decoding of a message (%s)' % (len(t), fam),
                         {'message_hex': b.hex(), 'trailing_hex': t.hex(), 'label': label},
                         {'stage': 'trailing', 'what': fam}))
        fam, m2 = decode_family(dec, b + t, True)
        if fam != 'ok' or m2.serialized_bytes != b[:-4]:
            viol.append(('oracle: %d trailing bytes change the metadata-only decoding (%s)' % (len(t), fam),
                         {'message_hex': b.hex(), 'trailing_hex': t.hex(), 'label': label, 'info_only': True},
                         {'stage': 'trailing-info', 'what': fam}))
    return {'fams': fams, 'violations': viol[:5], 'traces': 2 * len(ks), 'trailing': ntrail}


def _trunc_star(a):
    return truncation_message(*a)


def run_truncation(ctx, drv, treq, rng, nmsgs, ncorpus):
    import multiprocessing
    pool = []
    tries = 0
    while len(pool) < nmsgs and tries < 12:
        tries += 1
        pool += [m for m in S.gen_messages(drv, rng, 60, needle_p=0.3) if len(m.b) <= 300]
    pool = pool[:nmsgs]
    jobs = []
    for m in pool:
        ctx.case({'truncate': m.b.hex()[:48], 'len': len(m.b), 'edition': m.edition, 'compressed': m.comp}, nontrivial=True,
                 sample=len(ctx.samples) < 5)
        ctx.count('truncated-messages')
        ctx.count('truncation-points', len(m.b))
        jobs.append((treq, m.b, 'generated', rng.randrange(1 << 30), None))
    # corpus
    from pybufrkit.decoder import Decoder
    files = [f for f in P.corpus_files('thorough', rng) if os.path.getsize(f) <= 6000 and 'multi_invalid' not in f]
    rng.shuffle(files)
    used = 0
    for path in files:
        if used >= ncorpus:
            break
        raw = open(path, 'rb').read()
        try:
            msg = Decoder().process(raw, wire_template_data=False)
        except Exception:  # noqa
            continue
        b = msg.serialized_bytes
        key = msg.table_group_key
        treq2 = tables_io.tables_request(*tables_io.read_group(key.wmo_tables_sn, key.local_tables_sn, key.tables_root_dir))
        points = list(range(len(b))) if len(b) <= 700 else sorted(set(rng.sample(range(len(b)), 500) + list(range(len(b) - 12, len(b))) + list(range(64))))
        used += 1
        ctx.case({'truncate-corpus': os.path.basename(path), 'len': len(b)}, nontrivial=True)
        ctx.count('truncated-corpus-files')
        ctx.count('truncation-points', len(points))
        jobs.append((treq2, b, os.path.basename(path), rng.randrange(1 << 30), points))
    with multiprocessing.Pool(min(16, os.cpu_count() or 4)) as mp:
        results = mp.map(_trunc_star, jobs, chunksize=1)
    for r in results:
        if 'machinery' in r:
            raise core.MachineryError(r['machinery'])
        ctx.traces += r['traces']
        ctx.count('trailing-bytes', r['trailing'])
        for f, n in r['fams'].items():
            ctx.count('truncation:' + f, n)
        for what, rep, sig in r['violations']:
            ctx.violation(what, rep, signature=sig)


# ---------------------------------------------------------------------------------------------
# (C) command line
def run_cli(ctx, drv, treq, rng):
    pool = [m for m in S.gen_messages(drv, rng, 20, needle_p=0.0) if len(m.b) <= 400]
    tmp = tempfile.mkdtemp(prefix='verif_c12_', dir='/tmp')
    env = dict(os.environ, PYTHONPATH=core.REPO)
    try:
        m = pool[0]
        v = dict((k, b) for k, _, b in damage_variants(rng, m))
        good = pool[1].b
        runs = [
            ('decode', ['decode'], v['stop'], 0),
            ('decode-undef', ['decode'], v['undef-elem'], 0),
            ('decode-truncated', ['decode'], m.b[:len(m.b) - 9], 0),
            ('decode-m-stop', ['decode', '-m'], good + v['stop'] + good, None),
            ('decode-m-continue', ['decode', '-m', '--continue-on-error'], good + v['undef-seq'] + b'\r\r\n' + good, 2),
            ('info-no-signature', ['info'], b'no message here', 0),
            ('info-m-continue', ['info', '-m', '--continue-on-error'], good + v['stop'][:30] , None),
        ]
        for name, args, data, nmsg in runs:
            ctx.case({'cli': name, 'args': args}, nontrivial=True)
            ctx.count('cli-runs')
            cli_one(ctx, tmp, env, name, args, data, nmsg)
    finally:
        shutil.rmtree(tmp, ignore_errors=True)


def cli_one(ctx, tmp, env, name, args, data, nmsg):
    path = os.path.join(tmp, name + '.bufr')
    with open(path, 'wb') as f:
        f.write(data)
    p = subprocess.run([sys.executable, '-m', 'pybufrkit'] + args + [path], stdout=subprocess.PIPE,
                       stderr=subprocess.PIPE, env=env, cwd=tmp, timeout=120)
    err = p.stderr.decode(errors='replace')
    outp = p.stdout.decode(errors='replace')
    bad = None
    if 'Traceback' in err or 'Traceback' in outp:
        bad = 'a traceback is printed'
    elif not err.strip():
        bad = 'nothing is reported on stderr'
    elif p.returncode not in (0, 1, 2):
        bad = 'exit status %d' % p.returncode
    elif nmsg is not None and outp.count('<<<<<< section 0 >>>>>>') != nmsg:
        bad = '%d messages printed, %d expected' % (outp.count('<<<<<< section 0 >>>>>>'), nmsg)
    if bad:
        ctx.violation('oracle: command line `pybufrkit %s` on a damaged file: %s (stderr %r)' % (' '.join(args), bad, err[-300:]),
                      {'cli': args, 'file_hex': data.hex(), 'name': name, 'expected_messages': nmsg},
                      signature={'stage': 'cli', 'run': name})
    return bad


def run(ctx):
    drv = ctx.driver
    ctx.rule = 'stream with at least one damaged and one undamaged message; every truncated message; every CLI run'
    treq = tables_io.group_request()
    quick = ctx.tier == 'quick'
    import time
    t0 = time.time()
    run_streams(ctx, drv, treq, ctx.rng('streams'), 16 if quick else 160)
    t1 = time.time()
    run_truncation(ctx, drv, treq, ctx.rng('trunc'), 40 if quick else 400, 4 if quick else 30)
    t2 = time.time()
    run_cli(ctx, drv, treq, ctx.rng('cli'))
    ctx.notes.append('wall: streams %.1fs, truncation %.1fs, cli %.1fs' % (t1 - t0, t2 - t1, time.time() - t2))


def replay(ctx, path):
    with open(path) as f:
        body = json.load(f)
    rep = body['replay']
    drv = ctx.driver
    treq = tables_io.group_request()
    if 'undischarged' in rep:
        print('replay: proof obligation; re-run ./check C12')
        return
    if 'cli' in rep:
        tmp = tempfile.mkdtemp(prefix='verif_c12_', dir='/tmp')
        try:
            bad = cli_one(ctx, tmp, dict(os.environ, PYTHONPATH=core.REPO), rep.get('name', 'replay'), rep['cli'],
                          bytes.fromhex(rep['file_hex']), rep.get('expected_messages'))
        finally:
            shutil.rmtree(tmp, ignore_errors=True)
        print('replay: pybufrkit %s -> %s' % (' '.join(rep['cli']), bad or 'library error reported without a traceback'))
        return
    if 'message_hex' in rep:
        from pybufrkit.decoder import Decoder
        b = bytes.fromhex(rep['message_hex'])
        if 'cut' in rep:
            fam, _ = decode_family(Decoder(), b[:rep['cut']], rep.get('info_only', False))
            r = drv.batch([treq, S.scan_req(b[:rep['cut']], info_only=rep.get('info_only', False))])[1]
            print('replay: first %d of %d bytes: implementation %s, model %s' % (rep['cut'], len(b), fam, r))
            if fam in ('ok', 'err:other') and not rep.get('info_only'):
                ctx.violation('oracle: truncated message: %s' % fam, rep, signature={'stage': 'truncation'})
        else:
            t = bytes.fromhex(rep['trailing_hex'])
            fam, m = decode_family(Decoder(), b + t, rep.get('info_only', False))
            print('replay: with trailing bytes:', fam, m and len(m.serialized_bytes), 'of', len(b))
        return
    c = SCase()
    c.s = bytes.fromhex(rep['stream_hex'])
    c.offs = [o for o, _ in rep['pieces']]
    c.cur = [c.s[o:o + n] for o, n in rep['pieces']]
    c.dmg = [tuple(d) if d else None for d in rep['damage']]
    c.info_only, c.cont, c.idx = rep['info_only'], rep['continue_on_error'], rep.get('case_index', 0)
    items, out = S.impl_scan(c.s, info_only=c.info_only, continue_on_error=c.cont, limit=len(c.cur) + 4)
    r = drv.batch([treq, S.scan_req(c.s, c.info_only, c.cont)])[1]
    why, counters = oracle(c, items, out)
    print('replay: damage', c.dmg)
    print('        implementation', out, [len(x) for x in items])
    print('        model', r['outcome'], r['items'])
    print('        oracle:', why or 'holds', counters)
    if why:
        ctx.violation('oracle: ' + why, rep, signature=signature(c, why))
    elif r['outcome'] != out or S.model_items(c.s, r) != items:
        ctx.violation('correspondence: model and implementation differ', rep, signature={'stage': 'correspondence'})
