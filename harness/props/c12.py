"""
C12 — damage is detected, reported as a library error, and isolated to one message.

Theorems: lean/BufrModel/Props/C12Stream.lean (streams, message-level prefix/suffix) and Props/C12.lean
(data-level frame lemma, another file of the same property).
Tie / fault enumeration:
 (A) every truncation point of generated messages of at most 300 bytes (and of small corpus files), full and
     metadata-only: implementation error family vs the model's; oracle: no proper prefix decodes
     successfully (full mode); trailing bytes (noise, `BUFR`, `7777`, another message) never change
     `serialized_bytes` nor the decoded values.
 (B) streams of 2..5 messages x EVERY subset of damaged messages x damage kinds {stop signature
     overwritten, undefined element / undefined sequence substituted in section 3 at a position every
     decode reaches (the start of a top-level item), section length -1, section length +1..+3 (each on a
     random present section 1..4)} x {full, metadata-only} x {continue-on-error, stop}; total length always
     intact.  Implementation vs model (`scan`), and the oracle on the implementation:
       * no non-library exception leaves the generator;
       * continue-on-error: every UNDAMAGED message is delivered unchanged, in order, and the scan ends
         normally; a message damaged in its stop signature or descriptor list is not delivered when data
         sections are decoded;
       * without it: the messages before the first undelivered damaged one are delivered, nothing after
         it, and the failure is a PyBufrKitError.
     BUFR has no checksum: a length fault may leave a message that still parses, and metadata-only
     scanning looks at neither the descriptors' meaning nor the stop signature; such "damaged but still
     parsed" deliveries are counted in the evidence, not reported.
 (C) command line: `decode`, `decode -m [--continue-on-error]`, `info` on damaged files: no traceback, a
     message on stderr (the exit status is 0 by design of `__init__.main`).
 (E) declared-length sweep: for messages of every edition, with and without section 2, the declared length of EVERY
     section 1..4 set to every value from 0 to beyond the real length (all values for short sections; for long ones
     0..16, everything around the section's fixed part and around the real length, a sample between and far beyond),
     the damaged message between two valid ones, full and metadata-only, with and without continue-on-error:
     oracle of (B) + model.  (`len=` damage; its values below the fixed part of a section are what the theorems
     `C12_short_section_length_*` speak about.)
 (F) aborted template walks: a decode ABORTED at every point of the template walk - an undefined element / sequence
     substituted at EVERY position of the descriptor list (inside 201/202/203/204/207/208 scopes, inside a bitmap
     definition, inside replications, under 221/206) and the data section cut at many byte positions - on a plain and
     on a compiled Decoder, each abort followed at once by decodes of valid messages on the same object, on the
     other one and on a brand-new one; every such decode must give what a FRESH PROCESS gives for the message
     (reference digests computed once per run in a separate interpreter) and, at the end of the history, what the
     Lean coder model gives; the aborted decode itself is compared with the model's error family.
     Theorems: Props/C12Aborted.lean (`C12_aborted_*`).
 All parts compare every delivered undamaged message - bytes AND a digest of everything decoded - with the fresh-process
 reference, so state shared by all Decoder objects of a process cannot hide behind "the fresh Decoder says the same".
 (D) histories: sessions of operations (process / process without signature search / scan; strict or lenient, full
     or metadata-only, with and without continue-on-error and filter; valid, damaged, truncated input; mixed
     editions and section-2 presence) in random order on ONE Decoder object; every operation against the same
     operation on a fresh Decoder, the oracle and the (stateless) model.  Theorems: Props/C12History.lean.
"""
import contextlib
import io
import itertools
import json
import os
import shutil
import subprocess
import sys
import tempfile

from harness import core, tables_io
from harness import coder_io as C
from harness import coderprops as P
from harness import streams as S
from harness import defstreams as DS

PROP = 'C12'

META = dict(
    claimed=True,
    text='Kernel-checked theorems about the Lean models of generate_bufr_message and Decoder.process: for ALL streams, with '
         'continue-on-error a message whose decoding fails with a library error is skipped (by its declared length when the '
         'metadata-only decoding survives, else by one byte) and every other message is delivered at its offset unchanged and in '
         'order; without it the preceding messages are delivered and the error surfaces; a non-library error aborts the scan '
         'regardless of the flag (why F9 mattered); at message level bytes that follow never influence the decoding and no proper '
         'prefix of a fully consumed message decodes (from the C04 frame theorems and the data-level frame lemma of Props/C12.lean); '
         'an expected-value mismatch (7777) is the library error. Plus fault enumeration against the implementation: every '
         'truncation point, every subset of damaged messages x 5 damage kinds x modes, and the command line. The Decoder object is '
         'modelled as a state machine (its table of section configurations as a memo table): after ANY history of operations every '
         'operation gives the stateless model\'s result (C12_history_*); checked on the implementation by random sessions of '
         'strict / lenient / metadata-only / failing decodes and scans on ONE Decoder object against a fresh object, the oracle and the model. '
         'Declared section lengths: for every layout whose length comes first (all bundled ones, all decoding modes) every error of the '
         'section decoder is a library error whatever the declared value, and a declared length below the fixed part of the section is '
         'always refused, at every section, from any state of the section loop (C12_section_errors_are_library_errors, '
         'C12_short_section_length_refused[_in_loop]); checked by a sweep of the declared length of EVERY section over every value from 0 '
         'to beyond the real length. Aborted template walks: the coder state ACROSS walks is modelled (registers threaded from subset to '
         'subset and message to message, reset_template_state as a function, an aborted walk leaves ANY registers) and after any history a '
         'decode gives the stateless result (C12_aborted_*; with the reset of seeded change C12-4 it provably does not); checked by aborting '
         'walks at every position of the descriptor list and at many cuts of the data on a plain and a compiled Decoder, each abort followed '
         'by decodes of valid messages (canaries sensitive to every register first) on the same, the other and new objects, compared with a '
         'FRESH PROCESS and the Lean coder model, and by comparing the registers of new / reset CoderState objects with the model\'s.',
    technique='Lean 4 theorems (induction over the stream, frame lemma) + checked model/implementation correspondence under fault enumeration',
    note='Source tie: decoder.generate_bufr_message is re-translated from the repository into Lean on every check (harness/py2lean.py, Gen/PyDecoder.lean; the code it calls is a record of callbacks, the generator is the list of yielded values plus how it ended) and C11_src_generate_eq proves, for every byte string, every combination of info_only / continue_on_error / filter_expr and all callbacks (length.value >= 0, the table-definition calls do not raise), that it yields exactly the items of the model scan and ends as the model says (exhausted / an exception of the same class / does not terminate where the model reports an advance by 0); C12_src_resume_policy reads the continue-on-error skip (+1 in info-only mode, else + length.value of a metadata-only decode, else +1) off the translated source. Which length faults are *detected* is not a theorem (BUFR has no checksum): the check counts damaged-but-still-parsed '
         'deliveries. In the one-byte skip branch the scan searches the signature again inside the damaged message; the theorem '
         'requires its remainder to be signature-free and the check counts the streams where it is not. The data coder raises '
         'non-library errors on garbled templates / data (F15) and can spin on a garbled replication factor (F23-C12): the two '
         'section-length theorems carry the hypothesis that the data coder raises library errors only.',
)

TOLERANT = ('len-1', 'len+', 'len=')
# damage kinds after which a full decode MAY legitimately succeed (no checksum / a position the walk never reaches)
MAY_PARSE = TOLERANT + ('undef-at',)


# ---------------------------------------------------------------------------------------------
# reference: what a FRESH PROCESS (new interpreter, new Decoder per message, nothing but successful decodes of valid
# messages before) gives for a valid message.  "The fresh Decoder of this process says the same" proves nothing when the
# state that leaked is shared by all Decoder objects of the process (module-level defaults, class attributes, caches).
REF = {}        # message bytes -> {'full': [outcome, n serialized bytes, digest], 'info': [...]}


def _reference_main():
    """runs in the fresh interpreter: {messages: [hex]} on stdin -> {hex: {...}} on stdout"""
    from pybufrkit.decoder import Decoder
    req = json.load(sys.stdin)
    out = {}
    for hx in req['messages']:
        b = bytes.fromhex(hx)
        r = {}
        for io_ in (False, True):
            try:
                m = Decoder().process(b, info_only=io_, wire_template_data=False)
                r['info' if io_ else 'full'] = ['ok', len(m.serialized_bytes), digest(m)]
            except Exception as e:  # noqa
                r['info' if io_ else 'full'] = [core.err_tag(e), 0, type(e).__name__]
        out[hx] = r
    json.dump(out, sys.stdout)


def fresh_reference(messages):
    """decode every message (bytes) in ONE new interpreter; fills REF; -> the messages that do not decode there"""
    todo = sorted(set(b for b in messages if b not in REF))
    if not todo:
        return []
    p = subprocess.run([sys.executable, '-c', 'from harness.props import c12; c12._reference_main()'], cwd=core.VERIF,
                       input=json.dumps({'messages': [b.hex() for b in todo]}), stdout=subprocess.PIPE,
                       stderr=subprocess.PIPE, text=True, timeout=600, env=dict(os.environ))
    if p.returncode != 0:
        raise core.MachineryError('reference interpreter failed: ' + p.stderr[-1500:])
    res = json.loads(p.stdout)
    bad = []
    for b in todo:
        REF[b] = res[b.hex()]
        if REF[b]['full'][0] != 'ok' or REF[b]['info'][0] != 'ok':
            bad.append(b)
    return bad


def ref_mismatch(orig, info_only, dg):
    """None, or how the digest `dg` of a delivered valid message `orig` differs from the fresh-process reference"""
    r = REF.get(orig)
    if r is None or dg is None:
        return None
    want = r['info' if info_only else 'full']
    if want[0] == 'ok' and want[2] != dg:
        return 'decoded content differs from what a fresh process decodes (digest %s, reference %s)' % (dg, want[2])
    return None


# ---------------------------------------------------------------------------------------------
# damage
def damage_variants(rng, m):
    """-> list of (kind, detail, damaged bytes) for message m (total length intact)"""
    b = m.b
    secs = C.locate_sections(b)
    out = []
    stop = rng.choice([b'7776', b'\0\0\0\0', b'BUFR', b'777\n', bytes(rng.randrange(256) for _ in range(4))])
    if stop != b'7777':
        out.append(('stop', stop.hex(), b[:-4] + stop))
    pos3, n3 = secs[3]
    nd = (n3 - 7) // 2
    starts = [0]
    if m.parts:
        acc = 0
        starts = []
        for p in m.parts:
            starts.append(acc)
            acc += len(p)
        starts = [k for k in starts if k < nd]
    for kind, ident in (('undef-elem', S.UNDEF_ELEM), ('undef-seq', S.UNDEF_SEQ)):
        k = rng.choice(starts)
        w = ((ident // 100000) << 14) | ((ident // 1000 % 100) << 8) | (ident % 1000)
        o = pos3 + 7 + 2 * k
        out.append((kind, k, b[:o] + w.to_bytes(2, 'big') + b[o + 2:]))
    present = [i for i in (1, 2, 3, 4) if i in secs]
    i = rng.choice(present)
    pos, n = secs[i]
    out.append(('len-1', i, b[:pos] + (n - 1).to_bytes(3, 'big') + b[pos + 3:]))
    i = rng.choice(present)
    pos, n = secs[i]
    d = rng.randint(1, 3)
    out.append(('len+', [i, d], b[:pos] + (n + d).to_bytes(3, 'big') + b[pos + 3:]))
    # any declared length from 0 to beyond the real one (below the section's fixed part with probability 1/2)
    i = rng.choice(present)
    pos, n = secs[i]
    fx = fixed_octets(i, m.edition)
    v = rng.randrange(0, fx) if rng.random() < 0.5 else rng.randrange(0, n + 9)
    if v != n:
        out.append(('len=', [i, v, n, fx], with_length(b, pos, v)))
    # an undefined descriptor at ANY position of the list (inside operator scopes, replications, bitmap definitions;
    # possibly at a position the walk never reaches: after 206YYY, under 221YYY, in a replication repeated 0 times)
    if nd > 0:
        k = rng.randrange(nd)
        ident = rng.choice([S.UNDEF_ELEM, S.UNDEF_SEQ])
        out.append(('undef-at', [k, ident], with_descriptor(b, pos3, k, ident)))
    return out


def fixed_octets(index, edition):
    """octets of the fixed-width parameters of a section (what is read whatever the declared length says)"""
    return sum(p['nbits'] for p in C.section_layout(index, edition)['parameters']) // 8


def with_length(b, pos, v):
    return b[:pos] + v.to_bytes(3, 'big') + b[pos + 3:]


def with_descriptor(b, pos3, k, ident):
    w = ((ident // 100000) << 14) | ((ident // 1000 % 100) << 8) | (ident % 1000)
    o = pos3 + 7 + 2 * k
    return b[:o] + w.to_bytes(2, 'big') + b[o + 2:]


def locate_items(s, items):
    """offsets of the yielded pieces in the stream (sequential search)"""
    offs = []
    pos = 0
    for it in items:
        if not it:
            offs.append(None)
            continue
        k = s.find(it, pos)
        offs.append(k if k >= 0 else None)
        if k >= 0:
            pos = k + len(it)
    return offs


class SCase(object):
    """one scan of one stream.  `ignore`: ignore_value_expectation=True; `filt`: None or (filter_expr, model
    clauses); `matched`: None or, per message, whether the ORIGINAL message satisfies the filter"""
    __slots__ = ('s', 'offs', 'orig', 'cur', 'dmg', 'info_only', 'cont', 'idx', 'ignore', 'filt', 'matched')

    def __init__(self):
        self.ignore, self.filt, self.matched = False, None, None


SCAN_SECONDS = 2.0      # a scan / decode of a few hundred octets takes milliseconds
SPIN = set()            # damaged messages on which a full decode is known not to come back within the limit


def spins(c):
    """case c contains a message already known to keep a full decode busy beyond the time limit"""
    return (not c.info_only or c.filt is not None) and any(b in SPIN for b in c.cur)


def scan_fresh(c, limit, digs=None):
    """the scan of case c (on the long-lived Decoder of harness/objs.py); digs: list to receive one digest per item;
    outcome 'timeout' when it does not come back within SCAN_SECONDS"""
    if spins(c):
        return [], 'timeout'
    return S.impl_scan(c.s, info_only=c.info_only, continue_on_error=c.cont, filter_expr=c.filt[0] if c.filt else None,
                       ignore_expect=c.ignore, limit=limit, digests=None if digs is None else (digs, digest),
                       seconds=SCAN_SECONDS)


def scan_model_req(c):
    return S.scan_req(c.s, c.info_only, c.cont, model_filter=c.filt[1] if c.filt else None, ignore_expect=c.ignore)


def oracle(c, items, out, digs=None):
    """-> (violation description or None, counters); digs: None or one digest per item (compared with the fresh-process
    reference for every undamaged message delivered)"""
    counters = []
    if out == 'err:other':
        return 'a non-library exception left the generator (after %d items)' % len(items), counters
    if out == 'timeout':
        return 'the scan does not come back within %g s (the decoder keeps spinning on a damaged message)' % SCAN_SECONDS, counters
    if out == 'limit':
        return 'the generator yields more items than the stream has messages', counters
    if c.ignore and any(d is not None and d[0].startswith(TOLERANT) for d in c.dmg):
        # ignore_value_expectation gives up the check that a message ends in `7777`: a message whose section length
        # was raised is then "decoded" beyond its end and swallows the start of the next one.  That is what the
        # option means, not a loss of isolation; such scans are compared with the model and the fresh Decoder only.
        counters.append('lenient-scan-with-length-fault:model-only')
        return None, counters
    ioffs = locate_items(c.s, items)
    by_off = {o: i for i, o in enumerate(c.offs)}
    delivered = {}
    for j, (it, o) in enumerate(zip(items, ioffs)):
        if o is None or o not in by_off:
            counters.append('item-not-at-a-message-start')
            return 'an item was yielded that does not start at a message of the stream (offset %s, %d bytes)' % (o, len(it)), counters
        i = by_off[o]
        delivered[i] = it
        if c.dmg[i] is None:
            if it != c.cur[i]:
                return 'undamaged message %d delivered with different bytes (%d instead of %d)' % (i, len(it), len(c.cur[i])), counters
            if c.matched is not None and not c.matched[i]:
                return 'undamaged message %d does not satisfy the filter but was delivered' % i, counters
            bad = ref_mismatch(c.cur[i], c.info_only, digs[j] if digs is not None and j < len(digs) else None)
            if bad:
                return 'undamaged message %d delivered with the right bytes but its %s' % (i, bad), counters
            if digs is not None and c.cur[i] in REF:
                counters.append('delivered-content-compared-with-fresh-process')
        else:
            kind = c.dmg[i][0]
            if kind.startswith(MAY_PARSE) or c.info_only:
                counters.append('damaged-still-parsed:%s:%s' % (kind, 'info' if c.info_only else 'full'))
            elif c.ignore and kind == 'stop':
                counters.append('damaged-stop-delivered-by-lenient-decode')
            else:
                return 'message %d damaged by %s was delivered by a full decode' % (i, kind), counters
    n = len(c.cur)
    want = [i for i in range(n) if c.dmg[i] is None and (c.matched is None or c.matched[i])]
    if c.cont:
        if out != 'done':
            return 'continue-on-error scan ended with %s' % out, counters
        missing = [i for i in want if i not in delivered]
        if missing:
            return 'undamaged message(s) %s not delivered with continue-on-error' % missing, counters
        return None, counters
    if c.matched is not None:
        # with a filter an unmatched message (damaged or not) is passed over silently, so "the first message that is
        # not delivered" need not be the failing one: the failing message is some damaged, undelivered one after the
        # last delivery, and everything wanted before it has been delivered
        if out == 'done':
            missing = [i for i in want if i not in delivered]
            if missing:
                return 'undamaged message(s) %s not delivered although the scan ended normally' % missing, counters
            return None, counters
        if not core.is_lib(out):
            return 'the scan ended with %s instead of a PyBufrKitError' % out, counters
        last = max(delivered) if delivered else -1
        for f in range(last + 1, n):
            if c.dmg[f] is not None and f not in delivered and all(i in delivered for i in want if i < f):
                return None, counters
        return 'scan without continue-on-error ended with %s but no damaged message explains it (delivered %s)' % (
            out, sorted(delivered)), counters
    # stop at the first error
    first = next((i for i in range(n) if i not in delivered), None)
    if first is None:
        if out != 'done':
            return 'all messages delivered but the scan ended with %s' % out, counters
        return None, counters
    if c.dmg[first] is None:
        return 'undamaged message %d not delivered (scan without continue-on-error, outcome %s)' % (first, out), counters
    later = [i for i in delivered if i > first]
    if later:
        return 'messages %s delivered after the failing message %d without continue-on-error' % (later, first), counters
    if not core.is_lib(out):
        return 'damaged message %d not delivered but the scan ended with %s instead of a PyBufrKitError' % (first, out), counters
    return None, counters


def fault_class(kind):
    return 'length' if kind.startswith(TOLERANT) else ('stop' if kind == 'stop' else 'descriptor')


def single(c, i):
    """the stream reduced to message i alone (same separators around it, same flags)"""
    c2 = SCase()
    end = c.offs[i] + len(c.cur[i])
    nxt = c.offs[i + 1] if i + 1 < len(c.offs) else len(c.s)
    prev_end = c.offs[i - 1] + len(c.cur[i - 1]) if i else 0
    c2.s = c.s[prev_end:nxt]
    c2.offs = [c.offs[i] - prev_end]
    c2.cur = [c.cur[i]]
    c2.dmg = [c.dmg[i]]
    c2.orig = [c.orig[i]] if c.orig else None
    c2.info_only, c2.cont, c2.idx = c.info_only, c.cont, c.idx
    c2.ignore, c2.filt, c2.matched = c.ignore, c.filt, [c.matched[i]] if c.matched is not None else None
    return c2


def shrink_and_sign(c, why):
    """-> (case, why, signature): a single damaged message that fails in the same way when there is one"""
    what = why.split(' (')[0][:60]
    for i, d in enumerate(c.dmg):
        if d is None:
            continue
        c2 = single(c, i)
        digs = []
        items, out = scan_fresh(c2, 5, digs)
        w2, _ = oracle(c2, items, out, digs)
        if w2 and w2.split(' (')[0][:60] == what:
            c, why = c2, w2
            if out == 'timeout':
                SPIN.add(c2.cur[0])
            break
    return c, why, signature(c, why)


def signature(c, why):
    kinds = sorted(set(d[0] for d in c.dmg if d))
    sig = {'stage': 'oracle', 'what': why.split(' (')[0][:60], 'kinds': kinds,
           'fault_classes': sorted(set(fault_class(k) for k in kinds)),
           'info_only': c.info_only, 'continue': c.cont, 'ignore_expect': c.ignore, 'filter': c.filt is not None,
           'inner_signature_in_damaged': any(d is not None and S.SIG in b[1:] for d, b in zip(c.dmg, c.cur))}
    items, out = scan_fresh(c, len(c.cur) + 4)
    # a length-damaged message that still "parses" and is delivered with MORE bytes than its (intact) declared total
    # length: nothing in Decoder.process compares the two, and the excess swallows the following messages
    by_off = {o: i for i, o in enumerate(c.offs)}
    sig['overlong_damaged_delivery'] = any(
        o in by_off and c.dmg[by_off[o]] is not None and fault_class(c.dmg[by_off[o]][0]) == 'length'
        and len(it) > len(c.cur[by_off[o]])
        for it, o in zip(items, locate_items(c.s, items)))
    if why.startswith('a non-library exception') and out == 'err:other':
        sig.update(S.LAST_EXC)
    return sig


def build_scase(rng, sel, variants, subset, idx):
    c = SCase()
    c.idx = idx
    c.orig = sel
    c.dmg = []
    c.cur = []
    for i, m in enumerate(sel):
        if i in subset:
            kind, detail, b = rng.choice(variants[id(m)])
            c.dmg.append((kind, detail))
            c.cur.append(b)
        else:
            c.dmg.append(None)
            c.cur.append(m.b)
    s = S.separator(rng)[1]
    c.offs = []
    for b in c.cur:
        c.offs.append(len(s))
        s += b + S.separator(rng)[1]
    c.s = s
    return c


def replay_obj(c, why):
    return {'stream_hex': c.s.hex(), 'pieces': [[o, len(b)] for o, b in zip(c.offs, c.cur)],
            'damage': [list(d) if d else None for d in c.dmg], 'info_only': c.info_only,
            'continue_on_error': c.cont, 'ignore_value_expectation': c.ignore,
            'filter': list(c.filt) if c.filt else None, 'matched': c.matched, 'case_index': c.idx, 'why': why}



def run_streams(ctx, drv, treq, rng, nstreams, pool):
    pool = [m for m in pool if len(m.b) <= 400] or pool
    bad = set(fresh_reference([m.b for m in pool]))
    if bad:
        ctx.count('generated-message-not-decoded-by-a-fresh-process', len(bad))      # C01's business, not a damage question
        pool = [m for m in pool if m.b not in bad]
    variants = {id(m): damage_variants(rng, m) for m in pool}
    cases = []
    for si in range(nstreams):
        k = rng.randint(2, 5)
        sel = [rng.choice(pool) for _ in range(k)]
        for r in range(k + 1):
            for subset in itertools.combinations(range(k), r):
                for io_ in (False, True):
                    for cont in (True, False):
                        c = build_scase(rng, sel, variants, set(subset), len(cases))
                        c.info_only, c.cont = io_, cont
                        cases.append(c)
    chunk = 400
    for k0 in range(0, len(cases), chunk):
        part = cases[k0:k0 + chunk]
        obs = []
        for c in part:
            digs = []
            items, out = scan_fresh(c, len(c.cur) + 4, digs)
            obs.append((items, out, digs))
        res = model_scans(drv, treq, part, [o[1] for o in obs])
        for c, r, (items, out, digs) in zip(part, res, obs):
            nd = sum(1 for d in c.dmg if d)
            ctx.case({'stream': c.s.hex()[:48], 'damage': [d[0] if d else None for d in c.dmg], 'info_only': c.info_only,
                      'continue': c.cont}, nontrivial=nd >= 1 and nd < len(c.dmg), sample=len(ctx.samples) < 4 and nd >= 1)
            ctx.traces += 1
            ctx.count('streams:%s:%s' % ('info' if c.info_only else 'full', 'continue' if c.cont else 'stop'))
            ctx.count('damaged-%d-of-%d' % (nd, len(c.dmg)))
            for d in c.dmg:
                if d:
                    ctx.count('damage:' + d[0])
            ctx.count('outcome:' + out)
            judge_scan(ctx, c, items, out, r, digs)
    return pool, variants


def model_scans(drv, treq, cases, outs):
    """the model's `scan` for every case whose implementation run came back (the model mirrors the code: where the code
    spins, so does the driver); None for the others"""
    idx = [k for k, o in enumerate(outs) if o != 'timeout']
    res = drv.batch([treq] + [scan_model_req(cases[k]) for k in idx], timeout=900)[1:] if idx else []
    out = [None] * len(cases)
    for k, r in zip(idx, res):
        out[k] = r
    return out


def judge_scan(ctx, c, items, out, r, digs=None):
    """oracle on what the implementation delivered for case c, then implementation vs model response r"""
    why, counters = oracle(c, items, out, digs)
    for k in counters:
        ctx.count(k)
    if why:
        if ctx.violations + len(ctx.known_hits) > 60:
            ctx.count('further-failing-streams')
            return
        c2, w2, sig = shrink_and_sign(c, why)
        ctx.violation('oracle: ' + w2 + (' [%s in %s]' % (sig['exc'], sig['where']) if 'exc' in sig else ''),
                      replay_obj(c2, w2), signature=sig)
        return
    if r is None:
        return
    mi = S.model_items(c.s, r)
    if r['outcome'] != out or mi != items:
        w = 'model scan gives %s %s, implementation %s %s' % (r['outcome'], [(o, n) for o, n, _ in r['items']][:8], out,
                                                              [len(x) for x in items[:8]])
        ctx.violation('correspondence: ' + w, replay_obj(c, w),
                      signature={'stage': 'correspondence', 'kinds': sorted(set(d[0] for d in c.dmg if d)),
                                 'info_only': c.info_only, 'continue': c.cont, 'ignore_expect': c.ignore,
                                 'filter': c.filt is not None, 'impl': out, 'model': r['outcome']})


# ---------------------------------------------------------------------------------------------
# (A) truncation and trailing bytes
def decode_family(dec, b, info_only):
    try:
        m = dec.process(b, info_only=info_only, wire_template_data=False)
        return 'ok', m
    except Exception as e:  # noqa
        return core.err_tag(e), None


def values_of(m):
    td = m.template_data.value
    return repr((td.decoded_values_all_subsets, [[str(d) for d in ds] for ds in td.decoded_descriptors_all_subsets]))


def truncation_message(treq, b, label, seed, points=None, ref=None):
    """runs in a worker process -> {'fams':…, 'violations': [(what, replay, signature)], 'traces': n, 'trailing': n}"""
    import random
    from pybufrkit.decoder import Decoder
    rng = random.Random(seed)
    drv = core.Driver()
    dec = Decoder()
    viol = []
    ks = list(range(len(b))) if points is None else points
    reqs = [treq]
    for k in ks:
        reqs.append(S.scan_req(b[:k], info_only=False))
        reqs.append(S.scan_req(b[:k], info_only=True))
    res = drv.batch(reqs)[1:]
    fams = {}
    for j, k in enumerate(ks):
        for io_, r in ((False, res[2 * j]), (True, res[2 * j + 1])):
            fam, m = decode_family(dec, b[:k], io_)
            fams[fam] = fams.get(fam, 0) + 1
            if k < 4:
                model = 'err:lib' if r['outcome'] == 'done' and not r['items'] else 'unexpected:' + r['outcome']
            else:
                model = 'ok' if (r['outcome'] == 'done' and len(r['items']) == 1) else r['outcome']
            if not io_ and fam == 'ok':
                viol.append(('oracle: the first %d of %d bytes of a valid message decode successfully' % (k, len(b)),
                             {'message_hex': b.hex(), 'cut': k, 'info_only': False, 'label': label},
                             {'stage': 'truncation', 'what': 'prefix decodes'}))
            elif fam == 'err:other':
                viol.append(('oracle: decoding the first %d of %d bytes raises a non-library exception' % (k, len(b)),
                             {'message_hex': b.hex(), 'cut': k, 'info_only': io_, 'label': label},
                             {'stage': 'truncation', 'what': 'non-library', 'info_only': io_}))
            elif fam != model and not (core.is_lib(fam) and k < 4 and model == 'err:lib'):
                viol.append(('correspondence: first %d of %d bytes (info_only=%s): implementation %s, model %s' % (k, len(b), io_, fam, model),
                             {'message_hex': b.hex(), 'cut': k, 'info_only': io_, 'label': label},
                             {'stage': 'truncation', 'what': 'model differs', 'info_only': io_}))
    # the complete message after all that: on the Decoder that decoded (and failed on) every prefix, and on a new one;
    # the yardstick is what a fresh PROCESS gives (state shared by all Decoder objects of this process would fool a
    # comparison of the two)
    if ref is None:
        fresh_reference([b])
        ref = REF[b]
    if ref['full'][0] != 'ok':
        return {'fams': fams, 'violations': viol[:5], 'traces': 2 * len(ks), 'trailing': 0, 'skipped': 'reference:' + ref['full'][0]}
    want = ref['full'][2]
    ntrail = 0
    for who, d in (('the Decoder that has just decoded every prefix of it (full and metadata-only)', dec),
                   ('a new Decoder of the process in which those prefixes were decoded', Decoder())):
        fam, m1 = decode_family(d, b, False)
        got = fam if fam != 'ok' else ('a different result' if (m1.serialized_bytes != b or digest(m1) != want) else None)
        if got:
            viol.append(('history: a fresh process decodes the message; %s gives %s' % (who, got),
                         {'message_hex': b.hex(), 'label': label, 'history': 'all prefixes, full and info-only alternating',
                          'points': points},
                         {'stage': 'history', 'op': 'truncation', 'shared': fam, 'fresh': 'ok',
                          'object': 'same' if d is dec else 'new'}))
            return {'fams': fams, 'violations': viol[:5], 'traces': 2 * len(ks), 'trailing': 0}
    for t in (b'\0', b'7777', b'BUFR', b'BUF', S.noise(rng, 9), b, b[:len(b) // 2], b'\xff' * 5):
        fam, m1 = decode_family(dec, b + t, False)
        ntrail += 1
        if fam != 'ok' or m1.serialized_bytes != b or digest(m1) != want:
            viol.append(('oracle: %d trailing bytes change the decoding of a message (%s)' % (len(t), fam),
                         {'message_hex': b.hex(), 'trailing_hex': t.hex(), 'label': label},
                         {'stage': 'trailing', 'what': fam}))
        fam, m2 = decode_family(dec, b + t, True)
        if fam != 'ok' or m2.serialized_bytes != b[:-4] or digest(m2) != ref['info'][2]:
            viol.append(('oracle: %d trailing bytes change the metadata-only decoding (%s)' % (len(t), fam),
                         {'message_hex': b.hex(), 'trailing_hex': t.hex(), 'label': label, 'info_only': True},
                         {'stage': 'trailing-info', 'what': fam}))
    return {'fams': fams, 'violations': viol[:5], 'traces': 2 * len(ks), 'trailing': ntrail}


def _trunc_star(a):
    return truncation_message(*a)


def truncation_pool(drv, rng, nmsgs):
    pool = []
    tries = 0
    while len(pool) < nmsgs and tries < 12:
        tries += 1
        pool += [m for m in S.gen_messages(drv, rng, 60, needle_p=0.3) if len(m.b) <= 300]
    return pool[:nmsgs]


def run_truncation(ctx, drv, treq, rng, pool, ncorpus):
    import multiprocessing
    jobs = []
    for m in pool:
        ctx.case({'truncate': m.b.hex()[:48], 'len': len(m.b), 'edition': m.edition, 'compressed': m.comp}, nontrivial=True,
                 sample=len(ctx.samples) < 5)
        ctx.count('truncated-messages')
        ctx.count('truncation-points', len(m.b))
        jobs.append((treq, m.b, 'generated', rng.randrange(1 << 30), None))
    # corpus
    from pybufrkit.decoder import Decoder
    files = [f for f in P.corpus_files('thorough', rng) if os.path.getsize(f) <= 6000 and 'multi_invalid' not in f]
    rng.shuffle(files)
    used = 0
    for path in files:
        if used >= ncorpus:
            break
        raw = open(path, 'rb').read()
        try:
            msg = Decoder().process(raw, wire_template_data=False)
        except Exception:  # noqa
            continue
        b = msg.serialized_bytes
        key = msg.table_group_key
        treq2 = tables_io.tables_request(*tables_io.read_group(key.wmo_tables_sn, key.local_tables_sn, key.tables_root_dir))
        points = list(range(len(b))) if len(b) <= 700 else sorted(set(rng.sample(range(len(b)), 500) + list(range(len(b) - 12, len(b))) + list(range(64))))
        used += 1
        ctx.case({'truncate-corpus': os.path.basename(path), 'len': len(b)}, nontrivial=True)
        ctx.count('truncated-corpus-files')
        ctx.count('truncation-points', len(points))
        jobs.append((treq2, b, os.path.basename(path), rng.randrange(1 << 30), points))
    fresh_reference([j[1] for j in jobs])
    jobs = [j + (REF[j[1]],) for j in jobs]
    with multiprocessing.Pool(min(16, os.cpu_count() or 4)) as mp:
        results = mp.map(_trunc_star, jobs, chunksize=1)
    for r in results:
        if 'skipped' in r:
            ctx.count('truncation:complete-message-not-compared:' + r['skipped'])
        ctx.traces += r['traces']
        ctx.count('trailing-bytes', r['trailing'])
        for f, n in r['fams'].items():
            ctx.count('truncation:' + f, n)
        for what, rep, sig in r['violations']:
            ctx.violation(what, rep, signature=sig)


# ---------------------------------------------------------------------------------------------
# (D) histories on ONE Decoder object
#
# The property quantifies over streams and damage, not over the state of the Decoder object that reads them, and a
# user keeps one Decoder for many calls.  A session is a list of operations run in order on one Decoder:
#   process        Decoder.process(bytes, info_only=?, ignore_value_expectation=?) on a valid message (of any edition,
#                  with or without section 2), a damaged one (every damage kind of (B)), a truncated one, one with
#                  trailing bytes
#   process-nosig  the same with start_signature=None on bytes whose first four octets are not `BUFR`
#   scan           generate_bufr_message(decoder, stream, info_only=?, continue_on_error=?, filter_expr=?,
#                  ignore_value_expectation=?) on a stream of 1..4 messages with a random damaged subset
# Every operation's observation (outcome / error family, the bytes of every delivered message and a digest of
# everything decoded: all section parameters, all values, all descriptors) is compared with
#   1. the same operation on a fresh Decoder                (stage `history`: the result depends on what came before),
#   2. the oracle of (B) resp. the per-message oracle below (stage `oracle`),
#   3. the model (`scan` of Msg/Stream.lean, which has no decoder state at all) (stage `correspondence`).
# 2. and 3. also see state shared by all Decoder objects of the process (1. cannot: the fresh one would be polluted too).
class HOp(object):
    __slots__ = ('kind', 'data', 'info_only', 'cont', 'ignore', 'case', 'variant', 'orig')

    def key(self):
        return (self.kind, self.data, self.info_only, self.cont, self.ignore, self.case.filt[0] if self.case is not None and self.case.filt else None)

    def flags(self):
        return '%s:%s:%s' % (self.kind, 'info' if self.info_only else 'full', 'lenient' if self.ignore else 'strict')

    def to_json(self):
        d = {'kind': self.kind, 'hex': self.data.hex(), 'info_only': self.info_only, 'continue_on_error': self.cont,
             'ignore_value_expectation': self.ignore, 'variant': list(self.variant) if self.variant else None}
        if self.orig is not None:
            d['orig_hex'] = self.orig.hex()
        if self.case is not None:
            d['scan'] = replay_obj(self.case, '')
        return d

    @staticmethod
    def from_json(d):
        op = HOp()
        op.kind, op.data, op.info_only, op.cont, op.ignore = (d['kind'], bytes.fromhex(d['hex']), d['info_only'],
                                                              d['continue_on_error'], d['ignore_value_expectation'])
        op.variant = tuple(d['variant']) if d.get('variant') else None
        op.orig = bytes.fromhex(d['orig_hex']) if 'orig_hex' in d else None
        op.case = scase_from_replay(d['scan']) if 'scan' in d else None
        return op


def scase_from_replay(rep):
    c = SCase()
    c.s = bytes.fromhex(rep['stream_hex'])
    c.offs = [o for o, _ in rep['pieces']]
    c.cur = [c.s[o:o + n] for o, n in rep['pieces']]
    c.orig = None
    c.dmg = [tuple(d) if d else None for d in rep['damage']]
    c.info_only, c.cont, c.idx = rep['info_only'], rep['continue_on_error'], rep.get('case_index', 0)
    c.ignore = bool(rep.get('ignore_value_expectation', False))
    c.filt = tuple(rep['filter']) if rep.get('filter') else None
    c.matched = rep.get('matched')
    return c


def digest(m):
    """everything a decode delivers besides the bytes: all section parameters, values and descriptors"""
    import hashlib
    h = []
    for sec in m.sections:
        for p in sec:
            if p.type == 'template_data':
                td = p.value
                h.append(repr((td.decoded_values_all_subsets, [[str(d) for d in ds] for ds in td.decoded_descriptors_all_subsets])))
            else:
                h.append(repr((p.name, p.value)))
    return hashlib.sha1('\n'.join(h).encode('utf-8', 'replace')).hexdigest()[:12]


class Obs(object):
    """observation of one operation: outcome ('ok' / 'done' / error family), [(bytes, digest)] delivered, exception detail"""
    __slots__ = ('out', 'items', 'exc')

    def same(self, other):
        return self.out == other.out and self.items == other.items

    def brief(self):
        return '%s %s' % (self.out, [len(b) for b, _ in self.items])


def run_op(dec, op):
    from pybufrkit.decoder import generate_bufr_message
    o = Obs()
    o.items, o.exc = [], None
    err = io.StringIO()
    if (op.case is not None and spins(op.case)) or (op.case is None and not op.info_only and op.data in SPIN):
        o.out = 'timeout'
        return o
    try:
        with contextlib.redirect_stderr(err), S.time_limit(SCAN_SECONDS):
            if op.kind == 'scan':
                c = op.case
                gen = generate_bufr_message(dec, op.data, info_only=op.info_only, continue_on_error=op.cont,
                                            filter_expr=c.filt[0] if c.filt else None, wire_template_data=False,
                                            ignore_value_expectation=op.ignore)
                limit = len(c.cur) + 4
                o.out = 'done'
                for m in itertools.islice(gen, limit):
                    o.items.append((m.serialized_bytes, digest(m)))
                if len(o.items) >= limit:
                    o.out = 'limit'
            else:
                kw = {'start_signature': None} if op.kind == 'process-nosig' else {}
                m = dec.process(op.data, info_only=op.info_only, ignore_value_expectation=op.ignore,
                                wire_template_data=False, **kw)
                o.out = 'ok'
                o.items.append((m.serialized_bytes, digest(m)))
    except S.Timeout:
        o.out = 'timeout'
        if op.case is None:
            SPIN.add(op.data)
    except Exception as e:  # noqa
        o.out = core.err_tag(e)
        o.exc = S.exc_detail(e)
    return o


def gen_scan_op(rng, sel, variants, idx):
    k = rng.randint(1, min(4, len(sel) + 1))
    msgs = [rng.choice(sel) for _ in range(k)]
    subset = set(i for i in range(k) if rng.random() < 0.4)
    c = build_scase(rng, msgs, variants, subset, idx)
    c.info_only = rng.random() < 0.3
    c.cont = rng.random() < 0.6
    c.ignore = rng.random() < 0.25
    if rng.random() < 0.25:
        expr, model, pred = S.make_filter(rng, msgs)
        c.filt = (expr, model)
        c.matched = [bool(pred(m.meta())) for m in msgs]
    op = HOp()
    op.kind, op.data, op.info_only, op.cont, op.ignore, op.case, op.variant, op.orig = 'scan', c.s, c.info_only, c.cont, c.ignore, c, None, None
    return op


def gen_process_op(rng, sel, variants):
    m = rng.choice(sel)
    op = HOp()
    op.kind, op.cont, op.case, op.orig = 'process', False, None, m.b
    op.info_only = rng.random() < 0.3
    op.ignore = rng.random() < 0.3
    r = rng.random()
    if r < 0.35:
        op.variant, op.data = None, m.b
    elif r < 0.7:
        kind, detail, b = rng.choice(variants[id(m)])
        op.variant, op.data = (kind, detail), b
    elif r < 0.82:
        k = rng.choice([rng.randrange(len(m.b)), len(m.b) - rng.randint(1, 5)])
        op.variant, op.data = ('trunc', k), m.b[:k]
    elif r < 0.9:
        t = rng.choice([b'\0', b'7777', b'BUFR', S.noise(rng, 7), m.b[:20]])
        op.variant, op.data = ('trail', len(t)), m.b + t
    else:
        op.kind = 'process-nosig'
        head = rng.choice([b'BUFS', b'\0\0\0\0', b'7777', b'bufr', bytes(rng.randrange(256) for _ in range(4))])
        if head == S.SIG:
            head = b'BUFQ'
        op.variant, op.data = ('start', head.hex()), head + m.b[4:]
    return op


def process_oracle(op, o):
    """the property for ONE message given to Decoder.process -> violation text or None"""
    v = op.variant
    full = not op.info_only
    if o.out == 'err:other':
        return 'a non-library exception left the generator (here: Decoder.process on one message)'
    if o.out == 'timeout':
        return 'the scan does not come back within %g s (here: Decoder.process on one message keeps spinning)' % SCAN_SECONDS
    if v is None or v[0] == 'trail':
        want = op.orig if full else op.orig[:-4]
        if o.out != 'ok':
            return 'a valid message does not decode (%s)' % o.out
        if o.items[0][0] != want:
            return 'a valid message is delivered with different bytes (%d instead of %d)' % (len(o.items[0][0]), len(want))
        bad = ref_mismatch(op.orig, op.info_only, o.items[0][1])
        if bad:
            return 'a valid message is delivered with the right bytes but its ' + bad
        return None
    kind = v[0]
    if kind == 'trunc':
        if full and o.out == 'ok':
            return 'a proper prefix of a valid message decodes successfully'
        return None
    if kind == 'start':
        if o.out == 'ok' and not op.ignore:
            return 'a message whose start signature is overwritten decodes with start_signature=None'
        return None
    if kind == 'stop':
        if o.out == 'ok' and full and not op.ignore:
            return 'message damaged by stop was delivered by a full decode'
        return None
    if kind == 'undef-at':
        return None         # a position the walk may never reach: the model decides (correspondence)
    if kind.startswith('undef'):
        if o.out == 'ok' and full:
            return 'message damaged by %s was delivered by a full decode' % kind
        return None
    return None         # length faults: BUFR has no checksum


def process_signature(op, o, why):
    kind = op.variant[0] if op.variant else 'none'
    damaged = kind in ('stop', 'undef-elem', 'undef-seq', 'undef-at', 'len-1', 'len+', 'len=')
    sig = {'stage': 'oracle', 'what': why.split(' (')[0][:60], 'kinds': [kind] if damaged else [],
           'fault_classes': [fault_class(kind)] if damaged else [], 'info_only': op.info_only, 'continue': False,
           'ignore_expect': op.ignore, 'filter': False, 'op': op.kind, 'variant': kind,
           'inner_signature_in_damaged': damaged and S.SIG in op.data[1:]}
    if o.exc and o.out == 'err:other':
        sig.update(o.exc)
    return sig


def model_of_process(r):
    """the model's `scan` of the bytes of one process operation -> ('ok', consumed) | (family, None)"""
    if r['items']:
        return 'ok', r['items'][0][2]
    return ('err:lib' if r['outcome'] == 'done' else r['outcome']), None


def shrink_history(ops, j, fresh):
    """drop operations before ops[j] as long as ops[j] on the shared Decoder still differs from the fresh run"""
    from pybufrkit.decoder import Decoder
    hist = list(ops[:j])

    def differs(h):
        dec = Decoder()
        for op in h:
            run_op(dec, op)
        return not run_op(dec, ops[j]).same(fresh)
    changed = True
    while changed and hist:
        changed = False
        for i in range(len(hist) - 1, -1, -1):
            h2 = hist[:i] + hist[i + 1:]
            if differs(h2):
                hist = h2
                changed = True
    return hist


def history_replay(hist, op, shared, fresh, why):
    return {'history': [h.to_json() for h in hist], 'probe': op.to_json(), 'shared': shared.brief(), 'fresh': fresh.brief(),
            'why': why}


def run_histories(ctx, drv, treq, rng, pool, variants, nsessions):
    from pybufrkit.decoder import Decoder
    fresh_memo = {}
    judged = set()
    sessions = []
    nscan = 0
    for si in range(nsessions):
        best = None
        for _ in range(3):      # prefer sessions that mix editions and section-2 presence
            sel = [rng.choice(pool) for _ in range(rng.randint(2, 4))]
            score = len(set((m.edition, m.sec2 is not None) for m in sel))
            if best is None or score > best[0]:
                best = (score, sel)
        sel = best[1]
        ops = []
        for j in range(rng.randint(5, 12)):
            if rng.random() < 0.45:
                ops.append(gen_scan_op(rng, sel, variants, nscan))
                nscan += 1
            else:
                ops.append(gen_process_op(rng, sel, variants))
        sessions.append((sel, ops))
    to_judge = []
    for si, (sel, ops) in enumerate(sessions):
        shared = Decoder()
        ctx.count('history:sessions')
        ctx.count('history:editions-in-session:%d' % len(set(m.edition for m in sel)))
        ctx.count('history:section2-mixed' if len(set(m.sec2 is not None for m in sel)) == 2 else 'history:section2-uniform')
        prior = set()
        for j, op in enumerate(ops):
            k = op.key()
            got = run_op(shared, op)        # before the fresh run: nothing else happens between two operations of a session
            if k not in fresh_memo:
                fresh_memo[k] = run_op(Decoder(), op)
            fresh = fresh_memo[k]
            vname = (op.variant[0] if op.variant else 'valid') if op.kind != 'scan' else 'dmg%d' % sum(1 for d in op.case.dmg if d)
            ctx.case({'session': si, 'op': j, 'kind': op.kind, 'data': op.data.hex()[:40], 'len': len(op.data), 'flags': op.flags(),
                      'cont': op.cont, 'variant': vname, 'prior': sorted(prior)}, nontrivial=j >= 1,
                     sample=si == 0 and j in (2, 3))
            ctx.traces += 1
            ctx.count('history:op:' + op.flags())
            ctx.count('history:variant:' + vname)
            ctx.count('history:outcome:' + got.out)
            for t in prior:
                ctx.count('history:after-' + t)
            if op.kind == 'scan' and op.case.filt:
                ctx.count('history:scan-with-filter')
            if not got.same(fresh):
                why = 'operation %d of a session on one Decoder (%s, %s%s) gives %s, the same operation on a fresh Decoder %s' % (
                    j, op.flags(), vname, ', continue-on-error' if op.cont else '', got.brief(), fresh.brief())
                hist = shrink_history(ops, j, fresh)
                why += '; history needed: %s' % [h.flags() + ':' + ('ok' if run_op(Decoder(), h).out in ('ok', 'done') else 'failed') for h in hist]
                ctx.violation('history: ' + why, history_replay(hist, op, got, fresh, why),
                              signature={'stage': 'history', 'op': op.flags(), 'shared': got.out, 'fresh': fresh.out})
                break       # the Decoder object is no longer in a defined state
            if k not in judged:
                judged.add(k)
                to_judge.append((k, op, got))
            # what later operations of this session come after
            prior.add('lenient' if op.ignore else 'strict')
            prior.add('info' if op.info_only else 'full')
            prior.add('failed' if got.out not in ('ok', 'done') else 'succeeded')
            prior.add(op.kind)
            if op.kind == 'scan' and op.case.filt:
                prior.add('filter')
    # the model's answer for every distinct operation that it can express and whose implementation run came back
    # (the model mirrors the code: where the code spins, so does the driver); then oracle + correspondence
    ask = [(k, op) for k, op, got in to_judge if op.kind != 'process-nosig' and got.out != 'timeout']
    res = drv.batch([treq] + [scan_model_req(op.case) if op.kind == 'scan' else S.scan_req(op.data, op.info_only, False, None, op.ignore)
                              for _, op in ask], timeout=900)[1:]
    model = dict(zip([k for k, _ in ask], res))
    for k, op, got in to_judge:
        judge_op(ctx, op, got, model.get(k))


def judge_op(ctx, op, got, r):
    """oracle and model for one operation whose observation `got` does not depend on the history"""
    if op.kind == 'scan':
        judge_scan(ctx, op.case, [b for b, _ in got.items], got.out, r, [d for _, d in got.items])
        return
    why = process_oracle(op, got)
    if why:
        sig = process_signature(op, got, why)
        ctx.violation('oracle: ' + why + (' [%s in %s]' % (sig['exc'], sig['where']) if 'exc' in sig else ''),
                      history_replay([], op, got, got, why), signature=sig)
        return
    if r is None:
        return
    fam, consumed = model_of_process(r)
    if fam != got.out or (fam == 'ok' and consumed != len(got.items[0][0])):
        w = 'Decoder.process (%s, %s): model %s %s, implementation %s' % (op.flags(), op.variant, fam, consumed, got.brief())
        ctx.violation('correspondence: ' + w, history_replay([], op, got, got, w),
                      signature={'stage': 'correspondence', 'op': op.flags(), 'variant': op.variant[0] if op.variant else 'valid',
                                 'impl': got.out, 'model': fam})


# ---------------------------------------------------------------------------------------------
# (E) declared-length sweep
def sweep_values(rng, n, fx):
    """declared lengths to try for a section of n octets whose fixed part has fx octets"""
    if n + 4 <= 44:
        vs = set(range(0, n + 4))
    else:
        vs = set(range(0, 17)) | set(range(max(0, fx - 3), fx + 4)) | set(range(n - 6, n + 4))
        vs |= set(rng.randrange(17, n - 6) for _ in range(6))
    vs |= {n + 16, n + 255, rng.choice([1 << 16, (1 << 24) - 1, n + 4096])}
    vs.discard(n)
    return sorted(vs)


def run_length_sweep(ctx, drv, treq, rng, pool, nmsgs):
    """[valid | message with the declared length of ONE section set to v | valid] for every section 1..4 and every v of
    `sweep_values`, messages chosen to cover every (edition, section 2 present) combination of the pool"""
    by_key = {}
    for m in sorted(pool, key=lambda m: len(m.b)):
        if len(m.b) <= 260:
            by_key.setdefault((m.edition, m.sec2 is not None), []).append(m)
    sel = []
    while len(sel) < nmsgs and any(by_key.values()):
        for k in sorted(by_key):
            if by_key[k] and len(sel) < nmsgs:
                lst = by_key[k]
                sel.append(lst.pop(rng.randrange(min(4, len(lst)))))
    cases = []
    for m in sel:
        secs = C.locate_sections(m.b)
        for i in (1, 2, 3, 4):
            if i not in secs:
                continue
            pos, n = secs[i]
            fx = fixed_octets(i, m.edition)
            for v in sweep_values(rng, n, fx):
                if v < fx or abs(v - n) <= 3:
                    modes = [(False, True), (True, True)]
                    if rng.random() < 0.3:
                        modes += [(False, False), (True, False)]
                else:
                    modes = [rng.choice([(False, True), (False, True), (True, True), (False, False), (True, False)])]
                for io_, cont in modes:
                    c = SCase()
                    c.idx, c.orig = len(cases), None
                    a, z = rng.choice(pool), rng.choice(pool)
                    c.cur = [a.b, with_length(m.b, pos, v), z.b]
                    c.dmg = [None, ('len=', [i, v, n, fx]), None]
                    s = S.separator(rng)[1] if rng.random() < 0.3 else b''
                    c.offs = []
                    for b in c.cur:
                        c.offs.append(len(s))
                        s += b + (S.separator(rng)[1] if rng.random() < 0.5 else b'')
                    c.s, c.info_only, c.cont = s, io_, cont
                    cases.append(c)
                    ctx.count('sweep:section%d:%s' % (i, 'below-fixed-part' if v < fx else ('below-real' if v < n else 'above-real')))
        ctx.count('sweep:messages:edition%d:%s' % (m.edition, 'sec2' if m.sec2 is not None else 'nosec2'))
    chunk = 400
    for k0 in range(0, len(cases), chunk):
        part = cases[k0:k0 + chunk]
        obs = []
        for c in part:
            digs = []
            items, out = scan_fresh(c, len(c.cur) + 4, digs)
            obs.append((items, out, digs))
        res = model_scans(drv, treq, part, [o[1] for o in obs])
        for c, r, (items, out, digs) in zip(part, res, obs):
            i, v, n, fx = c.dmg[1][1]
            ctx.case({'sweep': c.cur[1].hex()[:40], 'section': i, 'declared': v, 'real': n, 'info_only': c.info_only,
                      'continue': c.cont}, nontrivial=True, sample=False)
            ctx.traces += 1
            ctx.count('sweep:scans:%s:%s' % ('info' if c.info_only else 'full', 'continue' if c.cont else 'stop'))
            ctx.count('sweep:outcome:' + out)
            if v < fx:
                # below the fixed part nothing can parse (theorem C12_short_section_length_refused): the damaged message is
                # never delivered, by either kind of scan.  (Section 4: the metadata-only layout ends after the header.)
                by_off = {o: j for j, o in enumerate(c.offs)}
                if any(by_off.get(o) == 1 for o in locate_items(c.s, items)):
                    w = 'a message whose section %d declares %d octets, less than the %d of its fixed part, was delivered (%s)' % (
                        i, v, fx, 'metadata-only' if c.info_only else 'full decode')
                    ctx.violation('oracle: ' + w, replay_obj(c, w), signature={'stage': 'oracle', 'what': 'short section delivered',
                                                                               'section': i, 'info_only': c.info_only})
                    continue
            judge_scan(ctx, c, items, out, r, digs)


# ---------------------------------------------------------------------------------------------
# (F) aborted template walks
SCOPE_OPS = {201: '201', 202: '202', 204: '204', 207: '207', 208: '208'}


def walk_scopes(ids):
    """per position k of the unexpanded descriptor list: the names of what is in force / open when the walk arrives at
    descriptor k (top-level view; what is inside Table D sequences is not looked at)"""
    out = []
    open_ = {}
    rep = 0          # descriptors still inside the span of a replication
    dnp = 0
    skip206 = False
    bitmap = None    # None | 'indicator' | 'bits'
    for k, i in enumerate(ids):
        sc = set(n for n, v in open_.items() if v)
        if rep:
            sc.add('replication')
            rep -= 1
        if dnp:
            sc.add('221')
            dnp -= 1
        if skip206:
            sc.add('206')
            skip206 = False
        if bitmap:
            sc.add('bitmap-definition')
        out.append(sorted(sc))
        f, x, y = i // 100000, i // 1000 % 100, i % 1000
        if bitmap == 'indicator' and i not in (236000,):
            bitmap = 'bits' if i != 237000 else None
        elif bitmap == 'bits' and f == 0 and i != 31031 and x != 31:
            bitmap = None
        if f == 1:
            rep = max(rep, x + (1 if y == 0 else 0))
        elif f == 2:
            op = i // 1000
            if op == 204:
                open_['204'] = open_.get('204', 0) + 1 if y else max(0, open_.get('204', 0) - 1)
            elif op in SCOPE_OPS:
                open_[SCOPE_OPS[op]] = 1 if y else 0
            elif op == 203:
                if y == 0:
                    open_['203'] = open_['203-definition'] = 0
                elif y == 255:
                    open_['203-definition'] = 0
                    open_['203'] = 1
                else:
                    open_['203-definition'] = 1
            elif op == 206:
                skip206 = True
            elif op == 221:
                dnp = y
            elif op in (222, 223, 224, 225, 232) and y == 0:
                bitmap = 'indicator'
    return out


def abort_points(rng, b, ids, ncuts):
    """-> [(kind, detail, damaged bytes)]: an undefined element and an undefined sequence at EVERY position of the
    descriptor list; the message cut at `ncuts` byte positions inside the data section (all of them when there are fewer);
    one overwritten stop signature and one section-3 length below the fixed part (no walk at all: controls)"""
    secs = C.locate_sections(b)
    pos3, _ = secs[3]
    pos4, n4 = secs[4]
    out = []
    for k in range(len(ids)):
        out.append(('undef-elem', k, with_descriptor(b, pos3, k, S.UNDEF_ELEM)))
        out.append(('undef-seq', k, with_descriptor(b, pos3, k, S.UNDEF_SEQ)))
    cuts = list(range(pos4 + 4, pos4 + n4))
    if len(cuts) > ncuts:
        step = len(cuts) / float(ncuts)
        cuts = sorted(set([cuts[int(j * step)] for j in range(ncuts)] + [rng.choice(cuts) for _ in range(4)]))
    for cut in cuts:
        out.append(('trunc', cut, b[:cut]))
    out.append(('stop', '7776', b[:-4] + b'7776'))
    out.append(('len=', [3, 5], with_length(b, pos3, 5)))
    return out


def decode_obs(dec, b):
    """-> (outcome, serialized bytes or None, digest or None, subsets for the model comparison or None, exception detail)"""
    if b in SPIN:
        return 'timeout', None, None, None, None
    try:
        with contextlib.redirect_stderr(io.StringIO()), S.time_limit(SCAN_SECONDS):
            m = dec.process(b, wire_template_data=False)
    except S.Timeout:
        SPIN.add(b)
        return 'timeout', None, None, None, None
    except Exception as e:  # noqa
        return core.err_tag(e), None, None, None, S.exc_detail(e)
    td = m.template_data.value
    subs = [{'d': [str(d) for d in td.decoded_descriptors_all_subsets[i]], 'v': list(td.decoded_values_all_subsets[i]),
             'l': sorted([a, o] for a, o in td.bitmap_links_all_subsets[i].items())} for i in range(m.n_subsets.value)]
    return 'ok', m.serialized_bytes, digest(m), subs, None


def aborted_replay(abort, who, probe_b, probe_on, why):
    kind, detail, data = abort
    return {'aborted': {'kind': kind, 'detail': detail, 'hex': data.hex(), 'on': who}, 'probe_hex': probe_b.hex(),
            'probe_on': probe_on, 'why': why}


# CoderState attribute -> field of the model's `Regs` (lean/BufrModel/Coder/Regs.lean; None: not carried by the model)
REGISTERS = [('nbits_offset', 'nbitsOffset'), ('scale_offset', 'scaleOffset'), ('nbits_of_new_refval', 'nbitsNewRefval'),
             ('new_refvals', 'newRefvals'), ('nbits_of_associated', 'assocStack'),
             ('nbits_of_skipped_local_descriptor', 'nbitsSkipped'), ('bsr_modifier', 'y207'), ('new_nbytes', 'newNbytes'),
             ('data_not_present_count', 'dnpCount'), ('status_qa_info_follows', 'qa'), ('bitmap_definition_state', 'bitmapDef'),
             ('n_031031', 'n031031'), ('bitmapped_descriptors', 'bitmapped'), ('next_bitmapped_descriptor', 'bmIter'),
             ('back_reference_boundary', 'backBoundary'), ('back_referenced_descriptors', 'backRefs'),
             ('bitmap', None), ('most_recent_bitmap_is_for_reuse', None)]


def coder_state_check():
    """The tie of `Regs.reset r = {}` (theorem C12_aborted_reset_assigns_every_register) to coder.CoderState: a new
    state, and a state with every register dirtied after `switch_subset_context`, hold the model's initial values; the
    mutable registers are objects of their own (what one state appends to is not what the next one starts with).
    -> list of problems (empty: fine)"""
    from pybufrkit import coder
    init = {'nbits_offset': 0, 'scale_offset': 0, 'nbits_of_new_refval': 0, 'new_refvals': {}, 'nbits_of_associated': [],
            'nbits_of_skipped_local_descriptor': 0, 'bsr_modifier': (0, 0, 1), 'new_nbytes': 0, 'data_not_present_count': 0,
            'status_qa_info_follows': coder.QA_INFO_NA, 'bitmap_definition_state': coder.BITMAP_NA, 'n_031031': 0,
            'bitmapped_descriptors': None, 'next_bitmapped_descriptor': None, 'back_reference_boundary': 0,
            'back_referenced_descriptors': None, 'bitmap': None, 'most_recent_bitmap_is_for_reuse': False}

    def differs(st):
        out = []
        for attr, field in REGISTERS:
            v = getattr(st, attr, 'ABSENT')
            if attr == 'bsr_modifier' and v != 'ABSENT':
                v = tuple(v)
            if v != init[attr]:
                out.append('%s (model: %s) is %r, initial value %r' % (attr, field, v, init[attr]))
        return out
    problems = []
    try:
        a = coder.CoderState(False, 1)
        problems += ['a new CoderState: ' + d for d in differs(a)]
        # what one state does to its mutable registers
        a.nbits_of_associated.append(4)
        a.new_refvals[1001] = 5
        b = coder.CoderState(True, 2)
        problems += ['a new CoderState after another one appended to its 204 stack / new reference values: ' + d for d in differs(b)]
        # every register dirty, then the start of the next subset
        for attr, _ in REGISTERS:
            setattr(a, attr, ('dirty', attr))
        a.switch_subset_context(0)
        problems += ['a dirtied CoderState after switch_subset_context: ' + d for d in differs(a)]
    except Exception as e:  # noqa
        problems.append('CoderState cannot be exercised: %s: %s' % (type(e).__name__, e))
    return problems


def coder_state_violation(ctx, problems, after):
    why = 'the registers of the coder state are not the initial ones %s: %s' % (after, '; '.join(problems[:3]))
    ctx.violation('correspondence: ' + why + ' (model: Regs.reset r = {}, theorem C12_aborted_reset_assigns_every_register)',
                  {'coder_state': problems, 'after': after},
                  signature={'stage': 'coder-state', 'registers': sorted(set(p.split(': ')[1].split(' ')[0] for p in problems))})


def make_decoder(which):
    from pybufrkit.decoder import Decoder
    return Decoder(compiled_template_cache_max=20) if which == 'compiled' else Decoder()


def probe_after_abort(ctx, abort, who, decs, probe_b, probe_on):
    """decode the valid message probe_b on decoder `probe_on` ('plain' | 'compiled' | 'new' | 'new-compiled') after the
    abort; -> True when it gives what the fresh process gave"""
    dec = decs[probe_on] if probe_on in decs else make_decoder('compiled' if probe_on == 'new-compiled' else 'plain')
    out, sb, dg, _, exc = decode_obs(dec, probe_b)
    want = REF[probe_b]['full']
    ctx.traces += 1
    ctx.count('aborted:probe:' + ('same-object' if probe_on == who else probe_on) + (':canary' if probe_b[:4] == b'BUFR' and probe_b in CANARY_SET else ''))
    if out == 'ok' and sb == probe_b and dg == want[2]:
        return True
    got = out if out != 'ok' else 'different values / descriptors / bytes'
    same = 'the same' if probe_on == who else ('a brand-new' if probe_on.startswith('new') else 'another')
    why = ('after a decode aborted by %s (%s) on the %s Decoder, a valid message decoded on %s %s Decoder gives %s; '
           'a fresh process decodes it' % (abort[0], abort[1], who, same, 'compiled' if 'compiled' in probe_on else 'plain', got))
    sig = {'stage': 'aborted-walk', 'abort': abort[0], 'abort_on': who, 'probe_on': 'same' if probe_on == who else probe_on,
           'got': out}
    if exc:
        sig.update(exc)
    ctx.violation('history: ' + why, aborted_replay(abort, who, probe_b, probe_on, why), signature=sig)
    return False


CANARY_IDS = [12001, 1015, 20003, 11002]
CANARY_SET = set()


def canaries():
    """two small valid messages whose FIRST descriptors are sensitive to every register a walk can leave behind: a numeric
    element of class 12 with a scale (221 would skip it, 201 / 202 / 207 change its width or scale, 203 reads it as a new
    reference value, 204 puts an associated field in front of it, 206 reads it as a skipped local descriptor), a character
    element (208), a code table, another numeric; one uncompressed, one compressed with two subsets and another edition.
    Built through the implementation's Encoder: call before anything damaged is decoded."""
    out = []
    for vals, comp, ed in (([[21.5, 'CANARY', 3, 4.5]], False, 4),
                           ([[21.5, 'CANARY', 3, 4.5], [22.5, 'CANARY', 3, 4.0]], True, 3)):
        st, b, _ = C.impl_encode(C.make_message_json(CANARY_IDS, vals, comp, edition=ed))
        if st == 'ok':
            out.append(b)
            CANARY_SET.add(b)
    return out


def run_aborted_walks(ctx, drv, treq, rng, pool, nmsgs, ncorpus, ncuts, canary):
    from pybufrkit.decoder import Decoder
    canary = [b for b in canary if not fresh_reference([b])]
    # generated messages whose template has operator scopes / bitmaps / replications, preferring distinct scope kinds
    cand = []
    for m in pool:
        if len(m.b) > 300 or len(m.ids) > 40:
            continue
        sc = set(x for s_ in walk_scopes(m.ids) for x in s_)
        if sc:
            cand.append((m, sc))
    rng.shuffle(cand)
    sel, covered = [], set()
    for _ in range(nmsgs):
        best = max(cand, key=lambda t: (len(t[1] - covered), -len(t[0].b)), default=None)
        if best is None:
            break
        cand.remove(best)
        covered |= best[1]
        sel.append((best[0].b, best[0].ids, treq, 'generated', best[0]))
    # sample files whose operators sit inside Table D sequences / that carry bitmaps (other table versions)
    names = ['uegabe.bufr', 'profiler_european.bufr', 'contrived.bufr', 'b005_89.bufr', '207003.bufr', 'amv2_87.bufr',
             'IUSK73_AMMC_182300.bufr', 'ISMD01_OKPR.bufr', 'jaso_214.bufr']
    rng.shuffle(names)
    used = 0
    for name in names:
        if used >= ncorpus:
            break
        path = os.path.join(core.REPO, 'tests', 'data', name)
        if not os.path.exists(path) or os.path.getsize(path) > 1200:
            continue
        raw = open(path, 'rb').read()
        b = raw[raw.find(b'BUFR'):]
        if fresh_reference([b]):
            continue
        b = b[:REF[b]['full'][1]]
        if fresh_reference([b]):
            continue
        wmo_sn, local_sn = tables_io.expected_sn(*tables_io.section1_values(b))
        treq2 = tables_io.tables_request(*tables_io.read_group(wmo_sn, local_sn))
        nsub, comp, ids = P.parse_section3(b)
        sel.append((b, ids, treq2, name, None))
        used += 1
    probes_other = [m.b for m in pool[:3]]
    decs = {'plain': Decoder(), 'compiled': Decoder(compiled_template_cache_max=20)}
    healthy = True
    state_ok = not os.environ.get('VERIF_C12_NO_STATE_CHECK')      # switched off by the mutation self-test only
    problems = coder_state_check() if state_ok else []
    ctx.count('aborted:coder-state-checks')
    if problems:
        state_ok = False
        coder_state_violation(ctx, problems, 'in a process that has not aborted any walk')
    model_reqs = {}
    impl_abort = []
    for b, ids, tq, label, m in sel:
        if not healthy:
            break
        scopes = walk_scopes(ids)
        pts = abort_points(rng, b, ids, ncuts)
        ctx.count('aborted:messages:' + ('generated' if m is not None else 'corpus'))
        for n_, (kind, detail, data) in enumerate(pts):
            for who in ('plain', 'compiled'):
                out, _, _, _, exc = decode_obs(decs[who], data)
                ctx.case({'aborted': data.hex()[:40] + '/%d' % len(data), 'kind': kind, 'detail': detail, 'on': who,
                          'label': label}, nontrivial=kind != 'stop', sample=False)
                ctx.traces += 1
                ctx.count('aborted:%s:%s' % (kind, out))
                if kind.startswith('undef'):
                    for s_ in (scopes[detail] or ['no-scope']):
                        ctx.count('aborted:undef-inside:' + s_)
                if out == 'err:other':
                    why = 'a message damaged by %s (%s) raises a non-library exception [%s in %s]' % (kind, detail, exc['exc'], exc['where'])
                    sig = {'stage': 'oracle', 'what': 'a non-library exception left the generator', 'kinds': [kind],
                           'fault_classes': [fault_class(kind) if kind != 'trunc' else 'truncation'], 'op': 'process', 'compiled': who == 'compiled'}
                    sig.update(exc)
                    ctx.violation('oracle: ' + why, aborted_replay((kind, detail, data), who, b, who, why), signature=sig)
                if out == 'timeout':
                    why = 'a message damaged by %s (%s) keeps Decoder.process spinning for more than %g s' % (kind, detail, SCAN_SECONDS)
                    ctx.violation('oracle: ' + why, aborted_replay((kind, detail, data), who, b, who, why),
                                  signature={'stage': 'oracle', 'what': 'the scan does not come back within %g s' % SCAN_SECONDS,
                                             'kinds': [kind], 'fault_classes': [fault_class(kind) if kind != 'trunc' else 'truncation']})
                elif who == 'plain':
                    impl_abort.append((tq, kind, detail, data, out, label))
                if state_ok:
                    problems = coder_state_check()
                    ctx.count('aborted:coder-state-checks')
                    if problems:
                        state_ok = False
                        coder_state_violation(ctx, problems, 'after a decode aborted by %s (%s) on the %s Decoder' % (kind, detail, who))
                # at once: the valid message on the same object, on the other one; now and then on brand-new ones and
                # another message
                todo = [(b, who), (b, 'compiled' if who == 'plain' else 'plain')]
                if canary:
                    # the canary first on even aborts (a register that runs down - 221, 206 - is used up by the first walk
                    # that meets it, visibly only when that walk starts with an element it applies to), last on odd ones
                    cn = (canary[(n_ // 2) % len(canary)], who)
                    todo = [cn] + todo if n_ % 2 == 0 else todo + [cn]
                if n_ % 4 == 0:
                    todo += [(b, 'new'), (b, 'new-compiled'), (rng.choice(probes_other), who)]
                for pb, on in todo:
                    if not probe_after_abort(ctx, (kind, detail, data), who, decs, pb, on):
                        healthy = False
                        break
                if not healthy:
                    break
            if not healthy:
                break       # everything that follows would repeat the same report
    # the aborted decodes themselves against the model's error family
    by_tq = {}
    for tq, kind, detail, data, out, label in impl_abort:
        by_tq.setdefault(id(tq), (tq, []))[1].append((kind, detail, data, out, label))
    for tq, lst in by_tq.values():
        res = drv.batch([tq] + [S.scan_req(data, False, False) for _, _, data, _, _ in lst])[1:]
        for (kind, detail, data, out, label), r in zip(lst, res):
            fam, consumed = model_of_process(r)
            if fam != out:
                w = 'message damaged by %s (%s): Decoder.process gives %s, model %s (%s)' % (kind, detail, out, fam, label)
                ctx.violation('correspondence: ' + w, aborted_replay((kind, detail, data), 'plain', data, 'plain', w),
                              signature={'stage': 'correspondence', 'op': 'aborted-walk', 'variant': kind, 'impl': out, 'model': fam})
    # at the end of the whole history of aborts: the long-lived decoders against the Lean coder model, value by value
    if healthy:
        for b, ids, tq, label, m in sel:
            nsub, comp, ids3 = P.parse_section3(b)
            r = drv.batch([tq, {'op': 'dec-data', 'ids': ids3, 'compressed': comp, 'n': nsub, 'bits': C.data_bits(b)}])[1]
            for who in ('plain', 'compiled'):
                out, sb, dg, subs, exc = decode_obs(decs[who], b)
                ctx.traces += 1
                ctx.count('aborted:final-model-comparison')
                d = P.compare_decode((out, subs, len(sb) if sb else None), r)
                if d:
                    w = 'after the history of aborted decodes the %s Decoder and the coder model differ on a valid message (%s): %s' % (who, label, d)
                    ctx.violation('correspondence: ' + w, aborted_replay(('none', 0, b), who, b, who, w),
                                  signature={'stage': 'correspondence', 'op': 'after-aborted-walks', 'compiled': who == 'compiled'})


# ---------------------------------------------------------------------------------------------
# (C) command line
def run_cli(ctx, drv, treq, rng, pool):
    tmp = tempfile.mkdtemp(prefix='verif_c12_', dir='/tmp')
    env = dict(os.environ, PYTHONPATH=core.REPO)
    try:
        m = pool[0]
        v = dict((k, b) for k, _, b in damage_variants(rng, m))
        good = pool[1].b
        runs = [
            ('decode', ['decode'], v['stop'], 0),
            ('decode-undef', ['decode'], v['undef-elem'], 0),
            ('decode-truncated', ['decode'], m.b[:len(m.b) - 9], 0),
            ('decode-m-stop', ['decode', '-m'], good + v['stop'] + good, None),
            ('decode-m-continue', ['decode', '-m', '--continue-on-error'], good + v['undef-seq'] + b'\r\r\n' + good, 2),
            ('info-no-signature', ['info'], b'no message here', 0),
            ('info-m-continue', ['info', '-m', '--continue-on-error'], good + v['stop'][:30] , None),
        ]
        # a declared section length below the section's fixed part, one random section per run
        secs = C.locate_sections(m.b)
        for name, args, nmsg in (('decode-m-short-section', ['decode', '-m'], None),
                                 ('decode-m-continue-short-section', ['decode', '-m', '--continue-on-error'], 2),
                                 ('info-m-short-section', ['info', '-m'], None)):
            i = rng.choice([k for k in (1, 2, 3, 4) if k in secs])
            short = with_length(m.b, secs[i][0], rng.randrange(0, fixed_octets(i, m.edition)))
            runs.append((name, args, good + short + good, nmsg))
        for name, args, data, nmsg in runs:
            ctx.case({'cli': name, 'args': args}, nontrivial=True)
            ctx.count('cli-runs')
            cli_one(ctx, tmp, env, name, args, data, nmsg)
    finally:
        shutil.rmtree(tmp, ignore_errors=True)


def cli_one(ctx, tmp, env, name, args, data, nmsg):
    path = os.path.join(tmp, name + '.bufr')
    with open(path, 'wb') as f:
        f.write(data)
    p = subprocess.run([sys.executable, '-m', 'pybufrkit'] + args + [path], stdout=subprocess.PIPE,
                       stderr=subprocess.PIPE, env=env, cwd=tmp, timeout=120)
    err = p.stderr.decode(errors='replace')
    outp = p.stdout.decode(errors='replace')
    bad = None
    if 'Traceback' in err or 'Traceback' in outp:
        bad = 'a traceback is printed'
    elif not err.strip():
        bad = 'nothing is reported on stderr'
    elif p.returncode not in (0, 1, 2):
        bad = 'exit status %d' % p.returncode
    elif nmsg is not None and outp.count('<<<<<< section 0 >>>>>>') != nmsg:
        bad = '%d messages printed, %d expected' % (outp.count('<<<<<< section 0 >>>>>>'), nmsg)
    if bad:
        ctx.violation('oracle: command line `pybufrkit %s` on a damaged file: %s (stderr %r)' % (' '.join(args), bad, err[-300:]),
                      {'cli': args, 'file_hex': data.hex(), 'name': name, 'expected_messages': nmsg},
                      signature={'stage': 'cli', 'run': name})
    return bad


def run(ctx):
    drv = ctx.driver
    ctx.rule = 'stream with at least one damaged and one undamaged message; every truncated message; every CLI run'
    treq = tables_io.group_request()
    quick = ctx.tier == 'quick'
    import time
    t0 = time.time()
    wall = []
    # every valid message of the run is generated (through the implementation's Encoder) BEFORE this process decodes
    # anything damaged: what a broken implementation leaves behind after a failed decode must not reach the generators
    rs, rt, rc = ctx.rng('streams'), ctx.rng('trunc'), ctx.rng('cli')
    pool_s = S.gen_messages(drv, rs, 60, needle_p=0.25)
    pool_t = truncation_pool(drv, rt, 32 if quick else 400)
    pool_c = [m for m in S.gen_messages(drv, rc, 20, needle_p=0.0) if len(m.b) <= 400]
    canary = canaries()
    if len(pool_s) < 8 or len(pool_t) < 8 or len(pool_c) < 2:
        raise core.MachineryError('message generation gives too few valid messages (%d, %d, %d)' % (len(pool_s), len(pool_t), len(pool_c)))

    def timed(name, f, *a):
        t = time.time()
        try:
            return f(*a)
        except core.MachineryError:
            raise
        except Exception:  # noqa
            # the harness itself stumbles over the implementation's behaviour.  When violations (with replays) have
            # been reported already this is one more symptom of the broken implementation, not a machinery problem
            if not ctx.violations:
                raise
            import traceback
            ctx.notes.append('part `%s` of the check was abandoned after violations had been reported: %s' % (
                name, traceback.format_exc().strip().split('\n')[-1][:200]))
            ctx.count('part-abandoned-after-violations:' + name)
        finally:
            wall.append('%s %.1fs' % (name, time.time() - t))
    pool, variants = timed('streams', run_streams, ctx, drv, treq, rs, 16 if quick else 160, pool_s) or (None, None)
    if pool is None:
        pool = [m for m in pool_s if len(m.b) <= 400]
        variants = {id(m): damage_variants(rs, m) for m in pool}
    timed('length sweep', run_length_sweep, ctx, drv, treq, ctx.rng('sweep'), pool, 6 if quick else 30)
    timed('aborted walks', run_aborted_walks, ctx, drv, treq, ctx.rng('aborted'), pool, 5 if quick else 30, 2 if quick else 6,
          24 if quick else 120, canary)
    timed('histories', run_histories, ctx, drv, treq, ctx.rng('history'), pool, variants, 240 if quick else 2400)
    timed('truncation', run_truncation, ctx, drv, treq, rt, pool_t, 4 if quick else 30)
    timed('cli', run_cli, ctx, drv, treq, rc, pool_c)
    # continue-on-error scans of streams with table definition messages (and a garbage piece) under filters (F25)
    timed('defstreams', DS.run, ctx, ctx.rng('defstreams'), 4 if quick else 40, (True,), True)
    # --- w5-c09cli (begin): good + damaged + good through pybufrkit.main(): decode -m -j [--continue-on-error] prints the undamaged
    # members (one notice per skipped member on stderr, no traceback), --ignore-value-expectation shows the message as it is
    from harness.props import c09cli
    timed('cli stream', c09cli.run_stream_glue, ctx, ('damaged',), 3 if quick else 30)
    # --- w5-c09cli (end)
    ctx.notes.append('wall: ' + ', '.join(wall))


def replay(ctx, path):
    with open(path) as f:
        body = json.load(f)
    rep = body['replay']
    if rep.get('defstream'):
        DS.replay(ctx, rep)
        return
    if rep.get('cli_stream'):   # w5-c09cli
        from harness.props import c09cli
        return c09cli.replay_stream_glue(ctx, rep)
    drv = ctx.driver
    treq = tables_io.group_request()
    if 'undischarged' in rep:
        print('replay: proof obligation; re-run ./check C12')
        return
    if 'cli' in rep:
        tmp = tempfile.mkdtemp(prefix='verif_c12_', dir='/tmp')
        try:
            bad = cli_one(ctx, tmp, dict(os.environ, PYTHONPATH=core.REPO), rep.get('name', 'replay'), rep['cli'],
                          bytes.fromhex(rep['file_hex']), rep.get('expected_messages'))
        finally:
            shutil.rmtree(tmp, ignore_errors=True)
        print('replay: pybufrkit %s -> %s' % (' '.join(rep['cli']), bad or 'library error reported without a traceback'))
        return
    if 'coder_state' in rep:
        problems = coder_state_check()
        print('replay: registers of a new / a reset CoderState:', problems or 'the initial values of the model')
        if problems:
            coder_state_violation(ctx, problems, 'in a fresh process')
        else:
            print('        (the recorded difference appeared %s)' % rep.get('after'))
        return
    if 'aborted' in rep:
        a = rep['aborted']
        data, pb = bytes.fromhex(a['hex']), bytes.fromhex(rep['probe_hex'])
        if fresh_reference([pb]):
            print('replay: the probe message does not decode in a fresh process:', REF[pb])
            return
        decs = {'plain': make_decoder('plain'), 'compiled': make_decoder('compiled')}
        out, _, _, _, exc = decode_obs(decs[a['on']], data)
        print('replay: %s Decoder, message damaged by %s (%s): %s %s' % (a['on'], a['kind'], a['detail'], out, exc or ''))
        if out == 'err:other':
            ctx.violation('oracle: a damaged message raises a non-library exception [%s in %s]' % (exc['exc'], exc['where']), rep,
                          signature=dict({'stage': 'oracle', 'what': 'a non-library exception left the generator',
                                          'kinds': [a['kind']], 'fault_classes': [fault_class(a['kind']) if a['kind'] != 'trunc' else 'truncation']}, **exc))
        ok = probe_after_abort(ctx, (a['kind'], a['detail'], data), a['on'], decs, pb, rep['probe_on'])
        print('        then the valid message on the %s Decoder: %s' % (rep['probe_on'], 'as in a fresh process' if ok else 'DIFFERENT from a fresh process'))
        return
    if 'probe' in rep:
        from pybufrkit.decoder import Decoder
        hist = [HOp.from_json(d) for d in rep['history']]
        fresh_reference([h.orig for h in hist + [HOp.from_json(rep['probe'])] if h.orig is not None])
        op = HOp.from_json(rep['probe'])
        shared = Decoder()
        for h in hist:
            o = run_op(shared, h)
            print('replay: history  %-28s %s -> %s' % (h.flags(), h.variant or (h.case and [d and d[0] for d in h.case.dmg]), o.brief()))
        got = run_op(shared, op)
        fresh = run_op(Decoder(), op)
        print('replay: probe    %-28s %s%s' % (op.flags(), op.variant or (op.case and [d and d[0] for d in op.case.dmg]),
                                              ', continue-on-error' if op.cont else ''))
        print('        on the Decoder with that history:', got.brief())
        print('        on a fresh Decoder:              ', fresh.brief())
        if not got.same(fresh):
            ctx.violation('history: the operation gives %s after the history, %s on a fresh Decoder' % (got.brief(), fresh.brief()),
                          rep, signature={'stage': 'history', 'op': op.flags(), 'shared': got.out, 'fresh': fresh.out})
            return
        r = None
        if op.kind != 'process-nosig' and got.out != 'timeout':
            r = drv.batch([treq, scan_model_req(op.case) if op.kind == 'scan' else S.scan_req(op.data, op.info_only, False, None, op.ignore)])[1]
            print('        model:', r)
        judge_op(ctx, op, got, r)
        return
    if 'message_hex' in rep and 'history' in rep:
        from pybufrkit.decoder import Decoder
        b = bytes.fromhex(rep['message_hex'])
        r = truncation_message(treq, b, rep.get('label', 'replay'), 0, rep.get('points'))
        for what, rep2, sig in r.get('violations', []):
            print('replay:', what)
            ctx.violation(what, rep2, signature=sig)
        if not r.get('violations'):
            print('replay: all prefixes, then the complete message on the same Decoder: as on a fresh one')
        return
    if 'message_hex' in rep:
        from pybufrkit.decoder import Decoder
        b = bytes.fromhex(rep['message_hex'])
        if 'cut' in rep:
            fam, _ = decode_family(Decoder(), b[:rep['cut']], rep.get('info_only', False))
            r = drv.batch([treq, S.scan_req(b[:rep['cut']], info_only=rep.get('info_only', False))])[1]
            print('replay: first %d of %d bytes: implementation %s, model %s' % (rep['cut'], len(b), fam, r))
            if fam in ('ok', 'err:other') and not rep.get('info_only'):
                ctx.violation('oracle: truncated message: %s' % fam, rep, signature={'stage': 'truncation'})
        else:
            t = bytes.fromhex(rep['trailing_hex'])
            fam, m = decode_family(Decoder(), b + t, rep.get('info_only', False))
            print('replay: with trailing bytes:', fam, m and len(m.serialized_bytes), 'of', len(b))
        return
    c = scase_from_replay(rep)
    fresh_reference([b for b, d in zip(c.cur, c.dmg) if d is None])
    digs = []
    items, out = scan_fresh(c, len(c.cur) + 4, digs)
    r = model_scans(drv, treq, [c], [out])[0]
    why, counters = oracle(c, items, out, digs)
    print('replay: damage', c.dmg, '(ignore_value_expectation=%s, filter=%s)' % (c.ignore, c.filt[0] if c.filt else None))
    print('        implementation', out, [len(x) for x in items])
    print('        model', (r['outcome'], r['items']) if r else 'not asked (the model mirrors the code: the driver would spin as well)')
    print('        oracle:', why or 'holds', counters)
    if why:
        ctx.violation('oracle: ' + why, rep, signature=signature(c, why))
    elif r is not None and (r['outcome'] != out or S.model_items(c.s, r) != items):
        ctx.violation('correspondence: model and implementation differ', rep, signature={'stage': 'correspondence'})
