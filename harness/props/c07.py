"""
C07 — bitmap-driven and associated attributes are linked to the element they qualify.

Theorems: lean/BufrModel/Props/C07.lean (what the walk records as a link, zero-bit selection, back
references = the last N plain items below the boundary, 225255 coding, associated field directly in
front of its owner).  Specification: lean/BufrModel/Spec/Links.lean (`Spec.links`, computed after the
fact from the flat item list + the times at which 235000 was processed).

Correspondence / oracle, per generated message:
  * implementation encode + decode vs model `enc-data` / `dec-data`: labels, values, links;
  * ORACLE: `Spec.links` (driver op `links-spec`) on the IMPLEMENTATION's own item list of every subset
    (of subset 0 when compressed: the bit-map is taken from subset 0) must equal
    `bitmap_links_all_subsets`; `Spec.complete` must hold when the decode succeeded;
  * hierarchical view: after `wire()`, node level (index_to_node is gone, so the tree is walked): the
    attributes of node j are exactly the linked items of j (ascending) preceded by its associated field;
    `NestedJsonRenderer().render(msg)`: the value nodes in document order are the flat items, each
    linked value re-appears (virtual) under exactly its owner, a 224255 value carries its 008023, a 225255
    value its 008024, an associated field its 031021 and sits on the element that follows it;
  * marker values (223255 / 224255 / 225255 / 232255), every subset: the marker descriptor must carry the id, width,
    scale and reference of the item its link names (225255: width + 1, reference -2^width);
  * difference statistics: when the template ends with 225255 markers the last fields of the (uncompressed,
    last) subset are cut out of the encoded bits with widths nbits(owner)+1 and the decoded value must be
    (raw - 2^nbits(owner)) / 10^scale(owner).

Streams: (a) exhaustive bit patterns on one base, (b) random chains on the base families, (c) `varying-structure`:
uncompressed messages of 2-4 subsets whose delayed replications in front of the operator have different factors per
subset -- chosen so that the subsets record the SAME number of items (the operator sits at the same flat position,
different elements precede it) -- with per-subset bit-maps and, for delayed bit-map replications, per-subset bit-map
lengths.  Coverage of that class is measured from the implementation (hook on build_bitmapped_descriptors, counters
`xsub-*` in the evidence) and never compared.  (d) `table-group-reuse` (run_xversion): one Decoder / compiling Decoder /
Encoder / compiling Encoder for the whole stream over families of harness/xversion.py - the same bit-map construct over an
element that two bundled table groups define differently (list derived from /repo/pybufrkit/tables, nothing by hand) -
decoded and encoded A, B, A; marker values against their owner and against the tables the message names, Spec.links, the
model under those tables, a fresh object (seeded/C07-4: marker descriptors cached on the coder object by element id).
"""
import json
import os

from harness import core, tables_io
from harness import coder_io as C
from harness import coderprops as P

PROP = 'C07'

META = dict(
    claimed=True,
    text='PROVED for all inputs (C07_links_eq_spec, Props/C07Spec.lean): for EVERY template satisfying the decidable '
         'predicate Spec.WFlinks (replications nested to any depth, sequences, every operator, 235000/236000/237000/237255 '
         'included; the bit-map operator and its definition -- 237000, or an optional 236000 and the replication of 031031 -- '
         'are consecutive members of one member list, 031031/236000/237000 nowhere else, no 203YYY definition / 206YYY / '
         '221YYY) and every bit string, if the decode of a subset succeeds and the reported items satisfy the decidable '
         'predicate Spec.markersOk, then links of the output = Spec.links (items of the output, cancel times of the run) '
         '-- soundness, the exact k-th zero-bit candidate of the governing bit-map definition, and completeness in one '
         'equation.  Spec.markersOk excludes exactly the two classes in which the code is known to deviate (open findings '
         'F-C07-marker-class33, F11-C07-links-marker); there the equality is FALSE and the negation is proved on concrete '
         'witnesses (C07_links_ne_spec_marker_class33, C07_links_ne_spec_assoc_marker).  Lifted to templates without 235YYY '
         '(cancels = [], C07_links_eq_spec_no235), to whole messages uncompressed (any number of subsets, '
         'C07_links_eq_spec_message, _message_no235) and compressed (C07_links_eq_spec_compressed: shared links = Spec.links '
         'of the first subset, whose values are the bit-maps the coder uses), and to the ENCODER '
         '(C07_encoder_links_eq_spec, _message, _compressed).  Route: Spec.links -- an after-the-fact recomputation with '
         'position look-ups -- is proved equal to a left fold over the items for ALL item lists and cancel times '
         '(Spec.linksFold_eq); the registers of the walk are tied to the state of that fold over the items recorded so far '
         '(C07.Core) and the tie is carried through every step and the mutual recursion over the template '
         '(C07.presG_walkL).  Also proved, for all states/templates: 225255 is coded with width+1 and reference -2^width; an '
         'associated field is recorded directly in front of its owner; what each operator does to the registers; every link '
         'points from a value to an earlier plain element in front of a bit-map operator for ANY template '
         '(C07_walk_invariant, C07_links_sound_*_partial, no well-formedness needed); the links of a subset of an '
         'uncompressed message are those of that subset alone (C07_links_independent_of_other_subsets, '
         'C07_links_of_subset_alone, C07_encoder_links_independent_of_other_subsets).  The tie to the code is the '
         'correspondence check: Spec.links is evaluated by the compiled model on the implementation\'s own item list of '
         'EVERY subset of every generated case (with the cancel times observed on the implementation) and compared with '
         'the implementation\'s bitmap_links and with the model walk; the evidence counts how many generated cases lie '
         'inside the hypotheses of the theorem (WFlinks template, markersOk items).'
         '  Re-use stream (C07-4, C13-2): ONE Decoder, one compiling Decoder, one Encoder and one compiling Encoder handle, one '
         'after the other (A, B, A), the members of families derived mechanically from the bundled tables (harness/xversion.py: '
         'the same bit-map construct - 222000 / 223255 / 224255 / 225255 / 232255, 237000 chains, associated fields - over an '
         'element that two table groups define differently); every result: Spec.links on its items, every marker value against '
         'its owner AND every plain element against the Table B entry of the group the message names, the coder model under '
         'those tables, and a fresh object.',
    technique='Lean 4 theorems (specification shown to be a left fold by an invariant over item prefixes; refinement '
              'invariant between the registers of the walk and the fold state, carried through the mutual structural '
              'recursion of the walk with a ghost list of cancel times; negations by kernel evaluation) + executable '
              'specification evaluated on the implementation\'s output + checked model/implementation correspondence',
    note='C07_links_eq_spec is proved under Spec.WFlinks (template) and Spec.markersOk (items); outside markersOk the '
         'equality is refuted on witnesses (open findings).  Templates outside WFlinks (bit-map operator and its 031031 '
         'replication in different member lists, stray 031031/236000/237000, 203/206/221 in force) are covered by the '
         'soundness half and by correspondence only; see notes/C07.md.',
)

KINDS = (222, 223, 224, 225, 232)
# self-test switch: skip the model-vs-implementation comparisons so that only the oracle (Spec.links on the
# implementation's items, the view checks, the raw-bit check of 225255) can report (notes/C07_mutations.py --oracle)
ORACLE_ONLY = bool(os.environ.get('VERIF_C07_ORACLE_ONLY'))

# --------------------------------------------------------------------------------------------------
# instrumentation: the times at which 235000 was processed (it records no item)
_CANCELS = []
# coverage only (never compared): every backward scan for back referenced descriptors as
# (subset, boundary, bits, back references as (index, label))
_BUILDS = []


def install_hooks():
    from pybufrkit import coder
    if getattr(coder.CoderState, '_verif_c07', False):
        return
    orig = coder.CoderState.cancel_all_back_references

    def wrapped(self):
        _CANCELS.append((self.idx_subset, len(self.decoded_descriptors)))
        return orig(self)
    coder.CoderState.cancel_all_back_references = wrapped
    orig_build = coder.CoderState.build_bitmapped_descriptors

    def wrapped_build(self, bitmap):
        scan = not self.back_referenced_descriptors     # the backward scan is done by this call
        try:
            return orig_build(self, bitmap)
        finally:
            try:
                if scan:
                    _BUILDS.append((self.idx_subset, self.back_reference_boundary, tuple(bitmap),
                                tuple((i, str(d)) for i, d in (self.back_referenced_descriptors or []))))
            except Exception:  # noqa
                pass
    coder.CoderState.build_bitmapped_descriptors = wrapped_build
    coder.CoderState._verif_c07 = True


def cross_subset_class(builds):
    """coverage classification of one uncompressed message from the recorded builds:
    -> (same, differ, sensitive): some two subsets build their back references with the same (boundary, number
    of bits) [same]; ... and the referenced (index, element) lists differ [differ]; ... and the later subset
    has a zero bit on a position where they differ [sensitive: a value of that subset is linked to / decoded
    as a different element than anything remembered from the earlier subset would give]"""
    same = differ = sensitive = False
    seen = {}
    for sub, boundary, bits, refs in builds:
        key = (boundary, len(bits))
        for sub0, refs0 in seen.get(key, []):
            if sub0 == sub:
                continue
            same = True
            if refs0 != refs:
                differ = True
                if any(b == 0 and (k >= len(refs0) or refs0[k] != r) for k, (b, r) in enumerate(zip(bits, refs))):
                    sensitive = True
        seen.setdefault(key, []).append((sub, refs))
    return same, differ, sensitive


# --------------------------------------------------------------------------------------------------
# generator
class Gen(object):
    def __init__(self, rng):
        self.rng = rng
        self.tg = C.TemplateGen(rng, level=1)
        tg = self.tg
        self.q33 = tg.class33
        self.num_small = [i for i in tg.numeric if tg.b[i][4] <= 16]
        self.exotic = False

    # -- base templates -----------------------------------------------------------------------------
    def base(self, family):
        rng, tg = self.rng, self.tg
        ep = tg.element_plain
        if family == 'plain':
            return [ep() for _ in range(rng.randint(2, 9))]
        if family == 'seq':
            return [ep() for _ in range(rng.randint(0, 2))] + [[rng.choice(tg.small_seq)]] + [ep() for _ in range(rng.randint(0, 3))]
        if family == 'nested':
            inner = ep() + ep()
            mid = ep() + [100000 + len(inner) * 1000, 31001] + inner
            rep = [100000 + len(mid) * 1000 + rng.randint(1, 3)] + mid
            return [ep() for _ in range(rng.randint(0, 2))] + [rep] + [ep() for _ in range(rng.randint(0, 2))]
        if family == 'delayed':
            body = [i for _ in range(rng.randint(1, 3)) for i in ep()]
            return [ep() for _ in range(rng.randint(0, 2))] + [[100000 + len(body) * 1000, 31001] + body] + [ep() for _ in range(rng.randint(1, 2))]
        if family == 'assoc':
            body = [i for _ in range(rng.randint(1, 3)) for i in ep()]
            return [ep() for _ in range(rng.randint(0, 2))] + [[204000 + rng.randint(1, 8), 31021] + body + [204000]] + [ep() for _ in range(rng.randint(0, 2))]
        if family == 'assoc-ops':
            # an associated field in force over a 203YYY definition / a 206YYY skipped (known) element (DESIGN F11)
            body = list(ep())
            if rng.random() < 0.5:
                els = sorted(set(tg.some_numeric(rng.randint(1, 2))))
                body += [203000 + rng.randint(2, 12)] + els + [203255] + els + [203000]
            else:
                body += [206000 + rng.randint(1, 24), rng.choice([1001, 2001, 2001, 63255])]
            body += ep()
            return [ep() for _ in range(rng.randint(0, 2))] + [[204000 + rng.randint(1, 8), 31021] + body + [204000]] + [ep() for _ in range(rng.randint(1, 2))]
        if family == 'ops':
            return [tg.item(0) for _ in range(rng.randint(1, 5))] + [ep() for _ in range(rng.randint(0, 2))]
        if family == 'long':
            body = [i for _ in range(rng.randint(3, 5)) for i in ep()]
            return [[100000 + len(body) * 1000 + rng.randint(8, 12)] + body] + [ep() for _ in range(rng.randint(0, 3))]
        raise AssertionError(family)

    # -- bases whose STRUCTURE differs between the subsets of an uncompressed message --------------------
    # A base is a list of top-level nodes:
    #   ('e', id)                      plain element: one item, a candidate for back reference
    #   ('x', ids, tags)               a construct that records the items `tags` per walk (an element id = a plain
    #                                  item of that element, a string starting with 'x' = an item that is no candidate:
    #                                  205YYY character field, 206YYY skipped descriptor, associated field)
    #   ('d', factor id, [nodes])      delayed replication;   ('f', count, [nodes])   fixed replication
    def vary_body_item(self, depth):
        rng, tg = self.rng, self.tg
        r = rng.random()
        if r < 0.42:
            return ('e', tg.element_plain()[0])
        if r < 0.54:
            return ('x', [205000 + rng.randint(1, 4)], ['x205'])
        if r < 0.60 and self.exotic:
            return ('x', [206000 + rng.randint(1, 24), rng.choice([63255, 48001, 63001])], ['xS'])
        if r < 0.68:
            els = [tg.element_plain()[0] for _ in range(rng.randint(1, 2))]
            tags = [31021]
            for e in els:
                tags += ['xA', e]
            return ('x', [204000 + rng.randint(1, 6), 31021] + els + [204000], tags)
        if r < 0.73 and self.exotic:
            els = [tg.element_plain()[0] for _ in range(rng.randint(1, 3))]
            return ('x', [221000 + len(els)] + els, [e for e in els if 1 <= e // 1000 <= 9 or e // 1000 == 31])
        if r < 0.78:
            e = rng.choice(self.num_small)
            return ('x', rng.choice([[201000 + rng.choice([126, 129, 130]), e, 201000], [202000 + rng.choice([127, 129]), e, 202000]]), [e])
        if depth < 2 and r < 0.90:
            return self.vary_rep(depth + 1, delayed=True)
        if depth < 2:
            return self.vary_rep(depth + 1, delayed=False)
        return ('e', tg.element_plain()[0])

    def vary_rep(self, depth, delayed):
        rng = self.rng
        kids = [self.vary_body_item(depth) for _ in range(rng.choice([1, 1, 2, 2, 3]))]
        if not delayed and not any(self.has_delayed(k) for k in kids):
            kids.append(self.vary_rep(depth + 1, delayed=True) if depth < 3 else ('e', self.tg.element_plain()[0]))
        if delayed:
            return ('d', rng.choice([31001, 31001, 31001, 31000]), kids)
        return ('f', rng.randint(2, 3), kids)

    def has_delayed(self, node):
        return node[0] == 'd' or (node[0] == 'f' and any(self.has_delayed(k) for k in node[2]))

    def node_ids(self, node):
        if node[0] == 'e':
            return [node[1]]
        if node[0] == 'x':
            return list(node[1])
        inner = [i for k in node[2] for i in self.node_ids(k)]
        if len(inner) > 63:
            raise ValueError('replication too long')
        if node[0] == 'd':
            return [100000 + len(inner) * 1000, node[1]] + inner
        return [100000 + len(inner) * 1000 + node[1]] + inner

    def expand(self, nodes, factors, hi):
        """one walk of `nodes` with freshly drawn replication factors (appended to `factors` as (id, value) in the
        order the walk meets them) -> the tags of the recorded items"""
        rng = self.rng
        out = []
        for nd in nodes:
            if nd[0] == 'e':
                out.append(nd[1])
            elif nd[0] == 'x':
                out.extend(nd[2])
            elif nd[0] == 'f':
                for _ in range(nd[1]):
                    out.extend(self.expand(nd[2], factors, hi))
            else:
                c = rng.randint(0, 1) if nd[1] == 31000 else rng.randint(0, hi)
                factors.append((nd[1], c))
                out.append(nd[1])
                for _ in range(c):
                    out.extend(self.expand(nd[2], factors, hi))
        return out

    def vary(self, n, comp):
        """-> (proto for make_cases, description).  Two to four replication blocks with delayed factors, fixed items
        between them; the factors of every subset are imposed.  Preferred choice: factors that differ between the
        subsets but give the same number of recorded items, so that whatever follows the base (the bit-map
        operator) sits at the same flat position in subsets of different structure."""
        rng, tg = self.rng, self.tg
        # 206YYY / 221YYY put a template outside Spec.WFbitmap (harmless in front of the first operator): one case in four
        self.exotic = rng.random() < 0.25
        for _ in range(50):
            nodes = [('e', tg.element_plain()[0]) for _ in range(rng.randint(0, 2))]
            nblocks = rng.choice([1, 2, 2, 2, 3, 3, 4])
            for b in range(nblocks):
                nodes.append(self.vary_rep(1, delayed=rng.random() < 0.8))
                if rng.random() < 0.35:
                    r = rng.random()
                    if r < 0.5:
                        nodes.append(('e', tg.element_plain()[0]))
                    elif r < 0.7:
                        nodes.append(('x', [205000 + rng.randint(1, 3)], ['x205']))
                    elif r < 0.85:
                        nodes.append(('x', [rng.choice(tg.small_seq)], None))       # same items in every subset
                    elif self.exotic:
                        nodes.append(('x', tg.operator_construct(0), None))
            for _ in range(rng.choice([0, 0, 1, 1, 2])):
                nodes.append(('e', tg.element_plain()[0]))
            try:
                parts = [self.node_ids(nd) for nd in nodes]
            except ValueError:
                continue
            break
        else:
            raise core.MachineryError('no varying base')
        reps = [nd for nd in nodes if nd[0] in 'df']
        # the items of the constructs with unknown tags are the same in every subset: a place holder is enough
        known = [nd if (nd[0] != 'x' or nd[2] is not None) else ('x', nd[1], ['x?%d' % k]) for k, nd in enumerate(nodes)]
        hi = rng.choice([2, 3, 3, 4])
        mode = 'same-structure' if comp else rng.choice(['compensating'] * 8 + ['free', 'free'])
        draws = []
        for _ in range(1 if comp else 80):
            fs = []
            tags = self.expand(known, fs, hi)
            draws.append((tags, fs))
        chosen = None
        if mode == 'compensating':
            groups = {}
            for tags, fs in draws:
                g = groups.setdefault(len(tags), [])
                if all(tags != t for t, _ in g):
                    g.append((tags, fs))
            multi = [g for g in groups.values() if len(g) >= 2]
            if multi:
                g = rng.choice(multi)
                rng.shuffle(g)
                chosen = [g[k % len(g)] for k in range(n)]
                if len(g) < n:
                    rng.shuffle(chosen)
            else:
                mode = 'free'
        if chosen is None:
            chosen = [draws[0]] if comp else [rng.choice(draws) for _ in range(n)]
        bf = {31001: [], 31000: []}
        for tags, fs in chosen:
            for fid, v in fs:
                bf[fid].append(v)
        meta = {'mode': mode, 'blocks': len(reps), 'same_length': len(set(len(t) for t, _ in chosen)) == 1,
                'distinct_structures': len(set(tuple(t) for t, _ in chosen))}
        proto = {'parts': parts, 'n': n, 'comp': comp, 'rnd': C.rnd_bits(rng, 9000), 'bf': bf}
        return proto, meta

    # -- one chain of operators -----------------------------------------------------------------------
    def chain(self, P0, n, comp, steps=None, nmax=8, first_bits=None, first_kind=None, simple=False, vary_n=False):
        """-> (ids of the construct, forced dict id -> per-subset lists, description)
        P0 = number of plain items of the base (minimum over subsets)
        vary_n: uncompressed subsets may define bit-maps of different lengths (delayed replication of 031031)"""
        rng = self.rng
        nsub_f = 1 if comp else n
        ids = []
        f31002 = [[] for _ in range(nsub_f)]
        f31031 = [[] for _ in range(nsub_f)]
        desc = []
        steps = steps or rng.choice([1, 1, 2, 2, 3])
        emitted = 0            # plain items recorded by the constructs so far (subset independent lower bound)
        cur = None             # current definition: dict(N, bits per subset, flexible)
        established = None     # N of the back references in force
        ends_with_225 = False
        for k in range(steps):
            kind = first_kind if (k == 0 and first_kind) else rng.choice(KINDS)
            recall = cur is not None and not simple and rng.random() < (0.5 if (cur['reuse'] and not cur.get('cancelled')) else 0.12)
            pre235 = cur is not None and not recall and not simple and rng.random() < 0.35
            if pre235:
                ids.append(235000)
                established = None
            ids.append(kind * 1000)
            d = {'kind': kind}
            if recall:
                ids.append(237000)
                d['mode'] = 'recall'
                d['reusable'] = cur['reuse']
            else:
                reuse = (not simple) and rng.random() < 0.5
                if reuse:
                    ids.append(236000)
                if established is None:
                    lim = min(P0 + emitted, nmax)
                    N = len(first_bits) if (k == 0 and first_bits is not None) else rng.randint(1, max(1, lim))
                    Ns = [N] * nsub_f
                    if vary_n and nsub_f > 1 and not (k == 0 and first_bits is not None) and rng.random() < 0.6:
                        Ns = [N] + [rng.randint(1, max(1, lim)) for _ in range(nsub_f - 1)]
                else:
                    Ns = established
                    N = Ns[0]
                bits0 = list(first_bits) if (k == 0 and first_bits is not None) else [rng.randint(0, 1) if rng.random() < 0.8 else 0 for _ in range(N)]
                cur = {'N': N, 'Ns': Ns, 'bits': [bits0] + [None] * (nsub_f - 1), 'reuse': reuse, 'rigid': False, 'steps': []}
                established = Ns
                bitrep = 'fixed' if (N > 255 or rng.random() < 0.5) else 'delayed'
                if len(set(Ns)) > 1:
                    bitrep = 'delayed'          # the length is data: only a delayed replication can differ per subset
                if N > 255:
                    raise AssertionError
                if bitrep == 'fixed':
                    ids += [101000 + N, 31031]
                else:
                    ids += [101000, 31002, 31031]
                    emitted += 1
                d.update(mode='define', N=N, reuse=reuse, bitrep=bitrep)
                if len(set(Ns)) > 1:
                    d['lengths'] = list(Ns)
                cur['bitrep'] = bitrep
                cur['slot'] = [len(f31031[s]) for s in range(nsub_f)]
                for s in range(nsub_f):
                    if bitrep == 'delayed':
                        f31002[s].append(Ns[s])
                    f31031[s].append(None)      # placeholder, filled below
                emitted += min(Ns)
            zeros0 = cur['bits'][0].count(0)
            if kind == 224:
                ids.append(8023)
                emitted += 1
            elif kind == 225:
                ids.append(8024)
                emitted += 1
            # consumers
            what = rng.choice(self.q33) if kind == 222 else kind * 1000 + 255
            r = rng.random()
            ncons = zeros0
            early = (not simple) and zeros0 > 1 and rng.random() < 0.15
            if early:
                ncons = rng.randint(0, zeros0 - 1)
            elif recall and cur.get('left') and rng.random() < 0.6:
                # a recall after a run that stopped early: take at most what an iterator that was NOT restarted
                # would still hold (so that only the owners tell a restart from a continuation)
                ncons = rng.randint(1, cur['left'])
                early = ncons < zeros0
            if zeros0 > min(cur['Ns']):
                # lengths differ per subset and some subset cannot hold this many zero bits: the number of
                # consumers has to be data as well
                ncons, early = zeros0, False
            if ncons == 0 and not early:
                mode = 'none'
            elif (r < 0.4 and ncons == zeros0) or zeros0 > min(cur['Ns']):
                mode = 'delayed'
            elif r < 0.75 or ncons > 4:
                mode = 'fixed'
            else:
                mode = 'unrolled'
            if mode == 'delayed':
                ids += [101000, 31002, what]
                emitted += 1
            elif mode == 'fixed':
                if ncons:
                    ids += [101000 + ncons, what]
                cur['rigid'] = True
            elif mode == 'unrolled':
                ids += [what] * ncons
                cur['rigid'] = True
            else:
                cur['rigid'] = True
            cur['steps'].append((mode, len(desc)))
            cur['left'] = zeros0 - ncons
            d.update(consumers=mode, ncons=ncons, early=early)
            d['_cons_slot'] = [len(f31002[s]) for s in range(nsub_f)] if mode == 'delayed' else None
            if mode == 'delayed':
                for s in range(nsub_f):
                    f31002[s].append(None)
            d['_def'] = cur
            desc.append(d)
            if kind == 222 and mode != 'delayed' and ncons:
                emitted += ncons
            if cur['reuse'] and not simple and rng.random() < 0.2:
                ids.append(237255)
                d['post237255'] = True
                cur['cancelled'] = True
            ends_with_225 = kind == 225 and mode in ('fixed', 'unrolled', 'delayed') and not d.get('post237255')
        if not simple and rng.random() < 0.15:
            ids.append(235000)
            ends_with_225 = False
        # per-subset bit patterns: a permutation of subset 0's bits when some consumer run has a fixed count,
        # a fresh pattern otherwise
        seen = []
        for d in desc:
            cur = d['_def']
            if any(cur is x for x in seen):
                continue
            seen.append(cur)
            for s in range(1, nsub_f):
                b = list(cur['bits'][0])
                if cur['Ns'][s] != len(b):
                    z = b.count(0)
                    if cur['rigid']:
                        if z > cur['Ns'][s]:
                            raise AssertionError('fixed number of consumers with too short a bit-map')
                        b = [0] * z + [1] * (cur['Ns'][s] - z)
                        rng.shuffle(b)
                    else:
                        b = [rng.randint(0, 1) for _ in range(cur['Ns'][s])]
                elif cur['rigid']:
                    rng.shuffle(b)
                else:
                    b = [rng.randint(0, 1) for _ in b]
                cur['bits'][s] = b
            for s in range(nsub_f):
                f31031[s][cur['slot'][s]] = cur['bits'][s]
        for d in desc:
            if d['_cons_slot'] is not None:
                for s in range(nsub_f):
                    f31002[s][d['_cons_slot'][s]] = d['_def']['bits'][s].count(0)
        forced = {31002: [v for s in range(nsub_f) for v in f31002[s]],
                  31031: [v for s in range(nsub_f) for bl in f31031[s] for v in bl]}
        info = [{k: v for k, v in d.items() if not k.startswith('_')} for d in desc]
        for d, i in zip(desc, info):
            i['bits0'] = ''.join(map(str, d['_def']['bits'][0]))
        return ids, forced, info, ends_with_225


class C7Case(P.Case):
    __slots__ = ('info', 'family', 'ends225', 'base_len', 'stream', 'rnd', 'P0', 'assoc_open', 'vmeta')


FAMILIES = ('plain', 'seq', 'nested', 'delayed', 'assoc', 'ops', 'long', 'assoc-ops')


def base_forced(rng):
    return {31001: [rng.randint(0, 3) for _ in range(300)], 31000: [rng.randint(0, 1) for _ in range(300)]}


def count_plain(labels):
    return sum(1 for l in labels if l[0].isdigit() and int(l) < 100000)


def measure_bases(drv, treq, protos):
    """protos: list of dict(parts, n, comp, rnd, bf).  Adds 'P0' (plain items of the base, min over subsets) or None."""
    reqs = [treq]
    todo = [p for p in protos if 'P0' not in p]
    for p in todo:
        ids = [i for part in p['parts'] for i in part]
        reqs.append({'op': 'gen-data', 'ids': ids, 'n': p['n'], 'shared': p['comp'], 'rnd': p['rnd'],
                     'force': [[k, v] for k, v in sorted(p['bf'].items())]})
    res = drv.batch(reqs)[1:]
    reqs = [treq]
    idx = []
    protos = todo
    for k, (p, r) in enumerate(zip(protos, res)):
        p['P0'] = None
        if 'err' in r:
            continue
        ids = [i for part in p['parts'] for i in part]
        reqs.append({'op': 'enc-data', 'ids': ids, 'compressed': p['comp'], 'vals': r['vals']})
        idx.append(k)
    res = drv.batch(reqs)[1:]
    for k, r in zip(idx, res):
        if 'err' in r:
            continue
        protos[k]['P0'] = min(count_plain(s['d']) for s in r['subsets'])


def make_cases(drv, treq, rng, plans):
    """plans: list of dict(family, n, comp, and chain keyword arguments) -> list of C7Case with values"""
    g = Gen(rng)
    protos = []
    for pl in plans:
        if 'proto' in pl:
            q = dict(pl['proto'])
            q['plan'] = pl
            protos.append(q)
            continue
        parts = g.base(pl['family'])
        for _ in range(pl.get('extra_plain', 0)):
            parts.append(g.tg.element_plain())
        if pl.get('assoc_open'):
            # an associated field in force over the whole construct (closed at the very end)
            parts = parts + [[204000 + rng.randint(1, 6), 31021]]
        protos.append({'parts': parts, 'n': pl['n'], 'comp': pl['comp'], 'rnd': C.rnd_bits(rng, 9000), 'bf': base_forced(rng), 'plan': pl})
    measure_bases(drv, treq, protos)
    cases = []
    for k, p in enumerate(protos):
        pl = p['plan']
        if not p['P0']:
            continue
        kw = {x: pl[x] for x in ('steps', 'nmax', 'first_bits', 'first_kind', 'simple', 'vary_n') if x in pl}
        if 'first_bits' in kw and len(kw['first_bits']) > p['P0']:
            continue
        ids, forced, info, ends225 = g.chain(p['P0'], p['n'], p['comp'], **kw)
        parts = list(p['parts']) + [ids]
        if pl.get('assoc_open'):
            parts.append([204000])
            ends225 = False
        elif rng.random() < 0.25 and not pl.get('simple'):
            parts.append(g.tg.element_plain())
            ends225 = False
        f = dict(p['bf'])
        f.update(forced)
        c = C7Case(parts, [[kk, v] for kk, v in sorted(f.items())], p['n'], p['comp'], pl.get('edition', 4), k)
        c.info, c.family, c.ends225, c.base_len, c.stream, c.rnd, c.P0 = info, pl['family'], ends225, len(p['parts']), pl.get('stream', 'random'), p['rnd'], p['P0']
        c.assoc_open = bool(pl.get('assoc_open'))
        c.vmeta = pl.get('vmeta')
        cases.append(c)
    # values
    reqs = [treq]
    for c in cases:
        reqs.append({'op': 'gen-data', 'ids': c.ids, 'n': c.n, 'shared': c.comp, 'rnd': c.rnd, 'force': c.forced})
    res = drv.batch(reqs)[1:]
    out = []
    for c, r in zip(cases, res):
        if 'err' in r:
            c.note = 'gen:' + r['err']
            continue
        c.valss = r['vals']
        out.append(c)
    # compressed, several subsets: the generator copies the bit-map of subset 0 into every subset; permute the
    # bits of the later subsets (the coder must take the bit-map from subset 0, whatever the others hold)
    todo = [c for c in out if c.comp and c.n >= 2 and rng.random() < 0.6]
    if todo:
        reqs = [treq] + [{'op': 'enc-data', 'ids': c.ids, 'compressed': True, 'vals': c.valss} for c in todo]
        for c, r in zip(todo, drv.batch(reqs)[1:]):
            if 'err' in r:
                continue
            lab = r['subsets'][0]['d']
            k = 0
            while k < len(lab):
                if lab[k] == '031031':
                    e = k
                    while e < len(lab) and lab[e] == '031031':
                        e += 1
                    for sidx in range(1, c.n):
                        seg = c.valss[sidx][k:e]
                        rng.shuffle(seg)
                        c.valss[sidx][k:e] = seg
                    k = e
                else:
                    k += 1
            c.note = 'bitmaps-differ-across-compressed-subsets'
    return out


# --------------------------------------------------------------------------------------------------
# implementation observations
def impl_decode_full(b, decoder=None):
    """-> dict(status, subsets[{d,v,l,cancels}], wire=..., nested=...); `decoder`: the Decoder object to use (a new one
    when None)"""
    from pybufrkit.decoder import Decoder
    install_hooks()
    del _CANCELS[:]
    del _BUILDS[:]
    out = {}
    try:
        msg = (decoder or Decoder()).process(b, wire_template_data=False)
    except Exception as e:  # noqa
        return {'status': core.err_tag(e)}
    td = msg.template_data.value
    subs = []
    for i in range(msg.n_subsets.value):
        subs.append({'d': [str(d) for d in td.decoded_descriptors_all_subsets[i]],
                     'v': list(td.decoded_values_all_subsets[i]),
                     'l': sorted([a, o] for a, o in td.bitmap_links_all_subsets[i].items()),
                     'cancels': sorted(t for s, t in _CANCELS if s == i) if not td.is_compressed else sorted(t for s, t in _CANCELS),
                     'elems': [(getattr(d, 'nbits', None), getattr(d, 'scale', None), getattr(d, 'refval', None), getattr(d, 'unit', None)) for d in td.decoded_descriptors_all_subsets[i]]})
    out['status'] = 'ok'
    out['subsets'] = subs
    out['xsub'] = cross_subset_class(list(_BUILDS)) if not td.is_compressed else (False, False, False)
    out['compressed'] = bool(td.is_compressed)
    # hierarchical view
    try:
        msg.wire()
        from pybufrkit.renderer import NestedJsonRenderer
        nested = NestedJsonRenderer().render(msg)
        out['nodes'] = [flatten_nodes(td.decoded_nodes_all_subsets[i]) for i in range(msg.n_subsets.value)]
        out['nested'] = [x['value'] for sec in nested for x in sec if x['name'] == 'template_data'][0]
        out['wire'] = 'ok'
    except Exception as e:  # noqa
        out['wire'] = '%s: %s' % (type(e).__name__, str(e)[:80])
        out['wire_tag'] = core.err_tag(e)
    return out


def flatten_nodes(nodes):
    """wired node tree -> {index: [attribute indices in order]} and the list of indices in tree order"""
    from pybufrkit.templatedata import NoValueDataNode, DelayedReplicationNode
    attrs = {}
    order = []
    kinds = {}

    def visit_value(node):
        kinds[node.index] = type(node).__name__
        for a in getattr(node, 'attributes', []):
            attrs.setdefault(node.index, []).append(a.index)
            if type(a).__name__ == 'AssociatedFieldNode':
                order.append(a.index)
                kinds[a.index] = 'AssociatedFieldNode'
                for aa in getattr(a, 'attributes', []):
                    attrs.setdefault(a.index, []).append(aa.index)
            else:
                for aa in getattr(a, 'attributes', []):
                    if aa.index not in attrs.get(a.index, []):
                        pass
        order.append(node.index)

    def walk(ns):
        for nd in ns:
            if isinstance(nd, NoValueDataNode):
                if isinstance(nd, DelayedReplicationNode):
                    visit_value(nd.factor)
                if hasattr(nd, 'members'):
                    walk(nd.members)
            else:
                visit_value(nd)
    walk(nodes)
    # meaning attributes of attribute nodes (F / D nodes are in the main list, so visited above)
    return {'attrs': attrs, 'order': order, 'kinds': kinds}


def json_order(nodes, out):
    """value nodes of the rendered nested JSON in document order (associated field before its owner)"""
    for n in nodes:
        if 'value' in n:
            json_value(n, out)
        else:
            if 'factor' in n:
                json_value(n['factor'], out)
            ms = n.get('members')
            if ms is not None:
                if ms and isinstance(ms[0], list):
                    for m in ms:
                        json_order(m, out)
                else:
                    json_order(ms, out)


def json_value(n, out):
    for a in n.get('attributes', []):
        if a['id'].startswith('A'):
            out.append(a)
    out.append(n)


def same_json_value(jv, v):
    return jv == v or (isinstance(jv, float) and isinstance(v, float) and jv != jv and v != v)


def check_view(sub, spec_links, nodes, nested):
    """the hierarchical view of one subset against the links; -> description of the first discrepancy or None"""
    d, v = sub['d'], sub['v']
    n = len(d)
    want = {}
    for a, o in spec_links:
        want.setdefault(o, []).append(a)
    for i, lab in enumerate(d):
        if lab.startswith('A') and i + 1 < n:
            want.setdefault(i + 1, []).insert(0, i)
    meaning = {}       # index of a marker value -> index of its meaning element
    last8023 = last8024 = None
    last31021 = None
    wait23 = wait24 = False
    assoc_on = False
    for i, lab in enumerate(d):
        if lab == '224000':
            wait23 = True
        elif lab == '225000':
            wait24 = True
        elif lab == '008023' and wait23:
            last8023, wait23 = i, False
        elif lab == '008024' and wait24:
            last8024, wait24 = i, False
        elif lab == '031021':
            last31021 = i
        elif lab.startswith('F'):
            meaning[i] = last8023
        elif lab.startswith('D'):
            meaning[i] = last8024
        elif lab.startswith('A'):
            meaning[i] = last31021
    # node level
    if sorted(nodes['order']) != list(range(n)) or nodes['order'] != sorted(nodes['order']):
        return 'wired tree does not hold every item exactly once in order (%d nodes for %d items)' % (len(nodes['order']), n)
    for j in range(n):
        got = list(nodes['attrs'].get(j, []))
        exp = list(want.get(j, []))
        lab = d[j]
        if lab[0] in 'FDA' and meaning.get(j) is not None:
            exp = [meaning[j]] + exp
        if got != exp:
            return 'node %d (%s): attributes are items %s, expected %s' % (j, lab, got, exp)
    # rendered JSON
    flat = []
    json_order(nested, flat)
    if [x['id'] for x in flat] != d:
        k = next((k for k, (x, y) in enumerate(zip([x['id'] for x in flat], d)) if x != y), min(len(flat), n))
        return 'nested JSON: value nodes in document order differ from the flat items at %d' % k
    for j, nd in enumerate(flat):
        if not same_json_value(nd['value'], v[j]):
            return 'nested JSON: value of item %d differs' % j
        got = [(a['id'], a['value']) for a in nd.get('attributes', [])]
        exp = []
        lab = d[j]
        if lab[0] in 'FDA' and meaning.get(j) is not None:
            exp.append((d[meaning[j]], v[meaning[j]]))
        exp += [(d[a], v[a]) for a in want.get(j, [])]
        if len(got) != len(exp) or any(g[0] != e[0] or not same_json_value(g[1], e[1]) for g, e in zip(got, exp)):
            return 'nested JSON: attributes of item %d (%s) are %s, expected %s' % (j, lab, got[:6], exp[:6])
        for a in nd.get('attributes', []):
            if a['id'][0] in 'FD':
                sub_at = [x['id'] for x in a.get('attributes', [])]
                if sub_at != [('008023' if a['id'][0] == 'F' else '008024')]:
                    return 'nested JSON: %s under item %d lacks its meaning element: %s' % (a['id'], j, sub_at)
    return None


# --------------------------------------------------------------------------------------------------
def assoc_over(c, sub=None):
    """structural classification for the known wiring failures: what kind of item is processed while an
    associated field is in force (flat scan of the template)"""
    depth = 0
    out = set()
    ids = c.ids
    qa = False
    in203 = False
    skip_next = False
    for i in ids:
        f, code, y = i // 100000, i // 1000, i % 1000
        if skip_next:
            skip_next = False
            if depth:
                out.add('206')
            continue
        if code == 204:
            depth += 1 if y else -1
            continue
        if code == 203:
            in203 = y not in (0, 255)
            continue
        if code == 206 and y:
            skip_next = True
            continue
        if code == 222:
            qa = True
        elif code in (223, 224, 225, 232, 235):
            qa = False
        if depth > 0:
            if f == 2 and y == 255 and code in (223, 224, 225, 232):
                out.add('marker')
            elif f == 0 and in203:
                out.add('203')
            elif i in (8023, 8024):
                out.add('meaning')
            elif f == 0 and code == 33 and qa:
                out.add('qa33')
    return sorted(out)


def qa_across_operator(c):
    """structural flag for the known disagreement between the coder's and the wiring pass's quality-information
    state: after 222000 the coder keeps waiting for the first class 33 element whatever comes in between, the wiring
    pass (templatedata.wire_operator_descriptor) forgets 222000 at the next 223/224/225/232 (any operand) or 235000
    operator - a class 33 element that follows such an operator is linked by the coder and left unattached by the
    wiring pass (flat scan of the template, like assoc_over)"""
    waiting = False
    crossed = False
    for i in c.ids:
        f, code, x = i // 100000, i // 1000, (i // 1000) % 100
        if i == 222000:
            waiting, crossed = True, False
        elif f == 2 and code in (223, 224, 225, 232, 235):
            if waiting:
                crossed = True
        elif f == 0 and x == 33:
            if waiting and crossed:
                return True
            waiting = False
    return False


def features(c):
    f = set()
    for d in c.info:
        f.add('op%d' % d['kind'])
        f.add(d['mode'])
        if d.get('reuse'):
            f.add('236000')
        if d.get('post237255'):
            f.add('237255')
        if d.get('early'):
            f.add('stops-early')
        if d.get('lengths'):
            f.add('bitmap-length-differs-per-subset')
        f.add('consumers-' + d['consumers'])
        if d['mode'] == 'define':
            f.add('bitrep-' + d['bitrep'])
    if 235000 in c.ids:
        f.add('235000')
    return f


def check_diffstats(c, impl_bits, sub, elems, links):
    """template ends with 225255 markers: cut the last fields out of the bits"""
    d, v = sub['d'], sub['v']
    k = len(d)
    fields = []
    while k > 0 and d[k - 1].startswith('D'):
        k -= 1
        fields.append(k)
    if not fields:
        return None, 0
    owner = dict((a, o) for a, o in links)
    pos = len(impl_bits)
    n = 0
    for i in fields:            # from the last one backwards
        o = owner.get(i)
        if o is None:
            return 'difference statistics value at %d has no owner' % i, n
        nb, sc, ref, unit = elems[o]
        mnb, msc, mref, _ = elems[i]
        if mnb != nb + 1 or mref != -2 ** nb:
            return '225255 marker of %s: width %s reference %s, owner width %s' % (d[o], mnb, mref, nb), n
        if unit == 'CCITT IA5':
            pos -= ((nb + 1) // 8) * 8          # character field: (width+1)//8 bytes, no reference
            continue
        w = nb + 1
        raw = int(impl_bits[pos - w:pos], 2)
        pos -= w
        if raw == 2 ** w - 1:
            exp = None
        elif unit in ('FLAG TABLE', 'CODE TABLE'):
            exp = raw                           # code / flag: unsigned, width+1
        else:
            exp = raw - 2 ** nb
            if sc:
                exp = exp / (1.0 * 10 ** sc)
        got = v[i]
        ok = (got is None and exp is None) or (got is not None and exp is not None and abs(got - exp) <= 1e-9 * max(1.0, abs(exp)))
        if not ok:
            return 'difference statistics of %s: field of %d bits holds %d, decoded %r, expected %r' % (d[o], w, raw, got, exp), n
        n += 1
    return None, n


def check_markers(sub):
    """every marker value (223255 / 224255 / 225255 / 232255) of one subset against the element its link names:
    same element id, same scale, width and reference of the owner (225255: width + 1, reference -2^width).
    -> description of the first discrepancy or None"""
    d, elems = sub['d'], sub['elems']
    owner = dict((a, o) for a, o in sub['l'])
    for i, lab in enumerate(d):
        if lab[0] not in 'TFDR':
            continue
        o = owner.get(i)
        if o is None:
            continue            # a missing link is reported by the comparison with Spec.links
        if o >= len(d):
            return 'marker value %d (%s) is linked to item %d, which does not exist' % (i, lab, o)
        nb, sc, ref, unit = elems[o]
        mnb, msc, mref, munit = elems[i]
        if lab[1:] != d[o][-5:] or not d[o][0].isdigit():
            return 'marker value %d is %s but its link names item %d (%s)' % (i, lab, o, d[o])
        exp = (nb + 1, sc, -2 ** nb) if lab[0] == 'D' else (nb, sc, ref)
        if (mnb, msc, mref) != exp or munit != unit:
            return 'marker value %d (%s): width/scale/reference %s, owner %d (%s) has %s' % (i, lab, (mnb, msc, mref), o, d[o], (nb, sc, ref))
    return None


def as_mapping(resp):
    """the model records the links as the LIST of assignments; the implementation's `bitmap_links` is a dict
    (a second assignment to the same key wins): compare the final mapping"""
    for sub in (resp.get('subsets') or []):
        m = {}
        for a, o in sub['l']:
            m[a] = o
        sub['l'] = sorted([a, o] for a, o in m.items())
    return resp


def marker_class33(c, subs):
    return any(lab[0] in 'TFDR' and lab[1:3] == '33' for sub in (subs or []) for lab in sub['d'])


def run_chunk(ctx, drv, treq, cases):
    """full pipeline on cases with values; returns number evaluated"""
    enc = [(c, impl, as_mapping(model)) for c, impl, model in P.run_encode(drv, treq, cases)]
    items = []
    for c, impl, model in enc:
        why = None if ORACLE_ONLY else P.compare_encode(c, impl, model)
        if why:
            report(ctx, c, 'encode: ' + why, stage='encode')
        if impl[0] != 'ok':
            ctx.count('encoder-' + impl[0])
            continue
        items.append((c, impl[1], model))
    # decode: implementation (flat + view) and model
    reqs = [treq]
    impls = []
    for c, b, m in items:
        impls.append(impl_decode_full(b))
        reqs.append({'op': 'dec-data', 'ids': c.ids, 'compressed': c.comp, 'n': c.n, 'bits': C.data_bits(b)})
    mres = [as_mapping(r) for r in drv.batch(reqs)[1:]]
    # oracle: Spec.links on the implementation's items
    reqs = [treq]
    where = []
    for k, ((c, b, m), im) in enumerate(zip(items, impls)):
        reqs.append({'op': 'wf-bitmap', 'ids': c.ids})
        where.append((k, 'wf'))
        if im['status'] != 'ok':
            continue
        for s, sub in enumerate(im['subsets']):
            if c.comp and s > 0:
                break
            reqs.append({'op': 'links-spec', 'd': sub['d'], 'v': [C.from_py_exact(x) for x in sub['v']], 'cancels': sub['cancels']})
            where.append((k, s))
    sres = drv.batch(reqs)[1:]
    spec = {}
    wf = {}
    for (k, s), r in zip(where, sres):
        if s == 'wf':
            wf[k] = r
        else:
            spec[(k, s)] = r
    for k, ((c, b, m), im, mr) in enumerate(zip(items, impls, mres)):
        feats = features(c)
        ctx.case({'ids': c.ids, 'n': c.n, 'compressed': c.comp, 'chain': c.info}, nontrivial=im['status'] == 'ok' and any(sub['l'] for sub in im['subsets']),
                 sample=len(ctx.samples) < 4)
        ctx.traces += 1
        ctx.count('stream:' + c.stream)
        ctx.count('base:' + c.family)
        ctx.count('compressed' if c.comp else 'uncompressed')
        ctx.count('subsets-%d' % c.n)
        ctx.count('chain-%d' % len(c.info))
        if c.note:
            ctx.count(c.note)
        if c.vmeta:
            ctx.count('vary:' + c.vmeta['mode'])
            ctx.count('vary:blocks-%d' % c.vmeta['blocks'])
            if c.vmeta['same_length'] and c.vmeta['distinct_structures'] > 1:
                ctx.count('vary:equal-length-distinct-structures-%d' % c.vmeta['distinct_structures'])
            for x in (205, 206, 204, 221):
                if any(i // 1000 == x for part in c.parts[:c.base_len] for i in part):
                    ctx.count('vary:base-has-%d' % x)
        for f in feats:
            ctx.count(f)
        w = wf.get(k, {})
        ctx.count('WFbitmap' if w.get('wf') else 'outside-WFbitmap')
        ctx.count('WFlinks' if w.get('wflinks') else 'outside-WFlinks')
        if w.get('wflinks') and w.get('nocancel'):
            ctx.count('WFlinks-no235')
        # model vs implementation
        why = None if ORACLE_ONLY else P.compare_decode((im['status'], im.get('subsets'), None), mr)
        if why:
            report(ctx, c, 'decode: ' + why, b, stage='decode')
            continue
        if im['status'] != 'ok':
            ctx.count('decode-' + im['status'])
            continue
        if not c.comp and c.n >= 2:
            ctx.count('uncompressed-multi-subset')
            for flag, name in zip(im['xsub'], ('xsub-same-boundary-and-length', 'xsub-different-back-references', 'xsub-zero-bit-on-difference')):
                if flag:
                    ctx.count(name)
        # oracle
        bad = False
        for s, sub in enumerate(im['subsets']):
            sp = spec[(k, 0 if c.comp else s)]
            if sp['l'] != sub['l']:
                report(ctx, c, 'links: subset %d: implementation %s, Spec.links on its items %s (labels %s)' % (s, sub['l'], sp['l'], sub['d']), b, stage='links',
                       extra={'assoc_over': assoc_over(c), 'marker_class33': marker_class33(c, im['subsets'])})
                bad = True
                break
            if not sp['complete']:
                report(ctx, c, 'links: subset %d decodes but Spec.complete fails on its items' % s, b, stage='complete')
                bad = True
                break
            if not sp['recalls_ok']:
                ctx.count('recall-not-FM94')
            ctx.count('links', len(sub['l']))
            # the hypotheses of C07_links_eq_spec: WFlinks template, markersOk items (evaluated on the implementation's items)
            if w.get('wflinks') and sp.get('markers_ok'):
                ctx.count('subsets-inside-C07_links_eq_spec')
                if sub['l']:
                    ctx.count('subsets-inside-C07_links_eq_spec-with-links')
            elif not sp.get('markers_ok', True):
                ctx.count('subsets-outside-markersOk')
        if bad:
            continue
        # marker values: element, width, scale, reference of the owner -- in every subset
        for s, sub in enumerate(im['subsets']):
            why = check_markers(sub)
            if why:
                report(ctx, c, 'links: subset %d: %s (labels %s)' % (s, why, sub['d']), b, stage='links',
                       extra={'assoc_over': assoc_over(c), 'marker_class33': marker_class33(c, im['subsets'])})
                bad = True
                break
            ctx.count('marker-values-checked', sum(1 for lab in sub['d'] if lab[0] in 'TFDR'))
        if bad:
            continue
        # difference statistics against the raw bits
        if c.ends225 and not c.comp and 'bits' in m:
            sub = im['subsets'][-1]
            bits = C.data_bits(b)[:len(m['bits'])]
            why, nchk = check_diffstats(c, bits, sub, sub['elems'], sub['l'])
            ctx.count('diffstats-fields-checked', nchk)
            if why:
                report(ctx, c, 'diffstats: ' + why, b, stage='diffstats')
                continue
        else:
            for sub in im['subsets']:
                for i, lab in enumerate(sub['d']):
                    if lab.startswith('D'):
                        o = dict(map(tuple, sub['l'])).get(i)
                        if o is None or sub['elems'][i][0] != sub['elems'][o][0] + 1 or sub['elems'][i][2] != -2 ** sub['elems'][o][0] or sub['elems'][i][1] != sub['elems'][o][1]:
                            report(ctx, c, 'diffstats: marker %d of %s has width/reference %s' % (i, sub['d'][o] if o is not None else '?', sub['elems'][i]), b, stage='diffstats')
        # hierarchical view
        ao = assoc_over(c)
        if im['wire'] != 'ok':
            ctx.count('wire-failed')
            report(ctx, c, 'view: wiring fails (%s) although the flat decode succeeds' % im['wire'], b, stage='wire',
                   extra={'assoc_over': ao, 'qa_across_operator': qa_across_operator(c)})
            continue
        for s, sub in enumerate(im['subsets']):
            si = 0 if c.comp else s
            why = check_view(sub, im['subsets'][si]['l'], im['nodes'][si], im['nested'][s])
            if why:
                report(ctx, c, 'view: subset %d: %s' % (s, why), b, stage='wire',
                       extra={'assoc_over': ao, 'qa_across_operator': qa_across_operator(c)})
                break
        else:
            ctx.count('view-checked')
    return len(items)


def report(ctx, c, why, b=None, stage='decode', extra=None):
    sig = {'stage': stage, 'features': sorted(features(c)), 'base': c.family}
    if extra:
        sig.update(extra)
    rep = c.replay()
    rep.update(why=why, info=c.info, family=c.family, ends225=c.ends225)
    if b is not None:
        rep['message_hex'] = b.hex()
    ctx.violation('%s (ids %s)' % (why, c.ids[:60]), rep, signature=sig)


# --------------------------------------------------------------------------------------------------
# (d) one coder object, several table groups
def check_table_definitions(sub, g):
    """every plain element item of a decoded subset carries the definition the message's OWN table group gives its id
    (unit, scale, reference, width as in the table files read by the harness); -> first discrepancy or None"""
    for i, lab in enumerate(sub['d']):
        if not lab.isdigit() or int(lab) >= 100000:
            continue
        e = g.b.get(int(lab))
        if e is None:
            continue
        nb, sc, ref, unit = sub['elems'][i]
        if (nb, sc, ref, unit) != (int(e[4]), int(e[2]), int(e[3]), e[1]):
            return 'item %d (%s) decoded with width/scale/reference/unit %s, table group %s defines %s' % (
                i, lab, (nb, sc, ref, unit), g.name, (int(e[4]), int(e[2]), int(e[3]), e[1]))
    return None


def run_xversion(ctx, drv, rng):
    """Link / marker oracle under RE-USE: ONE Decoder (and one compiling Decoder, one Encoder, one compiling Encoder) for
    the whole stream; the members of a family - the same bit-map construct over the same element ids under table groups
    that define the marked element differently (derived from the bundled tables, harness/xversion.py) - are decoded and
    encoded one after the other (A, B, A ...).  Every result: Spec.links on its items, every marker value against the
    element its link names AND against the tables the message names, the model under those tables, a fresh object."""
    from pybufrkit.decoder import Decoder
    from pybufrkit.encoder import Encoder
    from harness import xversion
    quick = ctx.tier == 'quick'
    cat = xversion.Catalogue()
    fams, problems, stats = xversion.build_families(drv, rng, 70 if quick else 700, shapes=xversion.MARKER_SHAPES + ('assoc',), cat=cat)
    for k, v in sorted(stats.items()):
        ctx.count('xversion:' + k, v)
    ctx.count('xversion:elements defined differently in two bundled table groups', len(cat.elements))

    def rep(f, m, why, stage):
        ctx.violation('table-group re-use: family %s (%s over %s, groups %s), message of %s: %s (ids %s)'
                      % (f['name'], f['shape'], f['E'], f['groups'], m['group'], why, f['ids']),
                      {'mode': 'xversion', 'family': {k: v for k, v in f.items() if k != 'members'},
                       'messages': [{'group': x['group'], 'hex': x['bytes'].hex(), 'json': x['json']} for x in f['members']]},
                      signature={'stage': stage, 'features': sorted('op%d' % k for k in f['kinds']), 'base': 'xversion:' + f['shape']})
    for f, m, why in problems:
        rep(f, m, why, 'xversion-fresh-vs-model')
    decoders = {None: Decoder(), 4: Decoder(compiled_template_cache_max=4)}
    encoders = {None: Encoder(), 4: Encoder(compiled_template_cache_max=4)}
    todo = []
    for f in fams:
        order = list(f['members'])
        rng.shuffle(order)
        order = order + order[:1]
        bad = False
        for cfg in (None, 4):
            prev = None
            for m in order:
                g = cat.by_name[m['group']]
                ctx.case({'ids': f['ids'], 'group': m['group'], 'cfg': cfg, 'after': prev}, nontrivial=prev is not None and prev != m['group'],
                         sample=False)
                ctx.traces += 1
                ctx.count('stream:table-group-reuse')
                ctx.count('xversion:shape:' + f['shape'])
                im = impl_decode_full(m['bytes'], decoder=decoders[cfg])
                why = None
                if im['status'] != m['dec'][0]:
                    why = 'decoder status %s, a fresh Decoder gives %s' % (im['status'], m['dec'][0])
                elif im['status'] == 'ok':
                    for s, (sub, ref) in enumerate(zip(im['subsets'], m['dec'][1])):
                        if sub['d'] != ref['d'] or sub['l'] != ref['l'] or repr(sub['v']) != repr(ref['v']):
                            why = 'subset %d decoded after a message of table group %s differs from a fresh Decoder: labels %s values %s links %s, fresh: %s %s %s' % (
                                s, prev, sub['d'], sub['v'], sub['l'], ref['d'], ref['v'], ref['l'])
                            break
                        why = check_markers(sub) or check_table_definitions(sub, g)
                        if why:
                            why = 'subset %d: %s' % (s, why)
                            break
                        ctx.count('marker-values-checked', sum(1 for lab in sub['d'] if lab[0] in 'TFDR'))
                    if why is None and not ORACLE_ONLY:
                        why = P.compare_decode((im['status'], im.get('subsets'), None), m['model_dec'])
                        why = why and 'decode vs model under the tables of %s: %s' % (m['group'], why)
                if why:
                    rep(f, m, why, 'links')
                    bad = True
                    break
                if im['status'] == 'ok':
                    todo.append((f, m, im))
                # the same Encoder object
                try:
                    eb = encoders[cfg].process(json.loads(m['json']), wire_template_data=False).serialized_bytes
                except Exception as e:  # noqa
                    eb = core.err_tag(e)
                if eb != m['bytes']:
                    rep(f, m, 'the Encoder that encoded a message of table group %s before gives %s, a fresh Encoder %d bytes'
                        % (prev, ('%d bytes' % len(eb)) if isinstance(eb, bytes) else eb, len(m['bytes'])), 'encode')
                    bad = True
                    break
                prev = m['group']
            if bad:
                break
    # Spec.links on the items of every subset decoded by the re-used objects
    reqs, where = [], []
    for f, m, im in todo:
        for s, sub in enumerate(im['subsets']):
            if f['comp'] and s > 0:
                break
            reqs.append({'op': 'links-spec', 'd': sub['d'], 'v': [C.from_py_exact(x) for x in sub['v']], 'cancels': sub['cancels']})
            where.append((f, m, s, sub))
    for (f, m, s, sub), sp in zip(where, drv.batch(reqs)):
        if sp['l'] != sub['l']:
            rep(f, m, 'links: subset %d: implementation %s, Spec.links on its items %s' % (s, sub['l'], sp['l']), 'links')
        ctx.count('links', len(sub['l']))


def replay_xversion(ctx, rep):
    """the messages of one family (A, B, ..., A) through ONE Decoder / Encoder, each result against fresh objects"""
    from pybufrkit.decoder import Decoder
    from pybufrkit.encoder import Encoder
    f = rep['family']
    msgs = rep['messages'] + rep['messages'][:1]
    for cfg in (None, 4):
        dec, enc = Decoder(compiled_template_cache_max=cfg), Encoder(compiled_template_cache_max=cfg)
        prev = None
        for m in msgs:
            b = bytes.fromhex(m['hex'])
            ctx.case({'hex': m['hex'], 'cfg': cfg, 'after': prev})
            im, fresh = impl_decode_full(b, decoder=dec), impl_decode_full(b)
            why = None
            if im['status'] != fresh['status']:
                why = 'decoder status %s, a fresh Decoder gives %s' % (im['status'], fresh['status'])
            elif im['status'] == 'ok':
                for s, (sub, ref) in enumerate(zip(im['subsets'], fresh['subsets'])):
                    if repr([sub[k] for k in ('d', 'v', 'l', 'elems')]) != repr([ref[k] for k in ('d', 'v', 'l', 'elems')]):
                        why = 'subset %d decoded after a message of table group %s differs from a fresh Decoder' % (s, prev)
                    why = why or check_markers(sub)
                    if why:
                        break
            if why is None:
                try:
                    eb = enc.process(json.loads(m['json']), wire_template_data=False).serialized_bytes
                except Exception as e:  # noqa
                    eb = core.err_tag(e)
                if eb != b:
                    why = 'the re-used Encoder gives another result than a fresh one'
            print('cfg=%s group=%s after=%s: %s' % (cfg, m['group'], prev, why or 'ok'))
            if why:
                ctx.violation('table-group re-use (replay): message of %s after %s: %s' % (m['group'], prev, why), rep,
                              signature={'stage': 'links', 'features': sorted('op%d' % k for k in f.get('kinds', [])), 'base': 'xversion:' + f.get('shape', '?')})
                return
            prev = m['group']


def all_patterns(nmax=8):
    out = []
    for n in range(1, nmax + 1):
        for x in range(2 ** n):
            out.append([(x >> k) & 1 for k in range(n)])
    return out


def run(ctx):
    drv = ctx.driver
    rng = ctx.rng('main')
    ctx.rule = 'the message decodes and at least one attribute link is recorded'
    treq = tables_io.group_request()
    quick = ctx.tier == 'quick'
    # (a) exhaustive: every 0/1 pattern of every length 1..8 per base template (the base, its values and the
    #     kind of operator are fixed per base; 2 + 4 + ... + 256 = 510 messages each)
    fams = ['plain', 'nested', 'seq', 'delayed', 'assoc', 'ops']
    nbases = 1 if quick else 12
    pats = all_patterns(8)
    plans = []
    g0 = Gen(rng)
    for bi in range(nbases):
        fam = fams[(ctx.seed + bi) % len(fams)]
        comp = bool((ctx.seed // len(fams) + bi) % 2)
        proto = None
        for attempt in range(20):
            parts = g0.base(fam) + [g0.tg.element_plain() for _ in range(attempt)]
            q = {'parts': parts, 'n': 1, 'comp': comp, 'rnd': C.rnd_bits(rng, 9000), 'bf': base_forced(rng)}
            measure_bases(drv, treq, [q])
            if q.get('P0') and q['P0'] >= 8:
                proto = q
                break
        if proto is None:
            raise core.MachineryError('no base template of family %s with 8 plain items' % fam)
        ctx.count('exhaustive-base:' + fam)
        for k, p in enumerate(pats):
            plans.append({'family': fam, 'n': 1, 'comp': comp, 'steps': 1, 'first_bits': p, 'proto': proto,
                          'first_kind': KINDS[(k + bi + ctx.seed) % 5], 'simple': True, 'stream': 'exhaustive', 'nmax': 8})
    ctx.exhaustive = {'what': 'all 0/1 patterns of bit-maps of length 1..8', 'patterns_per_base': len(pats), 'bases': nbases}
    # (b) random chains
    nrand = 690 if quick else 30000 - len(plans)
    for k in range(nrand):
        r = rng.random()
        fam = rng.choice(FAMILIES + ('assoc-ops', 'assoc-ops'))
        n = rng.choice([1, 1, 2, 3])
        pl = {'family': fam, 'n': n, 'comp': rng.random() < 0.45, 'stream': 'random', 'edition': rng.choice([4, 4, 3])}
        if fam == 'long':
            pl['nmax'] = 40
        if r < 0.12:
            pl['assoc_open'] = True
            pl['stream'] = 'assoc-in-force'
        plans.append(pl)
    # (c) uncompressed subsets of different structure: delayed replications in front of the operator whose factors
    #     differ between the subsets -- preferably so that the number of items is the same (the operator then sits at
    #     the same flat position in every subset although different elements precede it)
    nvary = 600 if quick else 8000
    for k in range(nvary):
        n = rng.choice([2, 2, 3, 3, 4])
        comp = rng.random() < 0.08
        proto, vmeta = g0.vary(n, comp)
        pl = {'family': 'vary', 'n': n, 'comp': comp, 'stream': 'varying-structure', 'edition': rng.choice([4, 4, 3]),
              'proto': proto, 'vmeta': vmeta, 'nmax': rng.choice([6, 12, 24, 40]), 'first_kind': KINDS[(k + ctx.seed) % 5],
              'vary_n': rng.random() < 0.4}
        if rng.random() < 0.3:
            pl['steps'] = 1
        plans.append(pl)
    chunk = 300
    total = 0
    for off in range(0, len(plans), chunk):
        part = plans[off:off + chunk]
        # exhaustive plans need a base with enough plain items: retry with a 'plain' prefix
        cases = make_cases(drv, treq, rng, part)
        total += run_chunk(ctx, drv, treq, cases)
        ctx.count('generated', len(part))
        ctx.count('with-values', len(cases))
    # (d) re-use of one coder object over table groups that define the marked elements differently
    run_xversion(ctx, drv, ctx.rng('xversion'))
    ctx.notes.append('Spec.links is evaluated on the implementation item list of every decoded subset (driver op links-spec); '
                     'C07_links_eq_spec is proved for WFlinks templates and markersOk items: the counters '
                     'subsets-inside-C07_links_eq_spec / WFlinks / subsets-outside-markersOk say how many generated cases lie '
                     'inside its hypotheses')


def replay(ctx, path):
    with open(path) as f:
        body = json.load(f)
    rep = body['replay']
    drv = ctx.driver
    if rep.get('mode') == 'xversion':
        return replay_xversion(ctx, rep)
    treq = tables_io.group_request()
    c = C7Case([rep['ids']], rep.get('forced', []), rep['n_subsets'], rep['compressed'], rep.get('edition', 4))
    c.valss = rep['values']
    c.info, c.family, c.ends225, c.base_len, c.stream, c.rnd, c.P0 = rep.get('info', []), rep.get('family', '?'), rep.get('ends225', False), 0, 'replay', '', 0
    c.assoc_open = False
    c.vmeta = None
    n = run_chunk(ctx, drv, treq, [c])
    print('replay: evaluated %d message(s), violations so far %d, known findings %s' % (n, ctx.violations, ctx.known_hits))
