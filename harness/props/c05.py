"""
C05 — compression is transparent: same data, same decoded result.

Theorems: lean/BufrModel/Props/C05.lean (column codec: every legal increment width is read back, the
encoder's width is legal, encoder -> decoder round trip for integer and character columns, the
independent reader of regulation 94.6.3 agrees with the decoder's) and Props/C05Check.lean (the widths
the harness's "other producer" uses are legal widths).

Tie and oracle (every part runs on each check):
 (a) transparency ON THE IMPLEMENTATION: the same value lists (shared structure, from the model's
     generate mode) are encoded compressed and uncompressed by pybufrkit's Encoder, both messages are
     decoded by pybufrkit's Decoder: values (exactly, floats bit for bit), labels and attribute links
     must be identical.  Templates of levels 0-2 of the grammar, 1..6 subsets.  Corpus files: decode,
     re-encode the flat JSON with the compression flag flipped (uncompressed -> compressed only when
     the subsets share structure), decode again, same comparison.
 (b) every legal difference width: the MODEL's other-producer encoder (Coder/EncodeWidths.lean) writes
     each integer column with (encoder's width + k), k drawn per column; the message is re-assembled
     around those bits and the IMPLEMENTATION's decoder has to return what it returns for the
     encoder's own choice (width 1 with increment 1 = missing included).
 (c) exhaustive small scope through whole messages: all columns of <= 4 subsets over
     {missing, 0..2^w-2} (w = 1: {0, 1}), w <= 3 quick / w <= 4 thorough, numeric (201YYY on an 8-bit
     element) and code/flag elements of 2, 3, 4 bits; model-encoded with each legal width in
     0..w+2 and 63 and implementation-decoded; implementation-encoded and model-decoded.
 (e) every width modifier x all special packed integers x all column shapes (harness/c05widths.py): for 201+/-, 202,
     207 (also with a compensating 202), 201+207, 201+202, 203, 225255, 204, 206, 208 and code/flag elements under
     201/202/207, elements of every arithmetic class (scale 0 and reference 0, scaled, with reference value), the raw
     integers 2^k-1, 2^k and neighbours for k around the Table B width, around the width in force and in between,
     each in an all-equal column, as minimum / as maximum of a varying column, next to a missing entry.
 (f) structural values of compressed data (harness/structcols.py, finding F24): bit-level messages in which a delayed
     replication factor (031000/031001/031002) or a bitmap bit (031031), at top level or inside / behind replications, is
     missing or different in one later subset / in the first subset only / missing in all; whatever decodes is written
     again uncompressed and compressed by the Encoder and has to decode to the same values, labels and links.
 (d) random columns: widths 1..64 (201YYY on a scale-0 element), scaled numerics up to 48 bits,
     up to 60 subsets, character columns (missing / equal / different / NUL bytes / 0xFF bytes /
     short strings, 205YYY, 208YYY), code/flag columns reaching the field's own all-ones value, new
     reference values, associated fields, skipped local fields.
Every message decoded by the implementation is also decoded by the model (labels, values, links).

Not a conforming input, never generated: a missing value for a 1-bit field (the encoder writes 1,
uncompressed it reads back as 1; FM 94 has no missing value for 1-bit fields).
"""
import itertools
import json

from harness import core, tables_io
from harness import coder_io as C
from harness import coderprops as P
from harness import c05widths
from harness import structcols

PROP = 'C05'

META = dict(
    claimed=True,
    text='Kernel-checked theorems about the Lean model of the compressed column codec, for every field width 1..64, every '
         'number of subsets and every column: the decoder reads back every legal increment width (0 for equal/all-missing '
         'columns, width 1 with increment 1 = missing, anything up to 63 that holds the increments), the width the encoder picks '
         'is legal and its output is the specification column, encoder->decoder round trip for integer and character columns, '
         'the decoder agrees with an independent reader written from regulation 94.6.3; WHICH WIDTH the compressed readers look '
         'at (Props/C05Width.lean): the numeric reader only ever sees the width in force (Table B width + 201 + 207) and never '
         'the Table B width, so 2^nb-1 is an ordinary value of a widened field; the code/flag reader as written re-checks '
         'against the descriptor\'s OWN width (literal two-width model decCodeflagCD), that re-check is inert exactly when the '
         'field read is not wider than the descriptor says (iff theorem), and neither the template walk nor compiled programs '
         'ever separate the two widths (so the one-width model is the code); whole-template transparency for the checked '
         'encoder (Props/C05Walk.lean: same values encoded compressed and uncompressed decode to the same labels, values, '
         'links); plus the tie to pybufrkit: transparency oracle (same values encoded compressed and uncompressed decode '
         'identically: values, labels, links) on generated templates of every construct, on corpus files re-encoded with the '
         'flag flipped, and on EVERY WIDTH MODIFIER (201+/-, 202, 207, 207 with compensating 202, 201+207, 201+202, 203, '
         '225255, 204, 206, 208, code/flag elements under 201/202/207) x ALL special packed integers (2^k-1, 2^k and '
         'neighbours for k around the Table B width, the width in force and in between) x all column shapes (equal, special '
         'value as minimum, as maximum, next to a missing entry); implementation decoding of model-written columns with '
         'every legal width, exhaustive small-scope columns through whole messages, random columns up to 64 bits / 60 subsets '
         'incl. strings, all-ones code values, new reference values, associated and skipped fields.',
    technique='Lean 4 theorems (induction over columns, bit arithmetic) + metamorphic oracle on the implementation + checked '
              'model/implementation correspondence',
    note='Finding F24 (fixed): structural values of compressed data - Props/C05Factors.lean (the factor the compressed decoder / '
         'encoder replicates by is the value EVERY subset holds; the repaired check refuses every other column with the library '
         'error) and part (f) of the check (harness/structcols.py: bit-level compressed messages whose delayed replication factor or '
         'bitmap bit is missing / different in one subset, at top level and inside replications; what decodes must decode the same '
         'from its uncompressed and re-compressed forms); the bitmap case is the open finding F24-bitmap. '
         'Whole-template transparency is proved for the CHECKED compressed encoder (C05_walk_transparent: side conditions field '
         'width <= 64, replication factors / bitmap entries equal in all subsets and read back as supplied, no missing value in '
         'a one-bit field of a varying column); outside those conditions it is carried by the oracle and the correspondence. '
         'A missing value in a 1-bit field is not a conforming input. Floats: the model uses exact decimals, compressed vs '
         'uncompressed decodes of the implementation are compared bit for bit.',
)

NUM8 = 5041        # SCAN LINE NUMBER: numeric, 8 bits, scale 0, reference 0
CODES = {2: 2001, 3: 1003, 4: 2002}
K_CHOICES = [-2, -1, -1, -1, 0, 0, 1, 1, 1, 2, 2, 3, 4, 7, 13, 30, 50]


# ---------------------------------------------------------------------------------------------
# observations and the oracle
def same_exact(x, y):
    return type(x) is type(y) and x == y


def obs_diff(a, b, what_a='compressed', what_b='uncompressed'):
    """None when two implementation observations (C.impl_decode results) are identical, else a description"""
    if a[0] != b[0]:
        return 'decode status differs: %s %s, %s %s' % (what_a, a[0], what_b, b[0])
    if a[0] != 'ok':
        return None
    if len(a[1]) != len(b[1]):
        return 'number of subsets differs'
    for i, (x, y) in enumerate(zip(a[1], b[1])):
        if x['d'] != y['d']:
            k = next((k for k, (p, q) in enumerate(zip(x['d'], y['d'])) if p != q), min(len(x['d']), len(y['d'])))
            return 'labels differ in subset %d at %d: %s %s, %s %s' % (i, k, what_a, x['d'][k:k + 1], what_b, y['d'][k:k + 1])
        if len(x['v']) != len(y['v']):
            return 'number of values differs in subset %d' % i
        for k, (p, q) in enumerate(zip(x['v'], y['v'])):
            if not same_exact(p, q):
                return 'value differs in subset %d at %d (%s): %s %r, %s %r' % (i, k, x['d'][k], what_a, p, what_b, q)
        if x['l'] != y['l']:
            return 'attribute links differ in subset %d: %s %s, %s %s' % (i, what_a, x['l'], what_b, y['l'])
    return None


def twin(c, comp):
    u = P.Case(c.parts, c.forced, c.n, comp, c.edition, c.idx)
    u.valss = c.valss
    u.note = c.note
    return u


def report(ctx, stage, why, c, extra=None):
    rep = c.replay()
    rep['why'] = why
    rep['stage'] = stage
    rep.update(extra or {})
    sig = {'stage': stage, 'features': sorted(P.classify(c.ids))}
    # a model/implementation disagreement with the oracle passing is not by itself a failing input of the property
    ctx.violation('%s: %s (ids %s, %d subsets)' % (stage, why, c.ids[:30], c.n), rep, signature=sig,
                  no_failing_input=stage.endswith('correspondence'))


def evaluate(drv, treq, cases, rng, widths=True):
    """The whole pipeline for cases with values (compressed flag ignored: both forms are produced).
    -> list of (case, problems=[(stage, why, extra)], info dict)"""
    cc = [twin(c, True) for c in cases]
    cu = [twin(c, False) for c in cases]
    enc = P.run_encode(drv, treq, cc + cu)
    n = len(cases)
    out = []
    items = []        # (case, bytes) to decode
    where = []        # (case index, kind)
    reqs = [treq]
    wreq_of = {}
    kss = {}
    for i in range(n):
        probs, info = [], {}
        out.append((cases[i], probs, info))
        (_, ic, mc), (_, iu, mu) = enc[i], enc[n + i]
        for tag, c2, impl, model in (('compressed', cc[i], ic, mc), ('uncompressed', cu[i], iu, mu)):
            why = P.compare_encode(c2, impl, model)
            if why:
                probs.append(('encode-correspondence', '%s: %s' % (tag, why), {}))
        info['enc'] = (ic[0], iu[0])
        if ic[0] != 'ok' or iu[0] != 'ok':
            continue
        items.append((cc[i], ic[1])); where.append((i, 'c'))
        items.append((cu[i], iu[1])); where.append((i, 'u'))
        if widths:
            ks = [rng.choice(K_CHOICES) for _ in range(min(900, 8 + len(ic[2][0]['d']) if ic[2] else 8))]
            kss[i] = ks
            wreq_of[i] = len(reqs)
            reqs.append({'op': 'enc-data-widths', 'ids': cases[i].ids, 'vals': cases[i].valss, 'relative': True, 'ks': ks})
    res = drv.batch(reqs) if len(reqs) > 1 else []
    for i, k in wreq_of.items():
        r = res[k]
        info = out[i][2]
        mc = enc[i][2]
        if 'bits' not in r:
            out[i][1].append(('widths', 'model other-producer encoder failed: %s' % r, {}))
            continue
        info['widths_changed'] = r['bits'] != mc.get('bits')
        if info['widths_changed']:
            items.append((cc[i], C.replace_data(enc[i][1][1], r['bits']))); where.append((i, 'w'))
            info['ks'] = kss[i]
    dec = P.run_decode(drv, treq, items)
    got = {}
    for (i, kind), (c2, b, impl, model) in zip(where, dec):
        got[(i, kind)] = (impl, b)
        why = P.compare_decode(impl, model)
        if why:
            out[i][1].append(('decode-correspondence', '%s: %s' % (kind, why), {'message_hex': b.hex()}))
    for i in range(n):
        if (i, 'c') not in got:
            continue
        oc, bc = got[(i, 'c')]
        ou, bu = got[(i, 'u')]
        out[i][2]['dec'] = (oc[0], ou[0])
        why = obs_diff(oc, ou)
        if why:
            out[i][1].insert(0, ('transparency', why, {'compressed_hex': bc.hex(), 'uncompressed_hex': bu.hex()}))
        if (i, 'w') in got:
            ow, bw = got[(i, 'w')]
            why = obs_diff(ow, oc, 'other legal widths', "encoder's widths")
            if why:
                out[i][1].insert(0, ('legal-widths', why, {'widths_hex': bw.hex(), 'compressed_hex': bc.hex(), 'ks': out[i][2].get('ks')}))
    for _, probs, _ in out:
        probs.sort(key=lambda p: p[0].endswith('correspondence'))      # oracle failures first (stable)
    return out


def may_shrink(ctx, limit=3):
    """shrinking re-runs the pipeline many times: only the first few failing cases of a run are shrunk"""
    ctx.shrinks = getattr(ctx, 'shrinks', 0) + 1
    return ctx.shrinks <= limit


def fails(drv, treq, c, stage, rng):
    try:
        r = evaluate(drv, treq, [c], rng)[0]
    except core.MachineryError:
        raise
    return any(p[0] == stage for p in r[1])


def drop_subsets(c, still):
    """greedy: fewer subsets while the failure stays"""
    best = c
    changed = True
    budget = 30
    while changed and best.n > 1 and budget > 0:
        changed = False
        for k in range(best.n - 1, -1, -1):
            budget -= 1
            if budget <= 0 or best.n <= 1:
                break
            c2 = P.Case(best.parts, best.forced, best.n - 1, best.comp, best.edition, best.idx)
            c2.valss = best.valss[:k] + best.valss[k + 1:]
            if still(c2):
                best = c2
                changed = True
                break
    return best


# ---------------------------------------------------------------------------------------------
# (a)/(b) generated templates
def generated_part(ctx, drv, treq, count):
    rng = ctx.rng('generated')
    done = 0
    while done < count:
        m = min(240, count - done)
        cases = []
        for level in (0, 1, 2):
            cs = P.gen_cases(rng, m // 3, level=level, max_subsets=6, compressed=True)
            for c in cs:
                c.note = 'level%d' % level
            cases += cs
        for k, c in enumerate(cases):
            c.idx = done + k
        done += len(cases)
        cases = P.gen_values(drv, treq, cases, rng)
        for c, probs, info in evaluate(drv, treq, cases, rng):
            tally(ctx, c, info, 'generated')
            if probs:
                stage, why, extra = probs[0]
                if not may_shrink(ctx):
                    report(ctx, stage, why, c, extra)
                    continue

                def still(c2, stage=stage):
                    c2.comp = True
                    cs = P.gen_values(drv, treq, [c2], ctx.rng('shrink'))
                    return bool(cs) and fails(drv, treq, cs[0], stage, ctx.rng('shrink-k'))
                small = P.shrink(c, still, budget=25)
                if small is not c and small.valss is not None:
                    r = evaluate(drv, treq, [small], ctx.rng('shrink-k'))[0]
                    pr = [p for p in r[1] if p[0] == stage]
                    if pr:
                        report(ctx, pr[0][0], pr[0][1], small, pr[0][2])
                        continue
                report(ctx, stage, why, c, extra)


def tally(ctx, c, info, tag):
    ctx.case({'ids': c.ids, 'n': c.n, 'values': c.valss if len(json.dumps(c.valss)) < 1500 else core.chash(c.valss), 'part': tag},
             nontrivial=(c.n >= 2 and any(v is not None for vs in c.valss for v in vs)), sample=len(ctx.samples) < 4)
    ctx.count(tag)
    ctx.count('%s:subsets-%s' % (tag, c.n if c.n <= 6 else '7+'))
    if info.get('enc') and info['enc'] != ('ok', 'ok'):
        ctx.count('%s:encoder-refused' % tag)
    if info.get('dec'):
        ctx.traces += 2
        if info['dec'][0] != 'ok':
            ctx.count('%s:decode-%s' % (tag, info['dec'][0]))
    if info.get('widths_changed'):
        ctx.traces += 1
        ctx.count('%s:other-widths-decoded' % tag)
    for f in P.classify(c.ids):
        ctx.count('%s:%s' % (tag, f))


# ---------------------------------------------------------------------------------------------
# (a) corpus: flip the compression flag
def impl_obs(msg):
    td = msg.template_data.value
    subs = []
    for i in range(msg.n_subsets.value):
        subs.append({'d': [str(d) for d in td.decoded_descriptors_all_subsets[i]],
                     'v': list(td.decoded_values_all_subsets[i]),
                     'l': sorted([a, o] for a, o in td.bitmap_links_all_subsets[i].items())})
    return ('ok', subs, len(msg.serialized_bytes))


def shares_structure(subs, ids):
    """can the subsets be stored compressed?  identical labels and links, identical values of class 31
    elements (replication factors, bitmap bits) and of everything inside a 203YYY definition"""
    if any(i // 1000 == 203 for i in ids):
        return False
    s0 = subs[0]
    for s in subs[1:]:
        if s['d'] != s0['d'] or s['l'] != s0['l']:
            return False
        for k, lab in enumerate(s0['d']):
            if lab[:3] == '031' and s['v'][k] != s0['v'][k]:
                return False
    return True


def numeric_label(lab):
    return len(lab) == 6 and lab.isdigit() and lab[0] == '0'


def foreign_form(stored, flipped):
    """Why a stored COMPRESSED file is outside the property's domain, or None.  Two forms a foreign producer can
    write and pybufrkit's encoder cannot, whose decoded values are not values of the uncompressed field:
      * a present NUMERIC entry whose raw value (minimum + increment) is the all-ones pattern of the field (the
        same field written uncompressed is, by definition, missing);
      * character increments shorter than the field: the decoded strings are shorter than the field and come
        back blank-padded from the uncompressed form."""
    if stored[0] != 'ok' or flipped[0] != 'ok' or len(stored[1]) != len(flipped[1]):
        return None
    reasons = set()
    for x, y in zip(stored[1], flipped[1]):
        if x['d'] != y['d'] or x['l'] != y['l'] or len(x['v']) != len(y['v']):
            return None
        for lab, p, q in zip(x['d'], x['v'], y['v']):
            if same_exact(p, q):
                continue
            if q is None and p is not None and numeric_label(lab) and not isinstance(p, bytes):
                reasons.add('stored-numeric-entry-equals-the-missing-pattern')
            elif isinstance(p, bytes) and isinstance(q, bytes) and len(p) < len(q) and q == p.ljust(len(q), b' '):
                reasons.add('stored-character-increments-shorter-than-the-field')
            else:
                return None
    return '+'.join(sorted(reasons)) or None


def corpus_flip(path):
    """implementation side -> (problem or None, info, model request or None)"""
    from pybufrkit.decoder import Decoder
    from pybufrkit.encoder import Encoder
    from pybufrkit.renderer import FlatJsonRenderer
    with open(path, 'rb') as f:
        raw = f.read()
    b = raw[raw.find(b'BUFR'):]
    try:
        msg = Decoder().process(b, wire_template_data=False)
    except Exception as e:  # noqa
        return None, {'skipped': 'undecodable:' + core.err_tag(e)}, None
    b = msg.serialized_bytes
    nsub, comp, ids = P.parse_section3(b)
    o0 = impl_obs(msg)
    if nsub < 1 or not o0[1] or not o0[1][0]['v']:
        return None, {'skipped': 'no-data'}, None
    if not comp and not shares_structure(o0[1], ids):
        return None, {'skipped': 'subsets-do-not-share-structure'}, None
    data = FlatJsonRenderer().render(msg)
    flipped = False
    for si, section in enumerate(msg.sections):
        for pi, par in enumerate(section):
            if par.name == 'is_compressed':
                data[si][pi] = not comp
                flipped = True
    if not flipped:
        return None, {'skipped': 'no-flag'}, None
    data = json.loads(json.dumps(data, default=lambda o: o.decode('latin-1')))
    info = {'direction': 'to-uncompressed' if comp else 'to-compressed', 'subsets': nsub, 'ids': len(ids),
            'features': sorted(P.classify(ids))}
    try:
        m2 = Encoder().process(data, wire_template_data=False)
    except OSError as e:
        if 'tables' in str(e):
            # the decoder falls back to a bundled table group (normalize=1), the encoder does not (normalize=0)
            return None, {'skipped': 'encoder-has-no-tables-for-this-file'}, None
        return ('re-encoding with the flag flipped fails: %s %r' % (core.err_tag(e), str(e)[:120])), info, None
    except Exception as e:  # noqa
        return ('re-encoding with the flag flipped fails: %s %r' % (core.err_tag(e), str(e)[:120])), info, None
    b2 = m2.serialized_bytes
    o1 = C.impl_decode(b2)
    why = obs_diff(o0, o1, 'as stored', 'flag flipped') if comp else obs_diff(o1, o0, 'flag flipped', 'as stored')
    if why:
        if comp and foreign_form(o0, o1):
            return None, {'skipped': foreign_form(o0, o1)}, None
        return 'transparency: ' + why, info, None
    key = msg.table_group_key
    tkey = (tuple(key.wmo_tables_sn), tuple(key.local_tables_sn) if key.local_tables_sn else None, key.tables_root_dir)
    return None, info, (tkey, {'op': 'dec-data', 'ids': ids, 'compressed': not comp, 'n': nsub, 'bits': C.data_bits(b2)}, o1)


def corpus_part(ctx, drv, only=None):
    files = [only] if only else P.corpus_files(ctx.tier, ctx.rng('corpus'), quick_n=24)
    pending = {}
    for path in files:
        name = path.split('/')[-1]
        why, info, mreq = corpus_flip(path)
        if 'skipped' in info:
            ctx.count('corpus-skipped:' + info['skipped'])
            continue
        ctx.case({'file': name, **info}, nontrivial=True, sample=False)
        ctx.traces += 1
        ctx.count('corpus:' + info['direction'])
        if why:
            ctx.violation('corpus file %s (%s): %s' % (name, info['direction'], why), {'file': path, 'why': why, **info},
                          signature={'stage': 'corpus', 'file': name})
        elif mreq:
            pending.setdefault(mreq[0], []).append((path, name, info, mreq[1], mreq[2]))
    # the flipped messages against the model, one driver run per table group
    for tkey, lst in pending.items():
        tb, td = tables_io.read_group(tkey[0], tkey[1], tkey[2])
        res = drv.batch([tables_io.tables_request(tb, td)] + [x[3] for x in lst])[1:]
        for (path, name, info, _, o1), r in zip(lst, res):
            ctx.traces += 1
            why = P.compare_decode(o1, r)
            if why:
                ctx.violation('corpus file %s (%s): decode-correspondence (flag flipped): %s' % (name, info['direction'], why),
                              {'file': path, 'why': why, **info}, signature={'stage': 'corpus-correspondence', 'file': name})


# ---------------------------------------------------------------------------------------------
# (c) exhaustive small scope through whole messages
def legal_width(d, col):
    present = [x for x in col if x is not None]
    if d > 63:
        return False
    if d == 0:
        return all(x == col[0] for x in col)
    if not present:
        return False
    lo = min(present)
    return all(x - lo < 2 ** d - 1 for x in present)


def exhaustive_chunks(wmax, per_msg=60):
    idx = 0
    for kind in ('numeric', 'code'):
        for w in range(1, wmax + 1):
            if kind == 'code' and w not in CODES:
                continue
            dom = [0, 1] if w == 1 else [None] + list(range(2 ** w - 1))
            for n in range(1, 5):
                cols = list(itertools.product(dom, repeat=n))
                for start in range(0, len(cols), per_msg):
                    chunk = cols[start:start + per_msg]
                    k = len(chunk)
                    ids = ([201000 + 128 + w - 8] + [NUM8] * k + [201000]) if kind == 'numeric' else [CODES[w]] * k
                    c = P.Case([ids], [], n, True, 4, idx)
                    c.valss = [[col[s] for col in chunk] for s in range(n)]
                    cand = [[d for d in list(range(0, w + 3)) + [63] if legal_width(d, col)] for col in chunk]
                    idx += k
                    yield dict(kind=kind, w=w, n=n, chunk=chunk, case=c, cand=cand)


def exhaustive_part(ctx, drv, treq, wmax):
    total_cols = total_pairs = 0
    widths_hit = {}
    allch = list(exhaustive_chunks(wmax))
    for g in range(0, len(allch), 250):
        group = allch[g:g + 250]
        enc = P.run_encode(drv, treq, [ch['case'] for ch in group])
        reqs = [treq]
        for ch, e in zip(group, enc):
            c = ch['case']
            ch['frame'] = None
            if e[1][0] != 'ok':
                report(ctx, 'exhaustive', 'the encoder refuses the columns: %s' % e[1][0], c)
                continue
            why = P.compare_encode(c, e[1], e[2])
            if why:
                report(ctx, 'encode-correspondence', why, c)
            ch['frame'] = e[1][1]
            ch['asked'] = []
            for j in range(max(len(x) for x in ch['cand'])):
                ks = [x[j % len(x)] for x in ch['cand']]
                ch['asked'].append(ks)
                reqs.append({'op': 'enc-data-widths', 'ids': c.ids, 'vals': c.valss, 'relative': False, 'ks': ks})
        res = iter(drv.batch(reqs)[1:])
        items, owner = [], []
        for ch in group:
            if ch['frame'] is None:
                continue
            c, w, n = ch['case'], ch['w'], ch['n']
            items.append((c, ch['frame'])); owner.append((ch, None))
            for ks in ch['asked']:
                r = next(res)
                if 'bits' not in r:
                    raise core.MachineryError('enc-data-widths failed: %s' % r)
                if len(r['bits']) != sum(w + 6 + n * d for d in ks):
                    raise core.MachineryError('other-producer encoder did not use the requested widths %s' % ks)
                items.append((c, C.replace_data(ch['frame'], r['bits']))); owner.append((ch, ks))
                for d in ks:
                    widths_hit[d] = widths_hit.get(d, 0) + 1
        failed = set()
        for (ch, ks), (c, b, impl, model) in zip(owner, P.run_decode(drv, treq, items)):
            ctx.traces += 1
            if id(ch) in failed:
                continue
            w, n, kind, chunk = ch['w'], ch['n'], ch['kind'], ch['chunk']
            what = 'implementation-encoded' if ks is None else 'model-encoded with increment widths %s' % ks
            why = P.compare_decode(impl, model)
            stage, c2 = 'decode-correspondence', c
            if not why:
                stage = 'exhaustive'
                if impl[0] != 'ok':
                    why = 'decoding fails: %s' % impl[0]
                else:
                    for s in range(n):
                        got = impl[1][s]['v']
                        if len(got) != len(chunk) or not all(same_exact(x, y) for x, y in zip(got, c.valss[s])):
                            bad = next((q for q, (x, y) in enumerate(zip(got, c.valss[s])) if not same_exact(x, y)), 0)
                            why = 'column %s of %d-bit %s fields is read back as %s' % (
                                list(chunk[bad]), w, kind, [impl[1][t]['v'][bad:bad + 1] for t in range(n)])
                            if ks is not None:
                                why += ' (increment width %d)' % ks[bad]
                            c2 = P.Case([[c.ids[0], NUM8, 201000] if kind == 'numeric' else [c.ids[0]]], [], n, True, 4, c.idx)
                            c2.valss = [[x] for x in chunk[bad]]
                            break
            if why:
                failed.add(id(ch))
                report(ctx, stage, '%s: %s' % (what, why), c2, {'message_hex': b.hex(), 'field_width': w, 'kind': kind,
                                                              'widths': ks})
        for ch in group:
            total_cols += len(ch['chunk'])
            total_pairs += sum(len(x) for x in ch['cand'])
    ctx.evaluations += total_pairs + total_cols
    ctx.extra_nontrivial += total_cols
    ctx.exhaustive = {'columns': total_cols, 'column_width_pairs': total_pairs, 'max_field_width': wmax, 'max_subsets': 4,
                      'increment_widths_hit': {str(k): v for k, v in sorted(widths_hit.items())}}
    ctx.count('exhaustive:columns', total_cols)
    ctx.count('exhaustive:column-width-pairs', total_pairs)


# ---------------------------------------------------------------------------------------------
# (d) random columns
def int_column(rng, n, w, allones=False):
    """raw entries of a w-bit field for n subsets (None = missing; never for w = 1)"""
    top = 2 ** w - 2 if w > 1 else 1
    span_cap = 2 ** 62 - 2
    pats = ['equal', 'min-missing', 'pow2m2', 'pow2m1', 'random', 'equal-one-missing', 'extremes', 'near']
    if w > 1:
        pats += ['all-missing']
    if allones and w > 1:
        pats += ['allones', 'allones']
    p = rng.choice(pats)
    miss = (lambda q: rng.random() < q) if w > 1 else (lambda q: False)
    if p == 'equal':
        v = rng.randint(0, top)
        return p, [v] * n
    if p == 'all-missing':
        return p, [None] * n
    if p == 'min-missing':
        v = rng.randint(0, top)
        col = [None if miss(0.5) else v for _ in range(n)]
        if n >= 2 and w > 1:
            col[0], col[-1] = v, None
        return p, col
    if p in ('pow2m2', 'pow2m1'):
        k = rng.randint(1, min(w, 62))
        span = 2 ** k - (2 if p == 'pow2m2' else 1)
        span = min(span, top)
        lo = rng.randint(0, top - span)
        col = [lo + rng.randint(0, span) for _ in range(n)]
        col[0] = lo
        col[-1] = lo + span if n > 1 else lo
        if n > 2 and miss(0.5):
            col[1] = None
        return p, col
    if p == 'random':
        span = min(top, span_cap)
        lo = rng.randint(0, top - span)
        return p, [None if miss(0.2) else lo + rng.randint(0, span) for _ in range(n)]
    if p == 'equal-one-missing':
        v = rng.randint(0, top)
        col = [v] * n
        if w > 1:
            col[rng.randrange(n)] = None
        return p, col
    if p == 'extremes':
        span = min(top, span_cap)
        col = [rng.choice([top - span, top]) for _ in range(n)]
        return p, col
    if p == 'near':
        v = rng.randint(0, top)
        return p, [min(top, v + rng.randint(0, 2)) for _ in range(n)]
    if p == 'allones':
        ones = 2 ** w - 1
        col = [rng.choice([ones, rng.randint(0, top), rng.randint(0, top), None]) for _ in range(n)]
        col[rng.randrange(n)] = ones
        if n == 1 or rng.random() < 0.15:
            return p, [ones] * n             # the missing pattern itself, in every subset
        if not any(x is not None and x < ones for x in col):
            col[(col.index(ones) + 1) % n] = rng.randint(0, top)    # a minimum the column can be built on
        return p, col
    raise AssertionError(p)


def bval(bs):
    return {'b': bytes(bs).hex()}


def str_column(rng, n, nbytes):
    def text(k=None):
        k = nbytes if k is None else k
        return bytes(rng.choice(b'ABCDEFGHIJKLMNOPQRSTUVWXYZ0123456789 -') for _ in range(k))
    p = rng.choice(['equal', 'all-missing', 'nul-equal', 'ff-equal', 'different', 'with-missing', 'with-nul', 'with-ff',
                    'short', 'short-equal', 'nul-and-missing', 'blank-equal'])
    if p == 'equal':
        v = bval(text())
        return p, [v] * n
    if p == 'all-missing':
        return p, [None] * n
    if p == 'nul-equal':
        return p, [bval(b'\0' * nbytes)] * n
    if p == 'ff-equal':
        return p, [bval(b'\xff' * nbytes)] * n
    if p == 'blank-equal':
        return p, [bval(b' ' * nbytes)] * n
    if p == 'different':
        return p, [bval(text()) for _ in range(n)]
    if p == 'with-missing':
        col = [None if rng.random() < 0.4 else bval(text()) for _ in range(n)]
        return p, col
    if p == 'with-nul':
        col = [bval(b'\0' * nbytes) if rng.random() < 0.5 else bval(text()) for _ in range(n)]
        return p, col
    if p == 'with-ff':
        col = [bval(b'\xff' * nbytes) if rng.random() < 0.4 else bval(text()) for _ in range(n)]
        return p, col
    if p == 'short':
        return p, [bval(text(rng.randint(0, nbytes))) for _ in range(n)]
    if p == 'short-equal':
        v = bval(text(rng.randint(0, nbytes)))
        return p, [v] * n
    if p == 'nul-and-missing':
        return p, [None if rng.random() < 0.5 else bval(b'\0' * nbytes) for _ in range(n)]
    raise AssertionError(p)


class Slots(object):
    """template pieces with one or more columns each; every piece is a self-contained part"""

    def __init__(self, rng):
        self.rng = rng
        b, _ = tables_io.read_group(('0', '0_0', str(C.DEFAULT_VERSION)))
        self.b = b
        kind = tables_io.unit_kind
        self.codes = sorted(i for i, v in b.items() if kind(v[1]) == 'c' and i // 1000 not in (31, 33) and 2 <= v[4] <= 31)
        self.scaled = sorted(i for i, v in b.items() if kind(v[1]) == 'n' and v[2] > 0 and i // 1000 != 31 and 2 <= v[4] <= 32)
        self.strings = sorted(i for i, v in b.items() if kind(v[1]) == 's' and v[4] % 8 == 0 and 8 <= v[4] <= 256)

    def slot(self, n):
        """-> (tag, ids, columns) ; columns: list of per-subset value lists (each of length n)"""
        rng = self.rng
        t = rng.choice(['num0', 'num0', 'num0', 'numS', 'numS201', 'code', 'code', 'str', 'str', 'str208', 'op205',
                        'assoc', 'skip', 'refval', 'onebit'])
        if t == 'num0':
            w = rng.choice([1, 2, 3, 4, 5, 7, 8, 9, 15, 16, 17, 24, 31, 32, 33, 47, 48, 49, 62, 63, 64, rng.randint(1, 64)])
            p, col = int_column(rng, n, w)
            return 'num0:w%d:%s' % (w, p), [201000 + 128 + w - 8, NUM8, 201000], [col]
        if t in ('numS', 'numS201'):
            e = rng.choice(self.scaled)
            _, _, scale, ref, nbits = self.b[e][:5]
            if t == 'numS201':
                w = rng.randint(max(1, nbits - 6), 48)
                y = 128 + w - nbits
                if not 1 <= y <= 255:
                    y, w = 128 + 1, nbits + 1
                ids = [201000 + y, e, 201000]
            else:
                w = nbits
                ids = [e]
            p, col = int_column(rng, n, w)
            return '%s:w%d:%s' % (t, w, p), ids, [[None if x is None else {'m': x + ref, 's': scale} for x in col]]
        if t == 'code':
            e = rng.choice(self.codes)
            w = self.b[e][4]
            p, col = int_column(rng, n, w, allones=True)
            return 'code:w%d:%s' % (w, p), [e], [col]
        if t == 'onebit':
            col = [rng.randint(0, 1) for _ in range(n)] if rng.random() < 0.7 else [rng.randint(0, 1)] * n
            return 'num0:w1:bits', [201000 + 128 + 1 - 8, NUM8, 201000], [col]
        if t == 'str':
            e = rng.choice(self.strings)
            p, col = str_column(rng, n, self.b[e][4] // 8)
            return 'str:%s' % p, [e], [col]
        if t == 'str208':
            y = rng.randint(1, 40)
            p, col = str_column(rng, n, y)
            return 'str208:%s' % p, [208000 + y, rng.choice(self.strings), 208000], [col]
        if t == 'op205':
            y = rng.randint(1, 30)
            p, col = str_column(rng, n, y)
            return 'op205:%s' % p, [205000 + y], [col]
        if t == 'assoc':
            y = rng.choice([1, 2, 3, 4, 6, 8, 16, 33, 63, 64])
            _, meaning = int_column(rng, n, 6)
            pa, assoc = int_column(rng, n, y)
            if rng.random() < 0.5:
                pe, elem = int_column(rng, n, 8)
                ids = [204000 + y, 31021, NUM8, 204000]
            else:
                e = rng.choice(self.codes)
                pe, elem = int_column(rng, n, self.b[e][4], allones=True)
                ids = [204000 + y, 31021, e, 204000]
            return 'assoc:w%d:%s' % (y, pa), ids, [meaning, assoc, elem]
        if t == 'skip':
            y = rng.choice([1, 2, 5, 8, 13, 24, 40, 63, 64])
            p, col = int_column(rng, n, y)
            return 'skipped:w%d:%s' % (y, p), [206000 + y, rng.choice([63255, 48001, 63001])], [col]
        if t == 'refval':
            y = rng.randint(2, 16)
            r = rng.randint(-(2 ** (y - 1) - 1), 2 ** (y - 1) - 1)
            p, col = int_column(rng, n, 8)
            return 'refval:%s' % p, [203000 + y, NUM8, 203255, NUM8, 203000], [[r] * n, [None if x is None else x + r for x in col]]
        raise AssertionError(t)

    def case(self, idx):
        rng = self.rng
        n = rng.choice([1, 2, 2, 2, 3, 3, 4, 5, 6, 9, 17, 33, 60])
        k = rng.randint(1, 7)
        parts, tags, cols = [], [], []
        for _ in range(k):
            tag, ids, cs = self.slot(n)
            parts.append(ids)
            tags.append(tag)
            cols.extend(cs)
        c = P.Case(parts, [], n, True, rng.choice([4, 4, 4, 3]), idx)
        c.valss = [[col[s] for col in cols] for s in range(n)]
        c.note = ' '.join(tags)
        return c


def directed_cases():
    """always run: the shapes the property text names"""
    out = []

    def add(note, ids, cols):
        n = len(cols[0])
        c = P.Case([ids], [], n, True, 4, len(out))
        c.valss = [[col[s] for col in cols] for s in range(n)]
        c.note = 'directed:' + note
        out.append(c)
    nul8 = {'b': '00' * 8}
    add('all-equal character column of NUL bytes', [1026], [[nul8, nul8]])
    add('all-equal character column of NUL bytes, 3 subsets, next to text', [1026, 1026], [[nul8] * 3, [{'b': b'ABCDEFGH'.hex()}] * 3])
    add('NUL and text', [1026], [[nul8, {'b': b'ABCDEFGH'.hex()}]])
    add('0xFF strings', [1026], [[{'b': 'ff' * 8}] * 2])
    add('missing strings', [1026], [[None, None]])
    add('missing next to text', [1026], [[None, {'b': b'ABCDEFGH'.hex()}, None]])
    add('min and missing', [NUM8], [[5, None, 5]])
    add('range 2^k-2', [NUM8], [[3, 9, 5]])
    add('range 2^k-1', [NUM8], [[3, 10, 5]])
    add('all missing', [NUM8], [[None, None, None]])
    add('code all ones next to a value', [2002], [[3, 15]])
    add('code all ones, all equal', [2002], [[15, 15]])
    add('code missing next to all ones', [2002], [[None, 15, 2]])
    add('one-bit fields', [201121, NUM8, 201000], [[0, 1, 1, 0]])
    add('64-bit fields', [201184, NUM8, 201000], [[2 ** 64 - 2, 2 ** 64 - 5, None]])
    add('associated field', [204002, 31021, NUM8, 204000], [[1, 1], [0, None], [7, 7]])
    add('skipped local field', [206009, 63255], [[511 - 1, 3, None]])
    add('new reference value', [203010, NUM8, 203255, NUM8, 203000], [[-100, -100], [-100, 55]])
    return out


def random_part(ctx, drv, treq, count):
    rng = ctx.rng('random')
    slots = Slots(rng)
    cases = directed_cases()
    nd = len(cases)
    for i in range(count):
        cases.append(slots.case(nd + i))
    for start in range(0, len(cases), 100):
        chunk = cases[start:start + 100]
        for c, probs, info in evaluate(drv, treq, chunk, rng):
            tag = 'directed' if c.note.startswith('directed') else 'random'
            tally(ctx, c, info, tag)
            for t in c.note.split(' '):
                if ':' in t and tag == 'random':
                    bits = t.split(':')
                    ctx.count('column:' + bits[0])
                    ctx.count('pattern:' + bits[-1])
                    if len(bits) == 3:
                        ctx.count('field-width:' + bits[1][1:])
            if info.get('enc') and info['enc'] != ('ok', 'ok'):
                report(ctx, 'encode', 'conforming values refused: compressed %s, uncompressed %s' % info['enc'], c)
                continue
            if probs:
                stage, why, extra = probs[0]
                if not may_shrink(ctx):
                    report(ctx, stage, why, c, dict(extra, note=c.note))
                    continue
                small = c
                # one part alone, then fewer subsets
                if len(c.parts) > 1:
                    pos = 0
                    widths_of = []
                    for ids in c.parts:
                        k = ncols_of(ids)
                        widths_of.append((pos, k))
                        pos += k
                    for ids, (pos, k) in zip(c.parts, widths_of):
                        c2 = P.Case([ids], [], c.n, True, c.edition, c.idx)
                        c2.valss = [vs[pos:pos + k] for vs in c.valss]
                        c2.note = c.note
                        if fails(drv, treq, c2, stage, ctx.rng('shrink-k')):
                            small = c2
                            break
                small = drop_subsets(small, lambda c2: fails(drv, treq, c2, stage, ctx.rng('shrink-k')))
                if small is not c:
                    r = evaluate(drv, treq, [small], ctx.rng('shrink-k'))[0]
                    pr = [p for p in r[1] if p[0] == stage]
                    if pr:
                        report(ctx, stage, pr[0][1], small, dict(pr[0][2], note=small.note))
                        continue
                report(ctx, stage, why, c, dict(extra, note=c.note))


# ---------------------------------------------------------------------------------------------
# (e) every width modifier x all special packed integers x all column shapes (harness/c05widths.py)
def widths_part(ctx, drv, treq):
    rng = ctx.rng('widths')
    wp = c05widths.WidthProbes(rng, thorough=ctx.tier != 'quick')
    cases = wp.all_cases(str_column)
    for start in range(0, len(cases), 100):
        chunk = cases[start:start + 100]
        for c, probs, info in evaluate(drv, treq, chunk, rng):
            tally(ctx, c, info, 'widths')
            sp, cols, notes = c.wspec
            ctx.count('widths:modifier-' + sp.mod)
            ctx.count('widths:columns', len(cols))
            for nt in notes:
                ctx.count('widths:' + nt)
            if sp.kind != 's':
                ctx.count('widths:%s' % ('widened' if sp.w > sp.nb else 'narrowed' if sp.w < sp.nb else 'width-unchanged'))
                for col in cols:
                    if sp.w != sp.nb and sp.nb > 1 and (1 << sp.nb) - 1 in col:
                        ctx.count('widths:columns-holding-the-all-ones-value-of-the-table-b-width')
            if info.get('enc') and info['enc'] != ('ok', 'ok'):
                report(ctx, 'encode', 'conforming values refused: compressed %s, uncompressed %s' % info['enc'], c, {'note': c.note})
                continue
            if probs:
                stage, why, extra = probs[0]
                if may_shrink(ctx):
                    done = False
                    for c1 in wp.single_columns(c):
                        r = evaluate(drv, treq, [c1], ctx.rng('shrink-k'))[0]
                        pr = [p for p in r[1] if p[0] == stage]
                        if pr:
                            report(ctx, stage, pr[0][1], c1, dict(pr[0][2], note=c1.note))
                            done = True
                            break
                    if done:
                        continue
                report(ctx, stage, why, c, dict(extra, note=c.note))


def ncols_of(ids):
    """number of values a part of `Slots` / `directed_cases` takes per subset"""
    f = ids[0] // 1000
    if f == 204:
        return 3
    if f == 203:
        return 2
    if f in (201, 208, 206):
        return 1
    return len(ids)


# ---------------------------------------------------------------------------------------------
# (f) finding F24: a STRUCTURAL value of compressed data (delayed replication factor, bitmap bit) missing / different in one
#     subset.  Bit-level messages of harness/structcols.py.  Oracle: whatever the compressed message decodes to, the same
#     values written uncompressed (and compressed again) by the Encoder decode to the same values, labels and links.
def structural_oracle(c, obs):
    """-> (why, extra) or None for one mutated message `c` whose implementation decode is `obs`"""
    if obs[0] != 'ok':
        return None                       # refused: nothing that an uncompressed form could differ from
    vals = [list(s['v']) for s in obs[1]]
    if any(v is None and lab in ('031031', '031000') for s in obs[1] for lab, v in zip(s['d'], s['v'])):
        return 'one-bit'                  # a missing value of a one-bit field is not a conforming input (see `assumptions`)
    for comp, what in ((False, 'uncompressed'), (True, 'compressed again')):
        st, b2, _ = C.impl_encode(C.make_message_json(c['ids'], vals, comp))
        if st != 'ok':
            return ('the compressed message decodes to %r, which the Encoder refuses to write %s (%s)' % (
                [v[:12] for v in vals[:3]], what, st), {})
        o2 = C.impl_decode(b2)
        why = obs_diff(obs, o2, 'compressed', what)
        if why:
            return (why, {'other_hex': b2.hex()})
    return None


def structural_part(ctx, drv, treq, count, only=None):
    rng = ctx.rng('structural')
    cases = only if only is not None else structcols.make_cases(rng, count)
    reqs = [treq]
    obss = []
    for c in cases:
        obss.append(C.impl_decode(c['bytes']))
        reqs.append({'op': 'dec-data', 'ids': c['ids'], 'compressed': True, 'n': c['n'], 'bits': C.data_bits(c['bytes'])})
    models = drv.batch(reqs)[1:] if cases else []
    for c, obs, model in zip(cases, obss, models):
        ctx.case({'ids': c['ids'], 'n': c['n'], 'structural': [c['column'], c['kind'], c['label'], c['position']]},
                 nontrivial=True, sample=False)
        ctx.traces += 1
        ctx.count('structural:%s:%s:%s' % (c['column'], c['kind'], 'decodes' if obs[0] == 'ok' else 'refused'))
        ctx.count('structural:label-' + c['label'])
        if c['inside_replication']:
            ctx.count('structural:behind-or-inside-a-replication')
        rep = {'structural': True, 'ids': c['ids'], 'n_subsets': c['n'], 'message_hex': c['bytes'].hex(),
               'wellformed_hex': c['base_bytes'].hex(), 'kind': c['kind'], 'column': c['column'], 'label': c['label'],
               'position': c['position'], 'intended_column': c['intended']}
        sig = {'stage': 'structural-transparency', 'column': c['column'], 'kind': c['kind']}
        bad = structural_oracle(c, obs)
        if bad == 'one-bit':
            ctx.count('structural:decodes-to-a-missing-one-bit-value(not-conforming,oracle-skipped)')
            bad = None
        if bad:
            rep['why'] = bad[0]
            rep.update(bad[1])
            ctx.violation('structural-transparency: %s value %s (%s of %s at position %d): %s (ids %s, %d subsets)' % (
                c['column'], c['kind'], c['intended'], c['label'], c['position'], bad[0], c['ids'][:30], c['n']), rep, signature=sig)
        why = P.compare_decode(obs, model)
        if why:
            rep2 = dict(rep, why=why)
            ctx.violation('structural decode-correspondence: %s (ids %s, %s %s)' % (why, c['ids'][:30], c['column'], c['kind']), rep2,
                          signature=dict(sig, stage='structural-decode-correspondence'), no_failing_input=not bad)


# ---------------------------------------------------------------------------------------------
def run(ctx):
    drv = ctx.driver
    treq = tables_io.group_request()
    quick = ctx.tier == 'quick'
    ctx.rule = ('a case counts when it has at least two subsets and a non-missing value (generated / random), is a corpus file '
                'that re-encodes with the flag flipped, or is a distinct column of the exhaustive part')
    ctx.assumptions = ['a missing value for a 1-bit field is not a conforming input (FM 94 has no missing value for 1-bit fields); never generated',
                       'numeric entries are below the all-ones pattern of their field (the property\'s raw domain); code/flag entries may reach it']
    structural_part(ctx, drv, treq, 150 if quick else 3000)
    random_part(ctx, drv, treq, 260 if quick else 6000)
    widths_part(ctx, drv, treq)
    generated_part(ctx, drv, treq, 540 if quick else 12000)
    corpus_part(ctx, drv)
    exhaustive_part(ctx, drv, treq, 3 if quick else 4)


def replay(ctx, path):
    with open(path) as f:
        body = json.load(f)
    rep = body['replay']
    drv = ctx.driver
    if 'undischarged' in rep:
        print(json.dumps(rep, default=repr)[:3000])
        return
    if rep.get('structural'):
        c = {'ids': rep['ids'], 'n': rep['n_subsets'], 'bytes': bytes.fromhex(rep['message_hex']),
             'base_bytes': bytes.fromhex(rep['wellformed_hex']), 'kind': rep['kind'], 'column': rep['column'],
             'label': rep['label'], 'position': rep['position'], 'intended': rep['intended_column'], 'inside_replication': False}
        o = C.impl_decode(c['bytes'])
        print('replay: the message decodes to', o[0], o[1] and [s['v'] for s in o[1]])
        structural_part(ctx, drv, tables_io.group_request(), 0, only=[c])
        print('replay structural:', 'violation' if ctx.violations else 'holds (refused, or transparent)')
        return
    if 'file' in rep:
        corpus_part(ctx, drv, only=rep['file'])
        print('replay corpus file:', 'violation' if ctx.violations else 'transparent / skipped', ctx.dist)
        return
    c = P.Case([rep['ids']], rep.get('forced', []), rep['n_subsets'], True, rep.get('edition', 4))
    c.valss = rep['values']
    treq = tables_io.group_request()
    rng = ctx.rng('replay')
    if rep.get('ks'):
        # the recorded width requests
        global K_CHOICES
        ks = list(rep['ks'])
        it = iter(ks)

        class Fixed(object):
            def choice(self, seq):
                return next(it, 0)
        rng = Fixed()
    r = evaluate(drv, treq, [c], rng)[0]
    if rep.get('stage') == 'exhaustive' and not r[1] and rep.get('message_hex'):
        b = bytes.fromhex(rep['message_hex'])
        o = C.impl_decode(b)
        print('replay: message decodes to', o[1] and [s['v'] for s in o[1]], 'expected', c.valss)
    for stage, why, extra in r[1]:
        print('replay: %s: %s' % (stage, why))
    if not r[1]:
        print('replay: compressed and uncompressed forms decode identically; model agrees')
    else:
        report(ctx, r[1][0][0], r[1][0][1], c, r[1][0][2])
