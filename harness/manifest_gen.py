"""Regenerates MANIFEST.json from the table below:  python -m harness.manifest_gen"""
import json
import os

VERIF = os.path.dirname(os.path.dirname(os.path.abspath(__file__)))

BASE_NOTE = ('Trusted: Lean 4.33 kernel (axioms propext, Classical.choice, Quot.sound only; audited per run), the compiled '
             'model driver, the Python correspondence harness, and - for the Cxx_src_* theorems - the Python-to-Lean translator '
             '(harness/py2lean*.py, primitive table Gen/PyPrelude.lean; construct table in notes/Tie.md). The theorems are about the '
             'Lean model; the tie to /repo is checked on every run in two ways: the differential run of the compiled model against '
             'the implementation (counts in the evidence file) and, where a property has Cxx_src_* theorems, definitions regenerated '
             "from /repo's Python source on every check and proved equal to the model definitions for all inputs (listed under "
             'coverage.regenerated_from_source in the evidence file).')

CHECKS = {
    'C19': dict(
        text='Kernel-checked theorems over the model of bitops.py for every width and every field list (round trip, missing rule, '
             'bytes padding, in-place overwrite frame, refusal, read past end) plus an exhaustive 64-width grid and random field '
             'programs run on both the model and pybufrkit.bitops with exact comparison.',
        technique='Lean 4 theorems (induction over field lists, bit arithmetic) + checked model/implementation correspondence',
        design='6 C19',
        note=BASE_NOTE + ' bitstring is modelled as list-of-bits operations.'),
}

def discover():
    """every harness/props/cxx.py may carry a META dict (text, technique, design, note) -> CHECKS entry"""
    import importlib
    d = os.path.join(VERIF, 'harness', 'props')
    for f in sorted(os.listdir(d)):
        if f.startswith('c') and f.endswith('.py') and f[1:-3].isdigit():
            mod = importlib.import_module('harness.props.' + f[:-3])
            meta = getattr(mod, 'META', None)
            if meta and meta.get('claimed', True):
                pid = f[:-3].upper()
                CHECKS[pid] = dict(text=meta['text'], technique=meta['technique'], design=meta.get('design', '6 ' + pid),
                                   note=BASE_NOTE + ' ' + meta.get('note', ''))


NOT_YET = 'check under construction in this round (DESIGN.md section 8); claimed once its Lean model, theorems and correspondence run'


def main():
    discover()
    props = [json.loads(l)['id'] for l in open(os.path.join(VERIF, 'properties.jsonl'))]
    # every property with Cxx_src_* theorems says so in its level text (names taken from Props/Cxx*.lean)
    from harness import core
    for pid, c in CHECKS.items():
        try:
            src = [t for t in core.theorems_of(pid) if '_src_' in t]
        except Exception:
            src = []
        if src and 'Source tie:' not in c['text']:
            KEY = ('process_members', 'build_eq', 'flatten_build', 'expand_build', 'generate_eq', 'parse_eq', 'print_', 'query_eq',
                   'preprocess_eq', 'process_operator', 'process_element', 'bitmap_definition', 'reset_template', 'switch_subset',
                   'add_bitmap_link', 'finish_section', 'resume_policy', 'nbits_for_uint', 'subset_', 'labels')
            rank = lambda t: min([i for i, k in enumerate(KEY) if k in t] or [len(KEY) + ('const' in t)])
            main = sorted(src, key=rank)[:8]
            c['text'] += (' Source tie: %d theorems %s_src_* prove, for all inputs, that definitions regenerated from /repo\'s Python '
                          'source on every check equal the model definitions these theorems are about (e.g. %s); a behaviour-changing '
                          'edit of that source breaks them.' % (len(src), pid, ', '.join(main)))
    checks = []
    for pid in props:
        if pid in CHECKS:
            c = CHECKS[pid]
            checks.append({
                'property_id': pid,
                'quick_cmd': './check %s --tier quick' % pid,
                'thorough_cmd': './check %s --tier thorough' % pid,
                'evidence_file': 'evidence/%s.json' % pid,
                'replay_cmd_template': './check %s --replay {path}' % pid,
                'engine': 'lean-model',
                'level_claimed': {'category': 'proof', 'text': c['text'], 'design_ref': c['design']},
                'level_note': c['note'],
                'technique': c['technique'],
            })
    m = {
        'version': 1,
        'setup_cmd': 'cd lean && lake build bufrdrv BufrModel',
        'hooks': {
            'guard': 'PYBUFRKIT_VERIF',
            'enable': 'no source hooks are needed; checks import pybufrkit from /repo\'s working tree (PYBUFRKIT_VERIF=1 is set by the harness but nothing in /repo reads it); the C13 check wraps __setattr__/__delattr__ of pybufrkit\'s descriptor, statement and table classes in its own process at run time (harness/c13heap.py), without any change to /repo',
            'baseline_off_cmd': 'cd /repo && /venv/bin/python -m pytest -ra -q -p no:cacheprovider --timeout=900 --continue-on-collection-errors',
            'source_commits': [],
            'add_only': True,
        },
        'engines': [{'name': 'lean-model', 'path': 'lean/', 'serves_properties': sorted(CHECKS),
                     'kind_free_text': 'Lean 4 model + theorems (lake lib BufrModel), definitions regenerated from /repo\'s Python source on every check (harness/py2lean*.py -> lean/BufrModel/Gen), compiled JSON-lines driver bufrdrv, Python differential harness'}],
        'checks': checks,
        'not_applicable': [{'property_id': p, 'reason': NOT_YET} for p in props if p not in CHECKS],
        'notes': 'Fix commits in /repo are listed in KNOWN_FINDINGS.json (status fixed).',
    }
    with open(os.path.join(VERIF, 'MANIFEST.json'), 'w') as f:
        json.dump(m, f, indent=1)


if __name__ == '__main__':
    main()
