"""
Implementation-side observations of the views (C09, C16): the wired node tree, the four renderings, the three
converters back to the flat form and the encodings made from them, in canonical (picklable) form.
"""
import json

from harness import core
from harness import objs
from harness import coder_io as C

MAX_ATTR_DEPTH = 60


class AttrCycle(Exception):
    pass


def node_canon(n, depth=0):
    from pybufrkit import templatedata as T
    if depth > MAX_ATTR_DEPTH:
        raise AttrCycle()
    if isinstance(n, T.NoValueDataNode):
        if isinstance(n, T.SequenceNode):
            return {'seq': str(n.descriptor), 'm': [node_canon(m) for m in n.members]}
        if isinstance(n, T.FixedReplicationNode):
            return {'fix': str(n.descriptor), 'n': n.descriptor.n_members, 'm': [node_canon(m) for m in n.members]}
        if isinstance(n, T.DelayedReplicationNode):
            return {'del': str(n.descriptor), 'n': n.descriptor.n_members, 'f': node_canon(n.factor),
                    'm': [node_canon(m) for m in n.members]}
        return {'nv': str(n.descriptor)}
    d = {'k': type(n).__name__[:-4], 'i': n.index}
    if hasattr(n, 'attributes'):
        d['a'] = [node_canon(a, depth + 1) for a in n.attributes]
    return d


def tree_indices(nodes):
    """Oracle walk over the implementation's node objects: the flat indices held as members, replication
    factors and associated-field attributes (in tree order), and whether every other attribute (at any depth)
    is, by identity, a node that the walk also meets as a member or factor."""
    from pybufrkit import templatedata as T
    order = []
    member_ids = set()
    others = []

    def value_node(n):
        for a in getattr(n, 'attributes', []):
            if isinstance(a, T.AssociatedFieldNode):
                order.append(a.index)
                member_ids.add(id(a))
                for aa in getattr(a, 'attributes', []):
                    others.append(aa)
            else:
                others.append(a)
        order.append(n.index)
        member_ids.add(id(n))

    def walk(ns):
        for n in ns:
            if isinstance(n, T.NoValueDataNode):
                if isinstance(n, T.DelayedReplicationNode):
                    value_node(n.factor)
                if hasattr(n, 'members'):
                    walk(n.members)
            else:
                value_node(n)

    walk(nodes)
    # attributes of attributes (virtual ones) must be nodes of the tree too
    seen = set()
    todo = list(others)
    foreign = 0
    while todo:
        a = todo.pop()
        if id(a) in seen:
            continue
        seen.add(id(a))
        if id(a) not in member_ids:
            foreign += 1
        todo.extend(getattr(a, 'attributes', []))
    return order, foreign


def strip_description(x):
    if isinstance(x, dict):
        return {k: strip_description(v) for k, v in x.items() if k != 'description'}
    if isinstance(x, list):
        return [strip_description(v) for v in x]
    return x


def strict_equal(a, b):
    """equality of two flat-JSON values that also tells 1 from 1.0 and True, and b'x' from 'x'"""
    if type(a) is not type(b):
        return False
    if isinstance(a, (list, tuple)):
        return len(a) == len(b) and all(strict_equal(x, y) for x, y in zip(a, b))
    if isinstance(a, float):
        return repr(a) == repr(b)
    return a == b


def first_strict_diff(a, b, path=()):
    if type(a) is not type(b):
        return path, a, b
    if isinstance(a, (list, tuple)):
        if len(a) != len(b):
            return path, 'len=%d' % len(a), 'len=%d' % len(b)
        for i, (x, y) in enumerate(zip(a, b)):
            d = first_strict_diff(x, y, path + (i,))
            if d:
                return d
        return None
    if isinstance(a, float):
        return None if repr(a) == repr(b) else (path, a, b)
    return None if a == b else (path, a, b)


def jsonable(v):
    """flat-JSON leaf -> something json.dump can write (for replays / samples)"""
    if isinstance(v, bytes):
        return {'b': v.hex()}
    if isinstance(v, (list, tuple)):
        return [jsonable(x) for x in v]
    return v


def nested_text_layout(text):
    """per subset: the sequence of ('node', label) / ('rep', k, n) entries of the nested text of the data section"""
    subsets = []
    in_data = False
    for line in text.split('\n'):
        if line.startswith('<<<<<<'):
            in_data = False
            continue
        if line.startswith('######'):
            subsets.append([])
            in_data = True
            continue
        if not in_data:
            continue
        t = line.lstrip(' .')
        if t.startswith('# --- '):
            w = t.split()
            subsets[-1].append(['rep', int(w[2]), int(w[4])])
        elif t.startswith('-> '):
            subsets[-1].append(['node', t[3:9]])
        else:
            subsets[-1].append(['node', t[:6]])
    return subsets


def nested_json_layout(nested):
    """the same sequence, derived from the nested JSON of the template data (list of subsets)"""
    def emit(out, v):
        out.append(['node', v['id']])
        for a in v.get('attributes', []):
            emit(out, a)

    def walk(out, nodes):
        for n in nodes:
            if 'value' in n:
                emit(out, n)
                continue
            out.append(['node', n['id']])
            if 'factor' in n:
                emit(out, n['factor'])
            if 'members' in n:
                if n['id'].startswith('1'):
                    for ir, ms in enumerate(n['members']):
                        out.append(['rep', ir + 1, len(n['members'])])
                        walk(out, ms)
                else:
                    walk(out, n['members'])
    res = []
    for sub in nested:
        out = []
        walk(out, sub)
        res.append(out)
    return res


def observe(b, encode=True, max_values=None):
    """Everything the C09 oracle and the correspondence need from the implementation for message bytes `b`.
    -> dict; 'decode' is 'ok' or an error tag (then nothing else is present)."""
    from pybufrkit.decoder import Decoder
    from pybufrkit.encoder import Encoder
    from pybufrkit.renderer import FlatTextRenderer, FlatJsonRenderer, NestedTextRenderer, NestedJsonRenderer
    from pybufrkit import utils as U
    out = {}
    try:
        msg = objs.decoder().process(b, wire_template_data=False)
    except Exception as e:  # noqa
        out['decode'] = core.err_tag(e)
        return out
    out['decode'] = 'ok'
    key = msg.table_group_key
    out['tables'] = [key.wmo_tables_sn, key.local_tables_sn, key.tables_root_dir]
    td = msg.template_data.value
    n_sub = msg.n_subsets.value
    out['n_subsets'] = n_sub
    out['compressed'] = bool(msg.is_compressed.value)
    out['lens'] = [len(v) for v in td.decoded_values_all_subsets]
    if max_values is not None and sum(out['lens']) > max_values:
        out['decode'] = 'skipped:large'
        return out
    out['subsets'] = [{'d': [str(d) for d in td.decoded_descriptors_all_subsets[i]],
                       'v': list(td.decoded_values_all_subsets[i]),
                       'l': sorted([a, o] for a, o in td.bitmap_links_all_subsets[i].items())} for i in range(n_sub)]
    flat = FlatJsonRenderer().render(msg)
    out['flat_values'] = td.decoded_values_all_subsets
    # -- wiring
    try:
        msg.wire()
        out['wire'] = 'ok'
    except Exception as e:  # noqa
        out['wire'] = core.err_tag(e)
        out['wire_exc'] = '%s: %s' % (type(e).__name__, str(e)[:120])
    stages = {}
    out['stages'] = stages
    if out['wire'] == 'ok':
        try:
            out['tree'] = [[node_canon(n) for n in td.decoded_nodes_all_subsets[i]] for i in range(n_sub)]
        except (AttrCycle, RecursionError):
            out['tree'] = 'err:other'
        idx = []
        for i in range(n_sub):
            order, foreign = tree_indices(td.decoded_nodes_all_subsets[i])
            idx.append({'order_ok': order == list(range(out['lens'][i])),
                        'perm_ok': sorted(order) == list(range(out['lens'][i])), 'foreign': foreign,
                        'n': len(order)})
        out['indices'] = idx
    # -- the three non-trivial renderings and their converters
    texts = {}

    def stage(name, render, convert):
        st = {}
        try:
            r = render()
        except RecursionError:
            st['render'] = 'err:other'
            st['exc'] = 'RecursionError'
            stages[name] = st
            return None
        except Exception as e:  # noqa
            st['render'] = core.err_tag(e)
            st['exc'] = '%s: %s' % (type(e).__name__, str(e)[:120])
            stages[name] = st
            return None
        st['render'] = 'ok'
        texts[name] = r
        try:
            back = convert(r)
        except Exception as e:  # noqa
            st['convert'] = core.err_tag(e)
            st['exc'] = '%s: %s' % (type(e).__name__, str(e)[:120])
            stages[name] = st
            return None
        st['convert'] = 'ok'
        d = first_strict_diff(back, flat)
        st['equal'] = d is None
        if d is not None:
            st['diff'] = [list(d[0]), repr(d[1])[:80], repr(d[2])[:80]]
        stages[name] = st
        return back

    nj = stage('nested_json', lambda: NestedJsonRenderer().render(msg), U.nested_json_to_flat_json)
    ft = stage('flat_text', lambda: FlatTextRenderer().render(msg), U.flat_text_to_flat_json)
    nt = stage('nested_text', lambda: NestedTextRenderer().render(msg), U.nested_text_to_flat_json)
    if 'nested_json' in texts:
        # the template-data value of the nested JSON, per subset, without the descriptions
        for sec in texts['nested_json']:
            for p in sec:
                if p['name'] == 'template_data':
                    out['nested'] = strip_description(p['value'])
    out['texts'] = {k: v for k, v in texts.items() if k != 'nested_json'}
    if 'nested' in out and 'nested_text' in texts:
        # nested text and nested JSON must lay the same nodes out in the same repetitions
        a, m = nested_text_layout(texts['nested_text']), nested_json_layout(out['nested'])
        stages['nested_text']['layout_equal'] = a == m
        if a != m:
            for k, (x, y) in enumerate(zip(a, m)):
                if x != y:
                    j = next((j for j, (p, q) in enumerate(zip(x, y)) if p != q), min(len(x), len(y)))
                    stages['nested_text']['layout_diff'] = 'subset %d entry %d: text %s, JSON %s' % (k, j, x[j:j + 1], y[j:j + 1])
                    break
    # -- encodings as the CLI makes them (JSON formats go through json.dumps / json.loads)
    if encode:
        enc = {}

        def encode_one(name, data):
            try:
                m = objs.encoder().process(data, wire_template_data=False)
                enc[name] = m.serialized_bytes
            except Exception as e:  # noqa
                enc[name] = core.err_tag(e) + ' ' + type(e).__name__

        encode_one('flat_json', json.loads(json.dumps(flat, **U.JSON_DUMPS_KWARGS)))
        if 'nested_json' in texts and stages['nested_json'].get('convert') == 'ok':
            encode_one('nested_json', U.nested_json_to_flat_json(json.loads(json.dumps(texts['nested_json'], **U.JSON_DUMPS_KWARGS))))
        if ft is not None:
            encode_one('flat_text', ft)
        if nt is not None:
            encode_one('nested_text', nt)
        out['enc_same'] = len(set(enc.values())) == 1
        out['enc_ok'] = all(isinstance(v, bytes) for v in enc.values())
        out['enc'] = {k: (v.hex() if isinstance(v, bytes) else v) for k, v in enc.items()} if not out['enc_same'] else sorted(enc)
    return out


# ---------------------------------------------------------------------------------------------
# comparison with the model's responses (op `views`)
def same_tree(impl, model):
    return impl == model


def same_nested(impl, model, path=''):
    """None when equal, else a description (values compared by the DESIGN 3.4 rule)"""
    if isinstance(impl, list) and isinstance(model, list):
        if len(impl) != len(model):
            return '%s: %d vs %d entries' % (path, len(impl), len(model))
        for i, (a, m) in enumerate(zip(impl, model)):
            d = same_nested(a, m, '%s[%d]' % (path, i))
            if d:
                return d
        return None
    if isinstance(impl, dict) and isinstance(model, dict):
        if sorted(impl) != sorted(model):
            return '%s: keys %s vs %s' % (path, sorted(impl), sorted(model))
        for k in impl:
            if k == 'value':
                if not C.same_value(impl[k], model[k]):
                    return '%s.value: %r vs %r' % (path, impl[k], model[k])
            elif k in ('id', 'virtual'):
                if impl[k] != model[k]:
                    return '%s.%s: %r vs %r' % (path, k, impl[k], model[k])
            else:
                d = same_nested(impl[k], model[k], path + '.' + k)
                if d:
                    return d
        return None
    return '%s: shapes differ' % path
