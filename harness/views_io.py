"""
Implementation-side observations of the views (C09, C16): the wired node tree, the four renderings, the three
converters back to the flat form and the encodings made from them, in canonical (picklable) form.
"""
import json

from harness import core
from harness import objs
from harness import coder_io as C

MAX_ATTR_DEPTH = 60


class AttrCycle(Exception):
    pass


def node_canon(n, depth=0):
    from pybufrkit import templatedata as T
    if depth > MAX_ATTR_DEPTH:
        raise AttrCycle()
    if isinstance(n, T.NoValueDataNode):
        if isinstance(n, T.SequenceNode):
            return {'seq': str(n.descriptor), 'm': [node_canon(m) for m in n.members]}
        if isinstance(n, T.FixedReplicationNode):
            return {'fix': str(n.descriptor), 'n': n.descriptor.n_members, 'm': [node_canon(m) for m in n.members]}
        if isinstance(n, T.DelayedReplicationNode):
            return {'del': str(n.descriptor), 'n': n.descriptor.n_members, 'f': node_canon(n.factor),
                    'm': [node_canon(m) for m in n.members]}
        return {'nv': str(n.descriptor)}
    d = {'k': type(n).__name__[:-4], 'i': n.index}
    if hasattr(n, 'attributes'):
        d['a'] = [node_canon(a, depth + 1) for a in n.attributes]
    return d


def tree_indices(nodes):
    """Oracle walk over the implementation's node objects: the flat indices held as members, replication
    factors and associated-field attributes (in tree order), and whether every other attribute (at any depth)
    is, by identity, a node that the walk also meets as a member or factor."""
    from pybufrkit import templatedata as T
    order = []
    member_ids = set()
    others = []

    def value_node(n):
        for a in getattr(n, 'attributes', []):
            if isinstance(a, T.AssociatedFieldNode):
                order.append(a.index)
                member_ids.add(id(a))
                for aa in getattr(a, 'attributes', []):
                    others.append(aa)
            else:
                others.append(a)
        order.append(n.index)
        member_ids.add(id(n))

    def walk(ns):
        for n in ns:
            if isinstance(n, T.NoValueDataNode):
                if isinstance(n, T.DelayedReplicationNode):
                    value_node(n.factor)
                if hasattr(n, 'members'):
                    walk(n.members)
            else:
                value_node(n)

    walk(nodes)
    # attributes of attributes (virtual ones) must be nodes of the tree too
    seen = set()
    todo = list(others)
    foreign = 0
    while todo:
        a = todo.pop()
        if id(a) in seen:
            continue
        seen.add(id(a))
        if id(a) not in member_ids:
            foreign += 1
        todo.extend(getattr(a, 'attributes', []))
    return order, foreign


def strip_description(x):
    if isinstance(x, dict):
        return {k: strip_description(v) for k, v in x.items() if k != 'description'}
    if isinstance(x, list):
        return [strip_description(v) for v in x]
    return x


def strict_equal(a, b):
    """equality of two flat-JSON values that also tells 1 from 1.0 and True, and b'x' from 'x'"""
    if type(a) is not type(b):
        return False
    if isinstance(a, (list, tuple)):
        return len(a) == len(b) and all(strict_equal(x, y) for x, y in zip(a, b))
    if isinstance(a, float):
        return repr(a) == repr(b)
    return a == b


def first_strict_diff(a, b, path=()):
    if type(a) is not type(b):
        return path, a, b
    if isinstance(a, (list, tuple)):
        if len(a) != len(b):
            return path, 'len=%d' % len(a), 'len=%d' % len(b)
        for i, (x, y) in enumerate(zip(a, b)):
            d = first_strict_diff(x, y, path + (i,))
            if d:
                return d
        return None
    if isinstance(a, float):
        return None if repr(a) == repr(b) else (path, a, b)
    return None if a == b else (path, a, b)


def jsonable(v):
    """flat-JSON leaf -> something json.dump can write (for replays / samples)"""
    if isinstance(v, bytes):
        return {'b': v.hex()}
    if isinstance(v, (list, tuple)):
        return [jsonable(x) for x in v]
    return v


def nested_text_layout(text):
    """per subset: the sequence of ('node', label) / ('rep', k, n) entries of the nested text of the data section"""
    subsets = []
    in_data = False
    for line in text.split('\n'):
        if line.startswith('<<<<<<'):
            in_data = False
            continue
        if line.startswith('######'):
            subsets.append([])
            in_data = True
            continue
        if not in_data:
            continue
        t = line.lstrip(' .')
        if t.startswith('# --- '):
            w = t.split()
            subsets[-1].append(['rep', int(w[2]), int(w[4])])
        elif t.startswith('-> '):
            subsets[-1].append(['node', t[3:9]])
        else:
            subsets[-1].append(['node', t[:6]])
    return subsets


def nested_json_layout(nested):
    """the same sequence, derived from the nested JSON of the template data (list of subsets)"""
    def emit(out, v):
        out.append(['node', v['id']])
        for a in v.get('attributes', []):
            emit(out, a)

    def walk(out, nodes):
        for n in nodes:
            if 'value' in n:
                emit(out, n)
                continue
            out.append(['node', n['id']])
            if 'factor' in n:
                emit(out, n['factor'])
            if 'members' in n:
                if n['id'].startswith('1'):
                    for ir, ms in enumerate(n['members']):
                        out.append(['rep', ir + 1, len(n['members'])])
                        walk(out, ms)
                else:
                    walk(out, n['members'])
    res = []
    for sub in nested:
        out = []
        walk(out, sub)
        res.append(out)
    return res


# ---------------------------------------------------------------------------------------------
# attribute owners: the four views must attach every bitmap-linked value (class 33 value after 222000, marker
# value 223255 / 224255 / 225255 / 232255) to the SAME element.  The flat views name the owner by its flat index
# (`bitmap_links`, the `-> N` column of the flat text); the nested views show the value under its owner.
LINK_KINDS = ('QualityInfo', 'Substitution', 'FirstOrderStats', 'DifferenceStats', 'Replacement')


def flat_text_links(text):
    """per subset: sorted [attribute index, owner index] pairs read from the `-> N` column of the flat text
    (0-based), and the labels of the lines"""
    subsets = []
    in_data = False
    for line in text.split('\n'):
        if line.startswith('<<<<<<'):
            in_data = False
            continue
        if line.startswith('######'):
            subsets.append({'links': [], 'labels': []})
            in_data = True
            continue
        if not in_data:
            continue
        idx = int(line[:5])
        subsets[-1]['labels'].append(line[6:12])
        if line[70:74] == ' -> ' and line[74:80].strip().isdigit():
            subsets[-1]['links'].append([idx - 1, int(line[74:80]) - 1])
    for s in subsets:
        s['links'].sort()
    return subsets


def tree_links(nodes):
    """canonical node tree (node_canon) of one subset -> set of (attribute index, owner index) for the attributes
    that are bitmap-linked value nodes (by node class), at any depth"""
    found = set()

    def value_node(n, depth=0):
        for a in n.get('a', []):
            if a.get('k') in LINK_KINDS:
                found.add((a['i'], n['i']))
            if depth < MAX_ATTR_DEPTH:
                value_node(a, depth + 1)

    def walk(ns):
        for n in ns:
            if 'k' in n:
                value_node(n)
            else:
                if 'f' in n:
                    value_node(n['f'])
                walk(n.get('m', []))
    walk(nodes)
    return found


def is_link_label(label):
    """label of a value that is shown as a (virtual) attribute because a bitmap links it: a class 33 element or a
    marker (T/F/D/R + id); the other virtual attributes are meaning nodes (031021, 008023, 008024)"""
    return label[:1] in 'TFDRM' or label[:3] == '033'


def nested_json_owner_problems(nested, labels, values, links, exempt):
    """Nested JSON of one subset against the flat view: the value nodes in document order carry the flat indices
    0..n-1 (associated fields before their owner); under the node of flat index j the bitmap-linked (virtual)
    attributes must be exactly the flat entries i with links[i] == j, in flat order, shown with the label and the
    value of entry i - and so on for the attributes of those attributes.  -> list of descriptions"""
    by_owner = {}
    for a, o in links:
        if a not in exempt:
            by_owner.setdefault(o, []).append(a)
    for o in by_owner:
        by_owner[o].sort()
    problems = []
    counter = [0]

    def check_attrs(p, j, depth):
        shown = [a for a in p.get('attributes', []) if a.get('virtual') and is_link_label(a['id'])]
        want = by_owner.get(j, [])
        got = [(a['id'], a.get('value')) for a in shown]
        exp = [(labels[i], values[i]) for i in want if i < len(labels)]
        if len(got) != len(exp) or any(g[0] != e[0] or not strict_equal(g[1], e[1]) for g, e in zip(got, exp)):
            if len(problems) < 3:
                problems.append('entry %d (%s): the nested JSON shows the linked attributes %r, the flat view links %r to it' % (
                    j + 1, labels[j] if j < len(labels) else '?', got[:6], [(i + 1,) + e for i, e in zip(want, exp)][:6]))
            return
        if depth < MAX_ATTR_DEPTH:
            for a, i in zip(shown, want):
                check_attrs(a, i, depth + 1)

    def value_param(p):
        for a in p.get('attributes', []):
            if 'virtual' not in a:
                counter[0] += 1
        j = counter[0]
        counter[0] += 1
        check_attrs(p, j, 0)

    def walk(members):
        for p in members:
            if 'value' in p:
                value_param(p)
            else:
                if 'factor' in p:
                    value_param(p['factor'])
                if 'members' in p:
                    if p['id'].startswith('1'):
                        for ms in p['members']:
                            walk(ms)
                    else:
                        walk(p['members'])
    walk(nested)
    if counter[0] != len(labels) and not problems:
        problems.append('the nested JSON holds %d (non-virtual) values, the flat view %d' % (counter[0], len(labels)))
    return problems


def nested_text_entries(text):
    """per subset: the entries of the nested text as [label, owner entry or -1, line]: for an attribute line
    (`-> ...`) the owner is the closest preceding line with a smaller indentation"""
    subsets = []
    in_data = False
    stack = []
    for line in text.split('\n'):
        if line.startswith('<<<<<<'):
            in_data = False
            continue
        if line.startswith('######'):
            subsets.append([])
            stack = []
            in_data = True
            continue
        if not in_data:
            continue
        t = line.lstrip(' .')
        indent = len(line) - len(t)
        while stack and stack[-1][0] >= indent:
            stack.pop()
        if t.startswith('# --- '):
            stack.append((indent, -1))
            continue
        k = len(subsets[-1])
        if t.startswith('-> '):
            subsets[-1].append([t[3:9], stack[-1][1] if stack else -1, t])
        else:
            subsets[-1].append([t[:6], -1, t])
        stack.append((indent, k))
    return subsets


NOVALUE = object()


def nested_json_entries(nested):
    """the same entries derived from the nested JSON: [id, owner entry or -1, value or NOVALUE]"""
    def emit(out, v, owner):
        k = len(out)
        out.append([v['id'], owner, v['value'] if 'value' in v else NOVALUE])
        for a in v.get('attributes', []):
            emit(out, a, k)

    def walk(out, nodes):
        for n in nodes:
            if 'value' in n:
                emit(out, n, -1)
                continue
            out.append([n['id'], -1, NOVALUE])
            if 'factor' in n:
                emit(out, n['factor'], -1)
            if 'members' in n:
                if n['id'].startswith('1'):
                    for ms in n['members']:
                        walk(out, ms)
                else:
                    walk(out, n['members'])
    res = []
    for sub in nested:
        out = []
        walk(out, sub)
        res.append(out)
    return res


def nested_text_owner_problems(text, nested):
    """nested text against nested JSON, entry by entry: same label, same owner entry for every attribute line, and
    the line of a value entry ends with the repr of the value the nested JSON holds"""
    problems = []
    for k, (te, je) in enumerate(zip(nested_text_entries(text), nested_json_entries(nested))):
        if len(te) != len(je):
            problems.append('subset %d: %d entries in the nested text, %d in the nested JSON' % (k + 1, len(te), len(je)))
            continue
        for n, (t, j) in enumerate(zip(te, je)):
            if t[0] != j[0]:
                why = 'label %s vs %s' % (t[0], j[0])
            elif t[1] != j[1]:
                why = 'the text shows it under entry %s, the JSON under entry %s' % (
                    (t[1], te[t[1]][2][:40]) if t[1] >= 0 else None, (j[1], je[j[1]][0]) if j[1] >= 0 else None)
            elif j[2] is NOVALUE:
                why = None       # operator / replication / sequence line (a sequence line carries its Table D name)
            else:
                why = None if t[2].endswith(' ' + repr(j[2])) else 'the text line does not end with the value %r of the JSON entry' % (j[2],)
            if why:
                problems.append('subset %d entry %d (%s): %s' % (k + 1, n, t[2][:60], why))
                break
    return problems[:3]


def owner_checks(out, texts):
    """-> {'problems': [(stage, description)], 'links': n, 'exempt': n} : cross-format consistency of the attribute owners"""
    res = {'problems': [], 'links': 0, 'exempt': 0, 'subsets_differing': 0}
    subs = out['subsets']
    ft = flat_text_links(texts['flat_text']) if 'flat_text' in texts else None
    prev = None
    for k, s in enumerate(subs):
        links = [list(x) for x in s['l']]
        res['links'] += len(links)
        if prev is not None and prev[0] == s['d'] and prev[1] != links:
            res['subsets_differing'] += 1
        prev = (s['d'], links)
        if ft is not None:
            if k >= len(ft) or ft[k]['links'] != links or ft[k]['labels'] != [l[:6] for l in s['d']]:
                res['problems'].append(('flat_text_links', 'subset %d: the `-> N` column of the flat text gives the links %s, bitmap_links %s' % (
                    k + 1, ft[k]['links'][:8] if k < len(ft) else None, links[:8])))
                continue
        # a class 33 value that carries an associated field is wired as a plain value (C07 F11-C07-wire-qa33)
        exempt = set(a for a, o in links if a > 0 and s['d'][a - 1][:1] == 'A')
        res['exempt'] += len(exempt)
        if isinstance(out.get('tree'), list):
            tl = tree_links(out['tree'][k])
            want = set((a, o) for a, o in links if a not in exempt)
            if tl != want:
                extra, missing = sorted(tl - want), sorted(want - tl)
                res['problems'].append(('owners', 'subset %d: node tree attaches (attribute entry, owner entry) %s which the flat view does not link; '
                                        'links of the flat view not shown in the tree: %s' % (
                                            k + 1, [(a + 1, o + 1) for a, o in extra][:6], [(a + 1, o + 1) for a, o in missing][:6])))
                continue
        if 'nested' in out:
            pr = nested_json_owner_problems(out['nested'][k], s['d'], s['v'], links, exempt)
            if pr:
                res['problems'].append(('owners_nested_json', 'subset %d: %s' % (k + 1, pr[0])))
    if 'nested' in out and 'nested_text' in texts:
        for p in nested_text_owner_problems(texts['nested_text'], out['nested']):
            res['problems'].append(('owners_nested_text', p))
    return res


def observe(b, encode=True, max_values=None):
    """Everything the C09 oracle and the correspondence need from the implementation for message bytes `b`.
    -> dict; 'decode' is 'ok' or an error tag (then nothing else is present)."""
    from pybufrkit.decoder import Decoder
    from pybufrkit.encoder import Encoder
    from pybufrkit.renderer import FlatTextRenderer, FlatJsonRenderer, NestedTextRenderer, NestedJsonRenderer
    from pybufrkit import utils as U
    out = {}
    try:
        msg = objs.decoder().process(b, wire_template_data=False)
    except Exception as e:  # noqa
        out['decode'] = core.err_tag(e)
        return out
    out['decode'] = 'ok'
    key = msg.table_group_key
    out['tables'] = [key.wmo_tables_sn, key.local_tables_sn, key.tables_root_dir]
    td = msg.template_data.value
    n_sub = msg.n_subsets.value
    out['n_subsets'] = n_sub
    out['compressed'] = bool(msg.is_compressed.value)
    out['lens'] = [len(v) for v in td.decoded_values_all_subsets]
    if max_values is not None and sum(out['lens']) > max_values:
        out['decode'] = 'skipped:large'
        return out
    out['subsets'] = [{'d': [str(d) for d in td.decoded_descriptors_all_subsets[i]],
                       'v': list(td.decoded_values_all_subsets[i]),
                       'l': sorted([a, o] for a, o in td.bitmap_links_all_subsets[i].items())} for i in range(n_sub)]
    flat = FlatJsonRenderer().render(msg)
    out['flat_values'] = td.decoded_values_all_subsets
    # -- wiring
    try:
        msg.wire()
        out['wire'] = 'ok'
    except Exception as e:  # noqa
        out['wire'] = core.err_tag(e)
        out['wire_exc'] = '%s: %s' % (type(e).__name__, str(e)[:120])
    stages = {}
    out['stages'] = stages
    if out['wire'] == 'ok':
        try:
            out['tree'] = [[node_canon(n) for n in td.decoded_nodes_all_subsets[i]] for i in range(n_sub)]
        except (AttrCycle, RecursionError):
            out['tree'] = 'err:other'
        idx = []
        for i in range(n_sub):
            order, foreign = tree_indices(td.decoded_nodes_all_subsets[i])
            idx.append({'order_ok': order == list(range(out['lens'][i])),
                        'perm_ok': sorted(order) == list(range(out['lens'][i])), 'foreign': foreign,
                        'n': len(order)})
        out['indices'] = idx
    # -- the three non-trivial renderings and their converters
    texts = {}

    def stage(name, render, convert):
        st = {}
        try:
            r = render()
        except RecursionError:
            st['render'] = 'err:other'
            st['exc'] = 'RecursionError'
            stages[name] = st
            return None
        except Exception as e:  # noqa
            st['render'] = core.err_tag(e)
            st['exc'] = '%s: %s' % (type(e).__name__, str(e)[:120])
            stages[name] = st
            return None
        st['render'] = 'ok'
        texts[name] = r
        try:
            back = convert(r)
        except Exception as e:  # noqa
            st['convert'] = core.err_tag(e)
            st['exc'] = '%s: %s' % (type(e).__name__, str(e)[:120])
            stages[name] = st
            return None
        st['convert'] = 'ok'
        d = first_strict_diff(back, flat)
        st['equal'] = d is None
        if d is not None:
            st['diff'] = [list(d[0]), repr(d[1])[:80], repr(d[2])[:80]]
        stages[name] = st
        return back

    nj = stage('nested_json', lambda: NestedJsonRenderer().render(msg), U.nested_json_to_flat_json)
    ft = stage('flat_text', lambda: FlatTextRenderer().render(msg), U.flat_text_to_flat_json)
    nt = stage('nested_text', lambda: NestedTextRenderer().render(msg), U.nested_text_to_flat_json)
    if 'nested_json' in texts:
        # the template-data value of the nested JSON, per subset, without the descriptions
        for sec in texts['nested_json']:
            for p in sec:
                if p['name'] == 'template_data':
                    out['nested'] = strip_description(p['value'])
    out['texts'] = {k: v for k, v in texts.items() if k != 'nested_json'}
    if 'nested' in out and 'nested_text' in texts:
        # nested text and nested JSON must lay the same nodes out in the same repetitions
        a, m = nested_text_layout(texts['nested_text']), nested_json_layout(out['nested'])
        stages['nested_text']['layout_equal'] = a == m
        if a != m:
            for k, (x, y) in enumerate(zip(a, m)):
                if x != y:
                    j = next((j for j, (p, q) in enumerate(zip(x, y)) if p != q), min(len(x), len(y)))
                    stages['nested_text']['layout_diff'] = 'subset %d entry %d: text %s, JSON %s' % (k, j, x[j:j + 1], y[j:j + 1])
                    break
    # -- attribute owners across the four views
    out['owners'] = owner_checks(out, texts)
    # -- encodings as the CLI makes them (JSON formats go through json.dumps / json.loads)
    if encode:
        enc = {}

        def encode_one(name, data):
            try:
                m = objs.encoder().process(data, wire_template_data=False)
                enc[name] = m.serialized_bytes
            except Exception as e:  # noqa
                enc[name] = core.err_tag(e) + ' ' + type(e).__name__

        # the reference: the plain re-encode of the rendered object (no serialisation in between)
        encode_one('flat_object', flat)
        encode_one('flat_json', json.loads(json.dumps(flat, **U.JSON_DUMPS_KWARGS)))
        if 'nested_json' in texts and stages['nested_json'].get('convert') == 'ok':
            encode_one('nested_json', U.nested_json_to_flat_json(json.loads(json.dumps(texts['nested_json'], **U.JSON_DUMPS_KWARGS))))
        if ft is not None:
            encode_one('flat_text', ft)
        if nt is not None:
            encode_one('nested_text', nt)
        out['enc_same'] = len(set(enc.values())) == 1
        out['enc_ok'] = all(isinstance(v, bytes) for v in enc.values())
        out['enc'] = {k: (v.hex() if isinstance(v, bytes) else v) for k, v in enc.items()} if not out['enc_same'] else sorted(enc)
    return out


# ---------------------------------------------------------------------------------------------
# comparison with the model's responses (op `views`)
def same_tree(impl, model):
    return impl == model


def same_nested(impl, model, path=''):
    """None when equal, else a description (values compared by the DESIGN 3.4 rule)"""
    if isinstance(impl, list) and isinstance(model, list):
        if len(impl) != len(model):
            return '%s: %d vs %d entries' % (path, len(impl), len(model))
        for i, (a, m) in enumerate(zip(impl, model)):
            d = same_nested(a, m, '%s[%d]' % (path, i))
            if d:
                return d
        return None
    if isinstance(impl, dict) and isinstance(model, dict):
        if sorted(impl) != sorted(model):
            return '%s: keys %s vs %s' % (path, sorted(impl), sorted(model))
        for k in impl:
            if k == 'value':
                if not C.same_value(impl[k], model[k]):
                    return '%s.value: %r vs %r' % (path, impl[k], model[k])
            elif k in ('id', 'virtual'):
                if impl[k] != model[k]:
                    return '%s.%s: %r vs %r' % (path, k, impl[k], model[k])
            else:
                d = same_nested(impl[k], model[k], path + '.' + k)
                if d:
                    return d
        return None
    return '%s: shapes differ' % path
