"""
Implementation-side observations of the COMMAND LINE of pybufrkit (C09, serialised path).

`run_main(argv, stdin)` runs `pybufrkit.main()` in-process exactly as `python -m pybufrkit <argv>` would (argparse, the
dispatch and error handling of `main`, `commands.command_*`), with `sys.stdout` / `sys.stderr` captured and `sys.stdin`
replaced by a text stream; `run_subprocess` does the same through a real process and real pipes.

`pipeline(b, ...)` takes one BUFR message through everything the command line offers for the four formats

    decode          | encode            (flat text,   flat_text_to_flat_json)
    decode -a       | encode -a         (nested text, nested_text_to_flat_json)
    decode -j       | encode -j         (flat JSON,   json.loads)
    decode -j -a    | encode -j -a      (nested JSON, json.loads + nested_json_to_flat_json)

the encoder reading from a file or from stdin (`-`), and evaluates the statement of C09 on the SERIALISED forms:
every format read back the way `command_encode` reads it carries the data of the flat JSON file, and encoding from
each of the four gives the bytes of the plain re-encode `Encoder().process(FlatJsonRenderer().render(msg))`.
Stages `ascii`, `text`, `literal`, `subprocess-text` are statements of the MODEL about the text (pure ASCII, the document
of the rendered object, the literal of each character value); the others are the property itself.
It also extracts, for every character value of the message, the JSON string literal the command line really wrote
for it (flat and nested JSON), for the comparison with the model (driver op `jsontext`).
"""
import io
import json
import logging
import os
import re
import subprocess
import sys

from harness import core

PY = sys.executable or '/venv/bin/python'

FORMATS = {
    'flat_text': [],
    'nested_text': ['-a'],
    'flat_json': ['-j'],
    'nested_json': ['-j', '-a'],
}

STRING_LIT = re.compile(r'"(?:[^"\\]|\\.)*"', re.S)


class Stdin(io.StringIO):
    """a text stdin; `.buffer` for an implementation that reads binary input from it"""

    def __init__(self, text=None, raw=None):
        if raw is not None:
            io.StringIO.__init__(self, raw.decode('latin-1'))
            self.buffer = io.BytesIO(raw)
        else:
            io.StringIO.__init__(self, text or '')
            self.buffer = io.BytesIO((text or '').encode('utf-8'))


def run_main(argv, stdin_text=None, stdin_raw=None):
    """-> (stdout text, stderr text, exception tag or None)"""
    import pybufrkit
    old = (sys.argv, sys.stdout, sys.stderr, sys.stdin)
    out, err = io.StringIO(), io.StringIO()
    exc = None
    try:
        sys.argv = ['pybufrkit'] + list(argv)
        sys.stdout, sys.stderr = out, err
        sys.stdin = Stdin(stdin_text, stdin_raw)
        try:
            pybufrkit.main()
        except SystemExit as e:
            if e.code not in (0, None):
                exc = 'SystemExit(%s)' % (e.code,)
        except RecursionError:
            exc = 'RecursionError'
        except Exception as e:  # noqa
            exc = '%s: %s' % (type(e).__name__, str(e)[:200])
    finally:
        sys.argv, sys.stdout, sys.stderr, sys.stdin = old
        # main() calls logging.basicConfig(stream=sys.stdout): forget the handler bound to the captured stream
        root = logging.getLogger()
        for h in list(root.handlers):
            root.removeHandler(h)
    return out.getvalue(), err.getvalue(), exc


def run_subprocess(argv, stdin_bytes=None, cwd=None, timeout=120):
    """-> (stdout bytes, stderr text, return code)"""
    env = dict(os.environ, PYTHONPATH=core.REPO + os.pathsep + os.environ.get('PYTHONPATH', ''))
    p = subprocess.run([PY, '-m', 'pybufrkit'] + list(argv), input=stdin_bytes, stdout=subprocess.PIPE,
                       stderr=subprocess.PIPE, cwd=cwd, env=env, timeout=timeout)
    return p.stdout, p.stderr.decode('utf-8', 'replace'), p.returncode


def as_text(obj):
    """an object with character data as text, one character per byte (what a JSON file holds)"""
    if isinstance(obj, bytes):
        return obj.decode('latin-1')
    if isinstance(obj, (list, tuple)):
        return [as_text(x) for x in obj]
    return obj


def first_diff(a, b, path=()):
    """strict comparison (types, floats by repr) -> None or (path, a, b)"""
    if isinstance(a, (list, tuple)) and isinstance(b, (list, tuple)):
        for i, (x, y) in enumerate(zip(a, b)):
            d = first_diff(x, y, path + (i,))
            if d:
                return d
        if len(a) != len(b):
            return path, 'len %d' % len(a), 'len %d' % len(b)
        return None
    if type(a) is not type(b) or (repr(a) != repr(b)):
        return path, a, b
    return None


class Lit(str):
    """a string read from JSON text that remembers the literal it was written as"""
    raw = None


def loads_keeping_literals(text):
    """json.loads(text) in which every string (keys included) is a `Lit`"""
    from json import decoder, scanner
    dec = json.JSONDecoder()

    def parse_string(s, end, strict=True):
        v, e = decoder.py_scanstring(s, end, strict)
        lit = Lit(v)
        lit.raw = s[end - 1:e]
        return lit, e
    dec.parse_string = parse_string
    dec.scan_once = scanner.py_make_scanner(dec)
    return dec.decode(text)


def literals_written(obj, text):
    """`obj`: what a renderer returned (bytes inside); `text`: the JSON text the command line printed for it.
    -> (problem or None, [(bytes value, literal text written for it)]).  The text must be a JSON document of the same
    structure (key order and white space are free) in which every value that is not a character value equals the
    rendered one (floats by repr)."""
    try:
        data = loads_keeping_literals(text)
    except ValueError as e:
        return 'the JSON text does not parse: %s' % str(e)[:120], []
    out = []

    def walk(o, d, path):
        if isinstance(o, bytes):
            if not isinstance(d, Lit):
                return 'at %s: character value %r written as %r' % (path, o, d)
            out.append((o, d.raw))
            return None
        if isinstance(o, dict):
            if not isinstance(d, dict) or sorted(o) != sorted(d):
                return 'at %s: keys %s written as %s' % (path, sorted(o), sorted(d) if isinstance(d, dict) else type(d).__name__)
            for k in o:
                w = walk(o[k], d[k], path + [k])
                if w:
                    return w
            return None
        if isinstance(o, (list, tuple)):
            if not isinstance(d, list) or len(o) != len(d):
                return 'at %s: list of %d written as %s' % (path, len(o), 'list of %d' % len(d) if isinstance(d, list) else type(d).__name__)
            for i, (x, y) in enumerate(zip(o, d)):
                w = walk(x, y, path + [i])
                if w:
                    return w
            return None
        if isinstance(d, Lit):
            d = str(d)
        if type(o) is not type(d) or repr(o) != repr(d):
            return 'at %s: %r written as %r' % (path, o, d)
        return None
    return walk(obj, data, []), out


def reference(b):
    """-> (msg, flat object, bytes of the plain re-encode or error tag)"""
    from pybufrkit.decoder import Decoder
    from pybufrkit.encoder import Encoder
    from pybufrkit.renderer import FlatJsonRenderer
    msg = Decoder().process(b, wire_template_data=False)
    flat = FlatJsonRenderer().render(msg)
    try:
        ref = Encoder().process(flat, wire_template_data=False).serialized_bytes
    except Exception as e:  # noqa
        ref = core.err_tag(e) + ' ' + type(e).__name__
    return msg, flat, ref


def pipeline(b, workdir, formats=None, via=None, subprocess_too=False, extra_decode_args=()):
    """One message through `decode [-j] [-a] | encode [-j] [-a]`.
    -> {'problems': [(stage, why)], 'lits': {hex: [literal, ..]}, 'stats': {...}}; 'decode' != 'ok' when the message
    does not decode through the API (nothing is checked then)."""
    from pybufrkit.renderer import NestedJsonRenderer
    from pybufrkit import utils as U
    out = {'problems': [], 'lits': {}, 'stats': {}}
    bad = out['problems']
    try:
        msg, flat, ref = reference(b)
    except Exception as e:  # noqa
        out['decode'] = core.err_tag(e)
        return out
    out['decode'] = 'ok'
    out['ref_is_input'] = (ref == b)
    if not isinstance(ref, bytes):
        out['decode'] = 'encoder-refused'
        return out
    fin = os.path.join(workdir, 'in.bufr')
    with open(fin, 'wb') as f:
        f.write(b)
    flat_file = None
    texts = {}
    wired = None
    for pos, name in enumerate(formats or ['flat_json', 'nested_json', 'flat_text', 'nested_text']):
        flags = FORMATS[name]
        text, err, exc = run_main(['decode'] + flags + list(extra_decode_args) + [fin])
        if exc or err:
            if name in ('nested_json', 'nested_text'):
                # the wiring pass may fail (open findings F11/F15): the plain C09 check reports that
                if wired is None:
                    try:
                        msg.wire()
                        wired = True
                    except Exception:  # noqa
                        wired = False
                if not wired:
                    out['stats']['wire-fails'] = 1
                    continue
            bad.append((name + ':decode', 'pybufrkit decode %s failed: %s %s' % (' '.join(flags), exc, err[:200])))
            continue
        texts[name] = text
        # -- what command_encode makes of it
        try:
            if name == 'flat_json':
                data = json.loads(text)
                flat_file = data
            elif name == 'nested_json':
                data = U.nested_json_to_flat_json(json.loads(text))
            elif name == 'flat_text':
                data = U.flat_text_to_flat_json(text)
            else:
                data = U.nested_text_to_flat_json(text)
        except Exception as e:  # noqa
            bad.append((name + ':read', 'cannot be read back: %s: %s' % (type(e).__name__, str(e)[:160])))
            continue
        if flat_file is not None:
            d = first_diff(as_text(data), flat_file)
            if d:
                bad.append((name + ':same-data', '%s read back does not carry the data of the flat JSON file at %s: %r vs %r' % (
                    name, list(d[0]), d[1] if not isinstance(d[1], str) else d[1][:80], d[2] if not isinstance(d[2], str) else d[2][:80])))
        # -- JSON formats: the text is json.dumps of the rendered object, character values one character per byte
        if name in ('flat_json', 'nested_json'):
            try:
                text.encode('ascii')
            except UnicodeEncodeError:
                bad.append((name + ':ascii', 'the JSON text is not pure ASCII'))
            if name == 'nested_json' and wired is None:
                msg.wire()
                wired = True
            obj = flat if name == 'flat_json' else NestedJsonRenderer().render(msg)
            why, lits = literals_written(obj, text.rstrip('\n'))
            if why:
                bad.append((name + ':text', why))
            for v, lit in lits:
                ls = out['lits'].setdefault(v.hex(), [])
                if lit not in ls:
                    ls.append(lit)
        # -- encode: pybufrkit encode [-j] [-a] <file | -> out.bufr
        mode = via or ('stdin', 'file')[(pos + len(b)) % 2]
        fout = os.path.join(workdir, 'out.bufr')
        if os.path.exists(fout):
            os.remove(fout)
        if mode == 'file':
            ftxt = os.path.join(workdir, 'in.txt')
            with open(ftxt, 'w') as f:  # what `> file` leaves behind (stdout's encoding = the locale's)
                f.write(text)
            _, err, exc = run_main(['encode'] + flags + [ftxt, fout])
        else:
            _, err, exc = run_main(['encode'] + flags + ['-', fout], stdin_text=text)
        out['stats']['encode-from-' + mode] = out['stats'].get('encode-from-' + mode, 0) + 1
        if exc or err or not os.path.exists(fout):
            bad.append((name + ':encode', 'pybufrkit encode %s (%s) failed: %s %s' % (' '.join(flags), mode, exc, err[:200])))
            continue
        with open(fout, 'rb') as f:
            got = f.read()
        if got != ref:
            k = next((i for i, (x, y) in enumerate(zip(got, ref)) if x != y), min(len(got), len(ref)))
            bad.append((name + ':bytes', 'decode %s | encode %s gives other BUFR bytes than the plain re-encode: %d vs %d bytes, first difference at octet %d (%s vs %s)' % (
                ' '.join(flags), ' '.join(flags), len(got), len(ref), k, got[k:k + 8].hex(), ref[k:k + 8].hex())))
        if subprocess_too:
            so, se, rc = run_subprocess(['decode'] + flags + [fin])
            if rc != 0 or se:
                bad.append((name + ':subprocess', 'python -m pybufrkit decode %s: rc %s %s' % (' '.join(flags), rc, se[:200])))
            elif so.decode('utf-8', 'replace') != text:
                bad.append((name + ':subprocess-text', 'python -m pybufrkit decode %s prints other text than main() in-process' % ' '.join(flags)))
            else:
                fout2 = os.path.join(workdir, 'out2.bufr')
                if os.path.exists(fout2):
                    os.remove(fout2)
                _, se, rc = run_subprocess(['encode'] + flags + ['-', fout2], stdin_bytes=so)
                got2 = open(fout2, 'rb').read() if os.path.exists(fout2) else None
                if rc != 0 or se or got2 != ref:
                    bad.append((name + ':subprocess', 'python -m pybufrkit decode %s | python -m pybufrkit encode %s - : rc %s, %s, bytes %s' % (
                        ' '.join(flags), ' '.join(flags), rc, se[:160], 'missing' if got2 is None else ('same' if got2 == ref else 'differ'))))
            out['stats']['subprocess-pipelines'] = out['stats'].get('subprocess-pipelines', 0) + 1
    out['stats']['formats'] = len(texts)
    return out


def char_values(flat):
    """the character values (bytes) of a flat JSON object, in order"""
    out = []

    def walk(x):
        if isinstance(x, bytes):
            out.append(x)
        elif isinstance(x, (list, tuple)):
            for y in x:
                walk(y)
    walk(flat)
    return out


def impl_text_layer(values):
    """for each character value (bytes) and a few field widths: what the implementation's own functions make of it
    -> [{'hex', 'k', 'lit', 'back': [code points], 'field': bits}]"""
    from pybufrkit.utils import JSON_DUMPS_KWARGS
    from pybufrkit.bitops import get_bit_writer
    import ast
    out = []
    for v in values:
        lit = json.dumps(v, **JSON_DUMPS_KWARGS)
        tok = '{!r}'.format(v)     # the value token of FlatTextRenderer / NestedTextRenderer
        try:
            tok_back = ast.literal_eval(tok)
            tok_back = tok_back.hex() if isinstance(tok_back, bytes) else repr(tok_back)
        except Exception as e:  # noqa
            tok_back = None
        try:
            s = json.loads(lit)
        except Exception as e:  # noqa
            out.append({'hex': v.hex(), 'k': len(v), 'lit': lit, 'back': None, 'field': None, 'exc': repr(e)[:100], 'repr': tok, 'repr_back': tok_back})
            continue
        for k in sorted({len(v), len(v) + 3, max(len(v) - 2, 0)}):
            if k == 0:
                continue
            try:
                w = get_bit_writer()
                w.write_bytes(s, k)
                field = w.bit_stream.bin
            except Exception as e:  # noqa
                field = None
            out.append({'hex': v.hex(), 'k': k, 'lit': lit, 'back': [ord(c) for c in s] if isinstance(s, str) else None, 'field': field,
                        'repr': tok, 'repr_back': tok_back})
    return out


# ---------------------------------------------------------------------------------------------
# the other sub-commands: option handling glue against the API calls they are documented to wrap
def _same(bad, stage, what, got, want):
    if got != want:
        if isinstance(got, (str, bytes)) and isinstance(want, (str, bytes)) and type(got) is type(want):
            k = next((i for i, (x, y) in enumerate(zip(got, want)) if x != y), min(len(got), len(want)))
            bad.append((stage, '%s: differs at offset %d (%d vs %d long): %r vs %r' % (what, k, len(got), len(want), got[max(0, k - 10):k + 30], want[max(0, k - 10):k + 30])))
        else:
            bad.append((stage, '%s: %r vs %r' % (what, got if not isinstance(got, (str, bytes)) else got[:80], want if not isinstance(want, (str, bytes)) else want[:80])))


def glue(msgs, workdir, char_id=None, runner=None, light=False):
    """`msgs`: 2-3 messages (bytes) that decode and re-encode; the first one has >= 2 subsets when possible.
    Runs encode --preamble/--append, split, decode -m / several files, info [-m|-c|-t], subset, query, script through
    `main()` (or through real processes when `runner` is run_subprocess-like) and compares every output with the
    composition of API calls.  -> {'problems': [...], 'stats': {...}}"""
    from pybufrkit.decoder import Decoder, generate_bufr_message
    from pybufrkit.encoder import Encoder
    from pybufrkit.renderer import FlatTextRenderer, FlatJsonRenderer, NestedJsonRenderer
    from pybufrkit.utils import JSON_DUMPS_KWARGS
    out = {'problems': [], 'stats': {}}
    bad = out['problems']
    st = out['stats']

    def run(argv, stdin_text=None):
        st['commands'] = st.get('commands', 0) + 1
        if runner is None:
            return run_main(argv, stdin_text=stdin_text)
        so, se, rc = runner(argv, stdin_bytes=None if stdin_text is None else stdin_text.encode('utf-8'), cwd=workdir)
        return so.decode('utf-8', 'replace'), se, (None if rc == 0 else 'rc %s' % rc)

    def ok(stage, res):
        text, err, exc = res
        if exc or err:
            bad.append((stage, 'failed: %s %s' % (exc, err[:200])))
            return False
        return True

    refs, jsons, files = [], [], []
    for i, b in enumerate(msgs):
        msg, flat, ref = reference(b)
        refs.append(ref)
        f = os.path.join(workdir, 'm%d.bufr' % i)
        with open(f, 'wb') as fh:
            fh.write(ref)
        files.append(f)
        jsons.append(json.dumps(flat, **JSON_DUMPS_KWARGS))
    # -- encode: --preamble, --append, overwrite
    cat = os.path.join(workdir, 'cat.bufr')
    if os.path.exists(cat):
        os.remove(cat)
    want = b''
    for i, (js, ref) in enumerate(zip(jsons, refs)):
        fj = os.path.join(workdir, 'm%d.json' % i)
        with open(fj, 'w') as fh:
            fh.write(js + '\n')
        pre = ['HDR %d\r\r\n' % i, None, 'é€ '][i % 3]
        argv = ['encode', '-j'] + (['--append'] if i else []) + (['--preamble', pre] if pre else []) + [fj, cat]
        if not ok('encode:append', run(argv)):
            return out
        want += (pre.encode('utf8') if pre else b'') + ref
        got = open(cat, 'rb').read()
        _same(bad, 'encode:append', 'file after %d encode calls (--preamble / --append)' % (i + 1), got, want)
    # without --append the output file is replaced
    over = os.path.join(workdir, 'over.bufr')
    with open(over, 'wb') as fh:
        fh.write(b'OLD CONTENT' * 50)
    if ok('encode:overwrite', run(['encode', '-j', os.path.join(workdir, 'm0.json'), over])):
        _same(bad, 'encode:overwrite', 'encode without --append replaces the file', open(over, 'rb').read(), refs[0])
    if bad:
        return out
    # -- split
    res = run(['split', cat])
    if ok('split', res):
        names = res[0].split('\n')
        _same(bad, 'split', 'names printed', names, ['%s.%d' % (cat, i) for i in range(len(refs))] + [''])
        for i, ref in enumerate(refs):
            p = '%s.%d' % (cat, i)
            _same(bad, 'split', 'content of part %d' % i, open(p, 'rb').read() if os.path.exists(p) else None, ref)
    # -- decode: -m over the concatenation, several file names, one output per message in order
    singles = {}
    for flags in ((['-j'],) if light else ([], ['-j'], ['-j', '-a'], ['-a'])):
        texts = []
        for f in files:
            r = run(['decode'] + flags + [f])
            if not ok('decode:single', r):
                texts = None
                break
            texts.append(r[0])
        if texts is None:
            continue
        singles[tuple(flags)] = texts
        r = run(['decode', '-m'] + flags + [cat])
        if ok('decode:-m', r):
            _same(bad, 'decode:-m', 'decode -m %s of the concatenation = the single outputs in order' % ' '.join(flags),
                  r[0].replace(cat, '<f>'), ''.join(t.replace(f, '<f>') for t, f in zip(texts, files)))
        r = run(['decode'] + flags + files)
        if ok('decode:files', r):
            _same(bad, 'decode:files', 'decode %s of several files = the single outputs in order' % ' '.join(flags), r[0], ''.join(texts))
    # -- info
    dec = Decoder()
    ftr = FlatTextRenderer()
    def info_text(m, template=False):
        tpl, _ = m.build_template(None, normalize=1)
        return ftr.render(m) + '\n' + (ftr.render(tpl) + '\n' if template else '')

    r = run(['info', files[0]])
    if ok('info', r):
        _same(bad, 'info', 'info = flat text of the metadata-only decode', r[0], info_text(dec.process(refs[0], file_path=files[0], info_only=True)))
    if not light:
        r = run(['info', '-t', files[0]])
        if ok('info:-t', r):
            _same(bad, 'info:-t', 'info -t', r[0], info_text(dec.process(refs[0], file_path=files[0], info_only=True), True))
    r = run(['info', '-c', cat])
    if ok('info:-c', r):
        _same(bad, 'info:-c', 'info -c', r[0], '%s: %d\n' % (cat, len(refs)))
    r = None if light else run(['info', '-m', cat])
    if r is not None and ok('info:-m', r):
        want_t = ''.join(info_text(m) for m in generate_bufr_message(dec, open(cat, 'rb').read(), file_path=cat, info_only=True))
        _same(bad, 'info:-m', 'info -m', r[0], want_t)
    # -- subset
    msg0 = Decoder().process(refs[0], wire_template_data=False)
    n = msg0.n_subsets.value
    flat0 = json.loads(jsons[0])
    if n >= 2:
        for idxs in ([[0, n - 1]] if light else [[n - 1], [0, n - 1], list(range(n))[:3]]):
            fo = os.path.join(workdir, 'sub.bufr')
            if os.path.exists(fo):
                os.remove(fo)
            r = run(['subset', ','.join(map(str, idxs)), files[0], fo])
            if not ok('subset', r):
                continue
            got = open(fo, 'rb').read() if os.path.exists(fo) else None
            try:
                want_b = Encoder().process(Decoder().process(refs[0], wire_template_data=False).subset(idxs), wire_template_data=False).serialized_bytes
            except Exception as e:  # noqa
                want_b = None
            _same(bad, 'subset', 'subset %s = Encoder(msg.subset(..))' % idxs, got, want_b)
            if got:
                r = run(['decode', '-j', fo])
                if ok('subset:decode', r):
                    data = json.loads(r[0])
                    d = first_diff(data[-2][-1], [flat0[-2][-1][i] for i in idxs])
                    if d:
                        bad.append(('subset:data', 'subset %s | decode -j: subsets are not the selected subsets of decode -j of the whole message at %s: %r vs %r' % (idxs, list(d[0]), d[1], d[2])))
            st['subset'] = st.get('subset', 0) + 1
    # -- query / script
    from pybufrkit.dataquery import NodePathParser, DataQuerent
    from pybufrkit.mdquery import MetadataExprParser, MetadataQuerent
    td = msg0.template_data.value
    ids_present = []
    for d in td.decoded_descriptors_all_subsets[0]:
        s = str(d)
        if s[0] == '0' and s not in ids_present:
            ids_present.append(s)
    qs = ([char_id] if char_id and char_id in ids_present else []) + ids_present[:2]
    for q in qs[:1 if light else 2]:
        wired = Decoder().process(refs[0], file_path=files[0], wire_template_data=True)
        try:
            qr = DataQuerent(NodePathParser()).query(wired, q)
        except Exception:  # noqa
            continue
        for flags, want_t in ((['-j'], json.dumps(FlatJsonRenderer().render(qr), **JSON_DUMPS_KWARGS) + '\n'),) if light else (
                              (['-j'], json.dumps(FlatJsonRenderer().render(qr), **JSON_DUMPS_KWARGS) + '\n'),
                              (['-j', '-n'], json.dumps(NestedJsonRenderer().render(qr), **JSON_DUMPS_KWARGS) + '\n'),
                              ([], files[0] + '\n' + FlatTextRenderer().render(qr) + '\n')):
            r = run(['query'] + flags + [q, files[0]])
            if ok('query', r):
                _same(bad, 'query', 'query %s %s' % (' '.join(flags), q), r[0], want_t)
                if flags == ['-j'] and q == char_id:
                    # the values shown are the flat values under that id, character data one character per byte (stated for the
                    # character element only: an id that also hangs on other nodes as a virtual attribute - 031021, 008023, class 33 -
                    # is found once per owner by a bare-id query, which is C16's subject)
                    data = json.loads(r[0])
                    want_v = {str(i): [as_text(v) for d, v in zip(td.decoded_descriptors_all_subsets[i], td.decoded_values_all_subsets[i]) if str(d) == q]
                              for i in range(n)}
                    data = {k: data[k] for k in sorted(data)} if isinstance(data, dict) else data
                    d = first_diff(data, want_v)
                    if d:
                        bad.append(('query:data', 'query -j %s: not the flat values under that id at %s: %r vs %r' % (q, list(d[0]), d[1], d[2])))
        st['query'] = st.get('query', 0) + 1
        # script: the same values through the script runner
        script = 'print(${%s})' % q
        import contextlib
        from pybufrkit.script import ScriptRunner
        buf = io.StringIO()
        try:
            with contextlib.redirect_stdout(buf):
                ScriptRunner(script, data_values_nest_level=None).run(Decoder().process(refs[0], file_path=files[0], wire_template_data=True))
            want_t = buf.getvalue()
        except Exception:  # noqa
            want_t = None
        if want_t is not None:
            fs = os.path.join(workdir, 's.py')
            with open(fs, 'w') as fh:
                fh.write(script)
            for argv, stdin in ([(['script', '-', files[0]], script)] if light else
                                [(['script', script, files[0]], None), (['script', '-f', fs, files[0]], None), (['script', '-', files[0]], script)]):
                r = run(argv, stdin_text=stdin)
                if ok('script', r):
                    _same(bad, 'script', ' '.join(argv[:2]), r[0], want_t)
            st['script'] = st.get('script', 0) + 1
    r = None if light else run(['query', '%n_subsets', files[0]])
    if r is not None and ok('query:md', r):
        _same(bad, 'query:md', 'query %n_subsets', r[0], '%s\n%s\n' % (files[0], MetadataQuerent(MetadataExprParser()).query(Decoder().process(refs[0], info_only=True), '%n_subsets')))
    return out


# ---------------------------------------------------------------------------------------------
# decode -m with --filter / --continue-on-error / --ignore-value-expectation (called from C11 and C12)
FILTERS = ['${%n_subsets} > 1', '${%n_subsets} == 1', '${%is_compressed}', 'not ${%is_compressed}', '${%edition} == 4', '${%edition} < 4',
           '${%data_category} == 2', '${%data_category} != 2', '${%length} > 150', 'True', 'False',
           '${%n_subsets} > 1 and ${%edition} == 4']


def _json_lines(messages):
    from pybufrkit.renderer import FlatJsonRenderer
    from pybufrkit.utils import JSON_DUMPS_KWARGS
    return [json.dumps(FlatJsonRenderer().render(m), **JSON_DUMPS_KWARGS) for m in messages]


def _selected(stream, expr):
    """which messages of an undamaged stream the filter selects, each message judged on its own metadata"""
    from pybufrkit.decoder import Decoder, generate_bufr_message
    from pybufrkit.script import ScriptRunner
    sr = ScriptRunner(expr, mode='eval')
    return [bool(sr.run(m)) for m in generate_bufr_message(Decoder(), stream, info_only=True)]


def _no_traceback(bad, stage, res, allow_stderr=None):
    text, err, exc = res
    if exc:
        bad.append((stage, 'main() raised / exited: %s' % exc))
        return False
    if 'Traceback' in err or 'Traceback' in text:
        bad.append((stage, 'traceback printed: %s' % (err or text)[-200:]))
        return False
    if err and (allow_stderr is None or not all(l.startswith(allow_stderr) for l in err.strip().split('\n'))):
        bad.append((stage, 'unexpected text on stderr: %s' % err[:200]))
        return False
    return True


def _msg_lines(text, st):
    """the JSON lines of a `decode -m -j` output; anything else on stdout (main() sends the log to stdout: WARNING lines of the
    table lookup are mixed into the output) is counted, not compared"""
    lines = text.split('\n')
    other = [l for l in lines if l and not l.startswith('[[')]
    if other:
        st['stdout-lines-that-are-not-messages'] = st.get('stdout-lines-that-are-not-messages', 0) + len(other)
    return [l for l in lines if l.startswith('[[')]


def glue_stream(msgs, workdir, parts=('filter', 'prepbufr', 'damaged'), filters=None):
    """`msgs`: >= 3 messages (bytes, canonical re-encodes) of different metadata.  Everything through `main()` in-process.
    filter:   `decode -m -j --filter E cat` prints exactly the messages E selects: = generate_bufr_message(filter_expr=E) called
              directly = the lines of the unfiltered run at the positions where E holds of the message's own metadata;
    prepbufr: the same on tests/data/prepbufr.bufr for filters that reject / accept its table definition messages (the definitions
              of a rejected message still govern what follows: the data messages print as in the unfiltered run);
    damaged:  `decode -m -j [--continue-on-error]` on good + damaged + good, `decode [--ignore-value-expectation]` on a message
              with a wrong stop signature: the lines of the undamaged members, one notice per skipped member on stderr, no traceback.
    -> {'problems': [...], 'stats': {...}}"""
    out = {'problems': [], 'stats': {}}
    keep_last = logging.lastResort
    logging.lastResort = None       # the API calls made for comparison log table warnings: not to the check's output
    try:
        return _glue_stream(msgs, workdir, parts, filters, out)
    finally:
        logging.lastResort = keep_last


def _glue_stream(msgs, workdir, parts, filters, out):
    from pybufrkit.decoder import Decoder, generate_bufr_message
    bad, st = out['problems'], out['stats']

    def run(argv):
        st['commands'] = st.get('commands', 0) + 1
        return run_main(argv)

    sep = b'\r\r\n'
    stream = b'junk BUF' + sep.join(msgs) + b'7777'
    cat = os.path.join(workdir, 'stream.bufr')
    with open(cat, 'wb') as f:
        f.write(stream)
    plain = run(['decode', '-m', '-j', cat])
    if not _no_traceback(bad, 'stream:plain', plain):
        return out
    lines = _msg_lines(plain[0], st)
    want = _json_lines(generate_bufr_message(Decoder(), stream, file_path=cat, wire_template_data=False))
    if lines != want or len(lines) != len(msgs):
        bad.append(('stream:plain', 'decode -m -j prints %d messages, generate_bufr_message yields %d, the stream holds %d' % (len(lines), len(want), len(msgs))))
        return out
    if 'filter' in parts:
        for expr in (filters or FILTERS):
            r = run(['decode', '-m', '-j', '--filter', expr, cat])
            if not _no_traceback(bad, 'filter', r):
                continue
            got = _msg_lines(r[0], st)
            direct = _json_lines(generate_bufr_message(Decoder(), stream, filter_expr=expr, file_path=cat, wire_template_data=False))
            sel = _selected(stream, expr)
            by_meta = [l for l, s in zip(lines, sel) if s]
            if got != direct:
                bad.append(('filter', 'decode -m -j --filter %r prints %d messages, generate_bufr_message(filter_expr=..) yields %d' % (expr, len(got), len(direct))))
            elif got != by_meta:
                bad.append(('filter', 'decode -m -j --filter %r prints %d messages, the filter holds of %s of the %d messages of the unfiltered run (%s)' % (
                    expr, len(got), sum(sel), len(sel), 'other messages' if len(got) == len(by_meta) else 'other count')))
            st['filters'] = st.get('filters', 0) + 1
            st['filter-selected'] = st.get('filter-selected', 0) + sum(sel)
            st['filter-rejected'] = st.get('filter-rejected', 0) + len(sel) - sum(sel)
    if 'prepbufr' in parts:
        pb = os.path.join(core.REPO, 'tests', 'data', 'prepbufr.bufr')
        if os.path.exists(pb):
            raw = open(pb, 'rb').read()
            r0 = run(['decode', '-m', '-j', pb])
            if _no_traceback(bad, 'prepbufr:plain', r0):
                l0 = _msg_lines(r0[0], st)
                from pybufrkit.script import ScriptRunner
                # the messages of the unfiltered full scan (what `decode -m` walks through) and their own metadata
                full = list(generate_bufr_message(Decoder(), raw, file_path=pb, wire_template_data=False))
                cats = [m.data_category.value for m in full]
                if _json_lines(full) != l0:
                    bad.append(('prepbufr:plain', 'decode -m -j prints %d messages, generate_bufr_message yields %d (or other content)' % (len(l0), len(full))))
                else:
                    for expr in ('${%data_category} != 11', '${%data_category} == 11', '${%n_subsets} > 0 and ${%data_category} != 11'):
                        sr = ScriptRunner(expr, mode='eval')
                        keep = [bool(sr.run(m)) for m in full]
                        r = run(['decode', '-m', '-j', '--filter', expr, pb])
                        if not _no_traceback(bad, 'prepbufr:filter', r):
                            continue
                        got = _msg_lines(r[0], st)
                        direct = _json_lines(generate_bufr_message(Decoder(), raw, filter_expr=expr, file_path=pb, wire_template_data=False))
                        by_meta = [l for l, s in zip(l0, keep) if s]
                        if got != direct or got != by_meta:
                            bad.append(('prepbufr:filter', 'decode -m -j --filter %r on prepbufr.bufr prints %d messages; generate_bufr_message yields %d; '
                                                           'the unfiltered run has %d messages of which the filter selects %d (%s)' % (
                                                               expr, len(got), len(direct), len(l0), len(by_meta),
                                                               'same count, other content' if len(got) == len(by_meta) else 'other count')))
                        st['prepbufr-filters'] = st.get('prepbufr-filters', 0) + 1
                        st['prepbufr-definition-messages-rejected'] = st.get('prepbufr-definition-messages-rejected', 0) + sum(
                            1 for c, s in zip(cats, keep) if c == 11 and not s)
    if 'damaged' in parts:
        victim = msgs[1]
        damaged = victim[:-1] + b'8'                      # stop signature 7778
        s2 = msgs[0] + sep + damaged + sep + msgs[2]
        f2 = os.path.join(workdir, 'damaged.bufr')
        with open(f2, 'wb') as f:
            f.write(s2)
        notice = 'Continuing on next message and ignoring error'
        r = run(['decode', '-m', '-j', '--continue-on-error', f2])
        if _no_traceback(bad, 'damaged:continue', r, allow_stderr=notice):
            got = _msg_lines(r[0], st)
            if got != [lines[0], lines[2]]:
                bad.append(('damaged:continue', 'decode -m -j --continue-on-error on good+damaged+good prints %d messages, not the two undamaged ones' % len(got)))
            if r[1].count(notice) != 1:
                bad.append(('damaged:continue', '%d notices on stderr for one damaged member' % r[1].count(notice)))
        r = run(['decode', '-m', '-j', f2])
        text, err, exc = r
        if exc or 'Traceback' in err or 'Traceback' in text:
            bad.append(('damaged:stop', 'decode -m -j on a stream with a damaged member: %s %s' % (exc, err[-200:])))
        else:
            if _msg_lines(text, st) != [lines[0]]:
                bad.append(('damaged:stop', 'without --continue-on-error the messages before the damaged one are printed and nothing else: %d lines' % len(_msg_lines(text, st))))
            if not err.strip():
                bad.append(('damaged:stop', 'the failure is not reported on stderr'))
        # one message with a wrong stop signature: refused, accepted with --ignore-value-expectation and shown as it is
        f3 = os.path.join(workdir, 'stop.bufr')
        with open(f3, 'wb') as f:
            f.write(damaged)
        r = run(['decode', '-j', f3])
        if r[2] or 'Traceback' in r[1] or r[0].strip() or not r[1].strip():
            bad.append(('damaged:value-expectation', 'decode of a message with stop signature 7778: stdout %r, stderr %r, %s' % (r[0][:60], r[1][:120], r[2])))
        r = run(['decode', '-j', '--ignore-value-expectation', f3])
        if _no_traceback(bad, 'damaged:ignore-value-expectation', r):
            try:
                data = json.loads(r[0])
                ref = json.loads(lines[1])
                if data[-1] != ['7778'] or data[:-1] != ref[:-1]:
                    bad.append(('damaged:ignore-value-expectation', 'decode --ignore-value-expectation: not the message with the stop signature as found (%r)' % (data[-1],)))
            except ValueError as e:
                bad.append(('damaged:ignore-value-expectation', 'output is not JSON: %s' % e))
        r = run(['decode', '-m', '-j', '--ignore-value-expectation', f2])
        if _no_traceback(bad, 'damaged:ignore-value-expectation-m', r):
            got = _msg_lines(r[0], st)
            if len(got) != 3 or got[0] != lines[0] or got[2] != lines[2]:
                bad.append(('damaged:ignore-value-expectation-m', 'decode -m --ignore-value-expectation prints %d messages for 3' % len(got)))
        st['damaged'] = st.get('damaged', 0) + 1
    return out
