"""Imports a seeded change produced by a seeding sub-agent:  python -m harness.seed_import <src dir> <id e.g. C16-1> "<summary>" "<needs>"
copies patch.diff / demo.py / notes.md to seeded/<id>/, re-confirms it in a scratch worktree (suite passes, demo fails
with the change and passes without), runs the registered quick check against it and writes meta.json."""
import json
import os
import shutil
import subprocess
import sys

VERIF = os.path.dirname(os.path.dirname(os.path.abspath(__file__)))


def main():
    src, sid, summary, needs = sys.argv[1:5]
    prop = sid[:3]
    dst = os.path.join(VERIF, 'seeded', sid)
    os.makedirs(dst, exist_ok=True)
    for f in ('patch.diff', 'demo.py', 'notes.md'):
        if os.path.exists(os.path.join(src, f)):
            shutil.copy(os.path.join(src, f), os.path.join(dst, f))
    ptext = [json.loads(l) for l in open(os.path.join(VERIF, 'properties.jsonl'))]
    p = [x for x in ptext if x['id'] == prop][0]
    p_ = subprocess.run(['/venv/bin/python', '-m', 'harness.seedtest', dst, '--prop', prop, '--suite'], cwd=VERIF,
                        stdout=subprocess.PIPE, stderr=subprocess.STDOUT, text=True)
    out = p_.stdout
    print(out[-3000:])
    line = [l for l in out.split('\n') if l.startswith('SEED ')]
    line = line[-1] if line else ''
    ok = 'suite=pass' in line and 'demo_changed=1' in line and 'demo_orig=0' in line
    meta = {
        'property': '%s - %s: %s' % (prop, p['title'], p['statement']),
        'property_id': prop,
        'summary': summary,
        'needs': needs,
        'ran': ['python -m harness.seedtest seeded/%s --suite (scratch worktree of /repo HEAD under /tmp: demo on the clean tree, '
                'git apply patch.diff, repository test suite, demo with the change, ./check %s --tier quick with VERIF_REPO=<scratch>)' % (sid, prop)],
        'confirmed': ('repository test suite passes with the change; demo exits 1 with it and 0 without (re-run by the integrator in a scratch worktree)'
                      if ok else 'NOT CONFIRMED: ' + line),
        'check_result': line,
        'detected_by_quick_check': 'detected=yes' in line,
    }
    with open(os.path.join(dst, 'meta.json'), 'w') as f:
        json.dump(meta, f, indent=1)
    print('confirmed' if ok else 'NOT CONFIRMED', '| detected' if meta['detected_by_quick_check'] else '| NOT detected')


if __name__ == '__main__':
    main()
